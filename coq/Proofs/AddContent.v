(* Proofs/AddContent.v — "nothing lost, nothing invented, nothing reordered": the rows that one
   call of add_lexical_resource adds, table by table, in terms of the document (property C01). *)
From Coq Require Import ZArith List Bool Lia.
Import ListNotations.
Require Import WnV.Base.Sx WnV.Gen.Schema WnV.Gen.Constants WnV.Model.Spec WnV.Model.Val.
Require Import WnV.Model.Rel WnV.Model.Add.
Require Import WnV.Proofs.AddProofs.
From Coq Require Import String.
Import ListNotations.
Local Open Scope Z_scope.
Local Open Scope string_scope.

(* ====================================================================== *)
(* Appending rows with generated rowids                                    *)
(* ====================================================================== *)
(* the rows  (n, vs1), (n+1, vs2), ... *)
Fixpoint number_from (n : Z) (vss : list (list cell)) : table :=
  match vss with
  | [] => []
  | vs :: r => (CInt n :: vs) :: number_from (n + 1) r
  end.
(* the rows that d' has in table t beyond those of d *)
Definition new_rows (t : string) (d d' : db) : table :=
  skipn (List.length (get_table d t)) (get_table d' t).
(* table t of d' = table t of d followed by the rows vss, numbered from the next rowid *)
Definition App (t : string) (d d' : db) (vss : list (list cell)) : Prop :=
  get_table d' t = (get_table d t ++ number_from (next_rowid (get_table d t)) vss)%list.
(* ... and no other table changes *)
Definition Ins (t : string) (d d' : db) (vss : list (list cell)) : Prop :=
  App t d d' vss /\ forall t', t' <> t -> get_table d' t' = get_table d t'.

Lemma App_new_rows : forall t d d' vss,
    App t d d' vss -> new_rows t d d' = number_from (next_rowid (get_table d t)) vss.
Proof.
  intros t d d' vss H. unfold new_rows. rewrite H. rewrite skipn_app, skipn_all, Nat.sub_diag. reflexivity.
Qed.

Lemma next_rowid_snoc : forall rows vs,
    next_rowid (rows ++ [CInt (next_rowid rows) :: vs])%list = next_rowid rows + 1.
Proof.
  intros rows vs. unfold next_rowid. rewrite fold_left_app. simpl. lia.
Qed.
Lemma number_from_app : forall a b n,
    number_from n (a ++ b)%list = (number_from n a ++ number_from (n + Z.of_nat (List.length a)) b)%list.
Proof.
  induction a as [|x a IH]; intros b n; simpl.
  - rewrite Z.add_0_r. reflexivity.
  - rewrite IH. do 3 f_equal. lia.
Qed.
Lemma next_rowid_number_from : forall a rows,
    next_rowid (rows ++ number_from (next_rowid rows) a)%list = next_rowid rows + Z.of_nat (List.length a).
Proof.
  induction a as [|x a IH]; intros rows.
  - simpl. rewrite app_nil_r. lia.
  - cbn [number_from].
    replace (rows ++ (CInt (next_rowid rows) :: x) :: number_from (next_rowid rows + 1) a)%list
      with ((rows ++ [CInt (next_rowid rows) :: x]) ++ number_from (next_rowid rows + 1) a)%list
      by (rewrite <- app_assoc; reflexivity).
    rewrite <- (next_rowid_snoc rows x). rewrite IH. rewrite next_rowid_snoc. cbn [List.length]. lia.
Qed.

Lemma App_nil : forall t d, App t d d [].
Proof. intros. unfold App. simpl. rewrite app_nil_r. reflexivity. Qed.
Lemma App_app : forall t d d1 d2 a b, App t d d1 a -> App t d1 d2 b -> App t d d2 (a ++ b)%list.
Proof.
  intros t d d1 d2 a b H1 H2. unfold App in *. rewrite H2, H1.
  rewrite next_rowid_number_from, number_from_app, app_assoc. reflexivity.
Qed.
Lemma App_same : forall t d d', get_table d' t = get_table d t -> App t d d' [].
Proof. intros t d d' H. unfold App. rewrite H. simpl. rewrite app_nil_r. reflexivity. Qed.
Lemma App_eq_l : forall t d0 d d' vss, get_table d0 t = get_table d t -> App t d d' vss -> App t d0 d' vss.
Proof. intros t d0 d d' vss H H1. unfold App in *. rewrite H. exact H1. Qed.
Lemma App_eq_r : forall t d d' d2 vss, get_table d2 t = get_table d' t -> App t d d' vss -> App t d d2 vss.
Proof. intros t d d' d2 vss H H1. unfold App in *. rewrite H. exact H1. Qed.

Lemma Ins_nil : forall t d, Ins t d d [].
Proof. intros. split; [apply App_nil|reflexivity]. Qed.
Lemma Ins_app : forall t d d1 d2 a b, Ins t d d1 a -> Ins t d1 d2 b -> Ins t d d2 (a ++ b)%list.
Proof.
  intros t d d1 d2 a b [A1 O1] [A2 O2]. split; [eapply App_app; eassumption|].
  intros t' Ht. rewrite O2, O1 by exact Ht. reflexivity.
Qed.
Lemma Ins_insert : forall d t vals d',
    insert d t vals = Ok d' -> Ins t d d' [coerce_all (data_columns t) vals].
Proof.
  intros d t vals d' H. apply insert_inv in H. subst d'. split.
  - unfold App. rewrite get_set_same. reflexivity.
  - intros t' Ht. apply get_set_other. congruence.
Qed.

(* a fold whose steps append rows to t (and change nothing else), the rows being computed
   from the element and from the other tables *)
Lemma foldM_Ins : forall {X} t (f : db -> X -> result db) (spec : db -> X -> list (list cell)),
    (forall d0 x d1, f d0 x = Ok d1 -> Ins t d0 d1 (spec d0 x)) ->
    (forall d0 d1 x, (forall t', t' <> t -> get_table d1 t' = get_table d0 t') -> spec d1 x = spec d0 x) ->
    forall xs d d', foldM f xs d = Ok d' -> Ins t d d' (flat_map (spec d) xs).
Proof.
  intros X t f spec Hstep Hinv xs. induction xs as [|x xs IH]; intros d d' H; simpl in H.
  - injection H as <-. apply Ins_nil.
  - apply bind_ok in H. destruct H as [d1 [H1 H2]]. simpl.
    pose proof (Hstep _ _ _ H1) as I1. eapply Ins_app; [exact I1|].
    rewrite (flat_map_ext (spec d) (spec d1)); [apply IH; exact H2|].
    intro a. symmetry. apply Hinv. apply I1.
Qed.
Lemma flat_map_single : forall {A B} (g : A -> B) l, flat_map (fun x => [g x]) l = map g l.
Proof. intros A B g l. induction l as [|a l IH]; simpl; [reflexivity|]. rewrite IH. reflexivity. Qed.

(* the value of a computed cell when the computation succeeds *)
Definition pcell (r : result cell) : cell := match r with Ok c => c | _ => CNull end.

(* ====================================================================== *)
(* Which tables each step may change                                       *)
(* ====================================================================== *)
Definition only_changes (ts : list string) (d d' : db) : Prop :=
  forall t, ~ In t ts -> get_table d' t = get_table d t.
Lemma oc_refl : forall ts d, only_changes ts d d.
Proof. intros ts d t _. reflexivity. Qed.
Lemma oc_trans : forall ts a b c, only_changes ts a b -> only_changes ts b c -> only_changes ts a c.
Proof. intros ts a b c H1 H2 t Ht. rewrite H2, H1 by exact Ht. reflexivity. Qed.
Lemma oc_set : forall ts d t rows, In t ts -> only_changes ts d (set_table d t rows).
Proof. intros ts d t rows Hin t' Ht'. apply get_set_other. intros ->. contradiction. Qed.
Lemma oc_insert : forall ts d t vals d', In t ts -> insert d t vals = Ok d' -> only_changes ts d d'.
Proof. intros ts d t vals d' Hin H. apply insert_inv in H. subst d'. apply oc_set. exact Hin. Qed.
Lemma oc_insert_rowid : forall ts d t vals d' rid,
    In t ts -> insert_rowid d t vals = Ok (d', rid) -> only_changes ts d d'.
Proof. intros ts d t vals d' rid Hin H. apply insert_rowid_inv in H. destruct H as [_ ->]. apply oc_set. exact Hin. Qed.
Lemma oc_ioi : forall ts d t vals, In t ts -> only_changes ts d (insert_or_ignore d t vals).
Proof.
  intros ts d t vals Hin. destruct (insert_or_ignore_inv d t vals) as [->| ->]; [apply oc_refl|apply oc_set; exact Hin].
Qed.
Lemma oc_update : forall ts d t p sets d', In t ts -> update d t p sets = Ok d' -> only_changes ts d d'.
Proof. intros ts d t p sets d' Hin H. apply update_inv in H. destruct H as [rows ->]. apply oc_set. exact Hin. Qed.

Ltac in_list := simpl; tauto.
Ltac oc_chain :=
  first [ apply oc_refl
        | eassumption
        | match goal with |- only_changes ?ts ?a (insert_or_ignore ?a _ _) => apply oc_ioi; in_list end
        | eapply oc_trans; [eassumption|oc_chain]
        | match goal with
          | |- only_changes ?ts ?a ?b =>
              match b with
              | context [insert_or_ignore a ?t ?v] =>
                  apply (oc_trans ts a (insert_or_ignore a t v)); [apply oc_ioi; in_list|oc_chain]
              end
          end ].
Ltac oc_fact :=
  match goal with
  | H : insert _ _ _ = Ok _ |- only_changes ?ts _ _ => apply (oc_insert ts) in H; [|in_list]
  | H : insert_rowid _ _ _ = Ok (_, _) |- only_changes ?ts _ _ => apply (oc_insert_rowid ts) in H; [|in_list]
  | H : update _ _ _ _ = Ok _ |- only_changes ?ts _ _ => apply (oc_update ts) in H; [|in_list]
  | H : @foldM _ db _ _ _ = Ok _ |- only_changes ?ts _ _ =>
      apply (foldM_rel _ (only_changes ts) (oc_refl ts) (oc_trans ts)) in H;
      [|clear; let s := fresh "s" in let x := fresh "x" in let s' := fresh "s'" in let Hs := fresh "Hs" in
               intros s x s' Hs; cbv beta in Hs; oc_all]
  end
with oc_all := repeat mstep; repeat oc_fact; oc_chain.

Lemma oc_update_lookup_tables : forall lexicon d d',
    _update_lookup_tables lexicon d = Ok d' -> only_changes ["relation_types"; "lexfiles"] d d'.
Proof. intros lexicon d d' H. unfold _update_lookup_tables in H. oc_all. Qed.
Lemma oc_insert_lexicon : forall lexicon d d' lexid extid,
    _insert_lexicon lexicon d = Ok (d', lexid, extid) ->
    only_changes ["lexicons"; "lexicon_dependencies"; "lexicon_extensions"] d d'.
Proof. intros lexicon d d' lexid extid H. unfold _insert_lexicon, insert_lexicon_link in H. oc_all. Qed.
Lemma oc_insert_synsets : forall synsets lexid d d',
    _insert_synsets synsets lexid d = Ok d' -> only_changes ["ilis"; "synsets"; "proposed_ilis"] d d'.
Proof. intros synsets lexid d d' H. unfold _insert_synsets in H. oc_all. Qed.
Lemma oc_insert_entries : forall entries lexid d d',
    _insert_entries entries lexid d = Ok d' -> only_changes ["entries"] d d'.
Proof. intros entries lexid d d' H. unfold _insert_entries in H. oc_all. Qed.
Lemma oc_insert_forms : forall nt entries lexid m d d',
    _insert_forms nt entries lexid m d = Ok d' -> only_changes ["forms"] d d'.
Proof. intros nt entries lexid m d d' H. unfold _insert_forms in H. oc_all. Qed.
Lemma oc_insert_pronunciations : forall entries lexid m d d',
    _insert_pronunciations entries lexid m d = Ok d' -> only_changes ["pronunciations"] d d'.
Proof. intros entries lexid m d d' H. unfold _insert_pronunciations, insert_pronunciation in H. oc_all. Qed.
Lemma oc_insert_tags : forall entries lexid m d d',
    _insert_tags entries lexid m d = Ok d' -> only_changes ["tags"] d d'.
Proof. intros entries lexid m d d' H. unfold _insert_tags, insert_tag in H. oc_all. Qed.
Lemma oc_insert_senses : forall entries synsets lexid m d d',
    _insert_senses entries synsets lexid m d = Ok d' -> only_changes ["senses"] d d'.
Proof. intros entries synsets lexid m d d' H. unfold _insert_senses in H. cbv zeta in H. oc_all. Qed.
Lemma oc_insert_adjpositions : forall entries lexid m d d',
    _insert_adjpositions entries lexid m d = Ok d' -> only_changes ["adjpositions"] d d'.
Proof. intros entries lexid m d d' H. unfold _insert_adjpositions in H. oc_all. Qed.
Lemma oc_insert_counts : forall entries lexid m d d',
    _insert_counts entries lexid m d = Ok d' -> only_changes ["counts"] d d'.
Proof. intros entries lexid m d d' H. unfold _insert_counts in H. oc_all. Qed.
Lemma oc_insert_syntactic_behaviours : forall sbs lexid m d d',
    _insert_syntactic_behaviours sbs lexid m d = Ok d' ->
    only_changes ["syntactic_behaviours"; "syntactic_behaviour_senses"] d d'.
Proof. intros sbs lexid m d d' H. unfold _insert_syntactic_behaviours in H. cbv zeta in H. oc_all. Qed.
Lemma oc_insert_synset_relations : forall synsets lexid m d d',
    _insert_synset_relations synsets lexid m d = Ok d' -> only_changes ["synset_relations"] d d'.
Proof. intros synsets lexid m d d' H. unfold _insert_synset_relations in H. oc_all. Qed.
Lemma oc_insert_sense_relations : forall lexicon lexid m d d',
    _insert_sense_relations lexicon lexid m d = Ok d' ->
    only_changes ["sense_relations"; "sense_synset_relations"] d d'.
Proof. intros lexicon lexid m d d' H. unfold _insert_sense_relations in H. cbv zeta in H. oc_all. Qed.
Lemma oc_insert_synset_definitions : forall synsets lexid m d d',
    _insert_synset_definitions synsets lexid m d = Ok d' -> only_changes ["definitions"] d d'.
Proof. intros synsets lexid m d d' H. unfold _insert_synset_definitions in H. oc_all. Qed.
Lemma oc_insert_examples : forall objs lexid m table d d',
    _insert_examples objs lexid m table d = Ok d' -> only_changes [table] d d'.
Proof. intros objs lexid m table d d' H. unfold _insert_examples in H. cbv zeta in H. oc_all. Qed.

(* ====================================================================== *)
(* Queries depend on their table only                                      *)
(* ====================================================================== *)
Lemma select_rowid_ext : forall d d' t p,
    get_table d' t = get_table d t -> select_rowid d' t p = select_rowid d t p.
Proof. intros d d' t p H. unfold select_rowid. rewrite H. reflexivity. Qed.
Lemma ENTRY_QUERY_ext : forall d d' a b,
    get_table d' "entries" = get_table d "entries" -> ENTRY_QUERY d' a b = ENTRY_QUERY d a b.
Proof. intros. unfold ENTRY_QUERY. apply select_rowid_ext. assumption. Qed.
Lemma SENSE_QUERY_ext : forall d d' a b,
    get_table d' "senses" = get_table d "senses" -> SENSE_QUERY d' a b = SENSE_QUERY d a b.
Proof. intros. unfold SENSE_QUERY. apply select_rowid_ext. assumption. Qed.
Lemma SYNSET_QUERY_ext : forall d d' a b,
    get_table d' "synsets" = get_table d "synsets" -> SYNSET_QUERY d' a b = SYNSET_QUERY d a b.
Proof. intros. unfold SYNSET_QUERY. apply select_rowid_ext. assumption. Qed.
Lemma LEXFILE_QUERY_ext : forall d d' a,
    get_table d' "lexfiles" = get_table d "lexfiles" -> LEXFILE_QUERY d' a = LEXFILE_QUERY d a.
Proof. intros. unfold LEXFILE_QUERY. apply select_rowid_ext. assumption. Qed.
Lemma ILISTAT_QUERY_ext : forall d d' a,
    get_table d' "ili_statuses" = get_table d "ili_statuses" -> ILISTAT_QUERY d' a = ILISTAT_QUERY d a.
Proof. intros. unfold ILISTAT_QUERY. apply select_rowid_ext. assumption. Qed.
Lemma RELTYPE_QUERY_ext : forall d d' a,
    get_table d' "relation_types" = get_table d "relation_types" -> RELTYPE_QUERY d' a = RELTYPE_QUERY d a.
Proof. intros. unfold RELTYPE_QUERY. apply select_rowid_ext. assumption. Qed.

(* from only_changes to the equality of one table *)
Lemma oc_get : forall ts d d' t, only_changes ts d d' -> ~ In t ts -> get_table d' t = get_table d t.
Proof. intros ts d d' t H Ht. apply H. exact Ht. Qed.
Ltac not_in := simpl; intuition discriminate.

(* ====================================================================== *)
(* (D1) lexicons                                                           *)
(* ====================================================================== *)
(* the VALUES of the lexicons row of a lexicon of the document *)
Definition lexicon_cells (L : val) : list cell :=
  [pcell (preq L "id"); pcell (preq L "label"); pcell (preq L "language"); pcell (preq L "email");
   pcell (preq L "license"); pcell (preq L "version"); pcell (param (vgetk L "url"));
   pcell (param (vgetk L "citation")); pcell (param (vgetk L "logo")); pcell (param (vgetk L "meta"));
   CInt 0].
Definition lexicon_row (L : val) : list cell := coerce_all (data_columns "lexicons") (lexicon_cells L).

Ltac use_oks :=
  repeat match goal with
         | H : ?e = Ok _ |- context [?e] => rewrite H
         end.

Lemma app_insert_lexicon : forall L d d' lexid extid,
    _insert_lexicon L d = Ok (d', lexid, extid) ->
    App "lexicons" d d' [lexicon_row L] /\ lexid = next_rowid (get_table d "lexicons").
Proof.
  intros L d d' lexid extid H.
  assert (exists d1, insert_rowid d "lexicons" (lexicon_cells L) = Ok (d1, lexid)
                     /\ only_changes ["lexicon_dependencies"; "lexicon_extensions"] d1 d') as (d1 & Hins & Hoc).
  { unfold _insert_lexicon, insert_lexicon_link in H. repeat mstep;
      (eexists; split; [unfold lexicon_cells; use_oks; simpl pcell; eassumption|]);
      repeat oc_fact; oc_chain. }
  apply insert_rowid_inv in Hins. destruct Hins as [-> ->]. split; [|reflexivity].
  unfold App. rewrite (oc_get _ _ _ "lexicons" Hoc) by not_in. rewrite get_set_same. reflexivity.
Qed.

(* ---------- the steps of add_one_lexicon ---------- *)
Lemma add_one_lexicon_inv : forall nt L d d',
    add_one_lexicon nt L d = Ok d' ->
    exists d1 synbhrs d2 lexid extid lexidmap d3 d4 d5 d6 d7 d8 d9 d10 d11 d12 d13 d14 d15,
      _update_lookup_tables L d = Ok d1
      /\ _collect_frames L = Ok synbhrs
      /\ _insert_lexicon L d1 = Ok (d2, lexid, extid)
      /\ _build_lexid_map L lexid extid = Ok lexidmap
      /\ _insert_synsets (_synsets L) lexid d2 = Ok d3
      /\ _insert_entries (_entries L) lexid d3 = Ok d4
      /\ _insert_forms nt (_entries L) lexid lexidmap d4 = Ok d5
      /\ _insert_pronunciations (_entries L) lexid lexidmap d5 = Ok d6
      /\ _insert_tags (_entries L) lexid lexidmap d6 = Ok d7
      /\ _insert_senses (_entries L) (_synsets L) lexid lexidmap d7 = Ok d8
      /\ _insert_adjpositions (_entries L) lexid lexidmap d8 = Ok d9
      /\ _insert_counts (_entries L) lexid lexidmap d9 = Ok d10
      /\ _insert_syntactic_behaviours synbhrs lexid lexidmap d10 = Ok d11
      /\ _insert_synset_relations (_synsets L) lexid lexidmap d11 = Ok d12
      /\ _insert_sense_relations L lexid lexidmap d12 = Ok d13
      /\ _insert_synset_definitions (_synsets L) lexid lexidmap d13 = Ok d14
      /\ _insert_examples (flat_map _senses (_entries L)) lexid lexidmap "sense_examples" d14 = Ok d15
      /\ _insert_examples (_synsets L) lexid lexidmap "synset_examples" d15 = Ok d'.
Proof.
  intros nt L d d' H. unfold add_one_lexicon in H. cbv zeta in H. repeat mstep.
  repeat eexists; eassumption.
Qed.

(* turn every step in the context into the list of tables it may change *)
Ltac oc_facts :=
  repeat match goal with
         | H : _update_lookup_tables _ _ = Ok _ |- _ => apply oc_update_lookup_tables in H
         | H : _insert_lexicon _ _ = Ok _ |- _ => apply oc_insert_lexicon in H
         | H : _insert_synsets _ _ _ = Ok _ |- _ => apply oc_insert_synsets in H
         | H : _insert_entries _ _ _ = Ok _ |- _ => apply oc_insert_entries in H
         | H : _insert_forms _ _ _ _ _ = Ok _ |- _ => apply oc_insert_forms in H
         | H : _insert_pronunciations _ _ _ _ = Ok _ |- _ => apply oc_insert_pronunciations in H
         | H : _insert_tags _ _ _ _ = Ok _ |- _ => apply oc_insert_tags in H
         | H : _insert_senses _ _ _ _ _ = Ok _ |- _ => apply oc_insert_senses in H
         | H : _insert_adjpositions _ _ _ _ = Ok _ |- _ => apply oc_insert_adjpositions in H
         | H : _insert_counts _ _ _ _ = Ok _ |- _ => apply oc_insert_counts in H
         | H : _insert_syntactic_behaviours _ _ _ _ = Ok _ |- _ => apply oc_insert_syntactic_behaviours in H
         | H : _insert_synset_relations _ _ _ _ = Ok _ |- _ => apply oc_insert_synset_relations in H
         | H : _insert_sense_relations _ _ _ _ = Ok _ |- _ => apply oc_insert_sense_relations in H
         | H : _insert_synset_definitions _ _ _ _ = Ok _ |- _ => apply oc_insert_synset_definitions in H
         | H : _insert_examples _ _ _ _ _ = Ok _ |- _ => apply oc_insert_examples in H
         end.
(* table t is the same in all the databases linked by steps that do not change it *)
Ltac tbl_eq t :=
  repeat match goal with
         | Hoc : only_changes ?ts ?a ?b |- context [get_table ?b t] =>
             rewrite (oc_get ts a b t Hoc) by not_in
         end.

Theorem one_lexicon_lexicons : forall nt L d d',
    add_one_lexicon nt L d = Ok d' -> App "lexicons" d d' [lexicon_row L].
Proof.
  intros nt L d d' H.
  destruct (add_one_lexicon_inv _ _ _ _ H)
    as (d1 & sb & d2 & lexid & extid & m & d3 & d4 & d5 & d6 & d7 & d8 & d9 & d10 & d11 & d12 & d13
        & d14 & d15 & H1 & _ & H2 & _ & H3 & H4 & H5 & H6 & H7 & H8 & H9 & H10 & H11 & H12 & H13
        & H14 & H15 & H16).
  destruct (app_insert_lexicon _ _ _ _ _ H2) as [HA _]. oc_facts.
  unfold App in *. tbl_eq "lexicons". rewrite HA. tbl_eq "lexicons". reflexivity.
Qed.

(* ---------- the lexicons of a resource that are not skipped ---------- *)
Definition pv (r : result val) : val := match r with Ok v => v | _ => VNone end.
Definition lexicon_spec (L : val) : val :=
  VStr (format_lexicon_specifier (pv (vreq L "id")) (pv (vreq L "version"))).
Definition not_skipped (skipmap : skipmap_t) (L : val) : bool :=
  match dict_get skipmap (lexicon_spec L) with Some false => true | _ => false end.

Definition lex_step (nt : normtable) (skipmap : skipmap_t) (d : db) (lexicon : val) : result db :=
  id <- vreq lexicon "id" ;;
  version <- vreq lexicon "version" ;;
  let spec := VStr (format_lexicon_specifier id version) in
  match dict_get skipmap spec with
  | None => OtherError
  | Some true => Ok d
  | Some false => add_one_lexicon nt lexicon d
  end.
Lemma add_lexical_resource_unfold : forall nt r skipmap d,
    _add_lexical_resource nt r skipmap d
    = (lexicons <- vreq r "lexicons" ;;
       foldM (lex_step nt skipmap) (match lexicons with VList l => l | _ => [] end) d).
Proof. reflexivity. Qed.

(* one step: skipped (nothing changes) or added *)
Lemma lex_step_cases : forall nt skipmap d L d',
    lex_step nt skipmap d L = Ok d' ->
    (not_skipped skipmap L = false /\ d' = d)
    \/ (not_skipped skipmap L = true /\ add_one_lexicon nt L d = Ok d').
Proof.
  intros nt skipmap d L d' H. unfold lex_step in H.
  apply bind_ok in H. destruct H as [id [Hid H]]. apply bind_ok in H. destruct H as [ver [Hver H]].
  cbv zeta in H. unfold not_skipped, lexicon_spec. rewrite Hid, Hver. simpl pv.
  destruct (dict_get skipmap (VStr (format_lexicon_specifier id ver))) as [[|]|]; try discriminate.
  - left. injection H as <-. split; reflexivity.
  - right. split; [reflexivity|exact H].
Qed.

Lemma fold_lexicons_lexicons : forall nt skipmap lexs d d',
    foldM (lex_step nt skipmap) lexs d = Ok d' ->
    App "lexicons" d d' (map lexicon_row (filter (not_skipped skipmap) lexs)).
Proof.
  intros nt skipmap lexs. induction lexs as [|L lexs IH]; intros d d' H; simpl in H.
  - injection H as <-. apply App_nil.
  - apply bind_ok in H. destruct H as [d1 [H1 H2]]. simpl.
    destruct (lex_step_cases _ _ _ _ _ H1) as [[E ->]|[E Hadd]]; rewrite E.
    + apply IH. exact H2.
    + simpl. apply (App_app _ _ d1 _ [lexicon_row L]); [|apply IH; exact H2].
      eapply one_lexicon_lexicons. exact Hadd.
Qed.

Lemma all_skipped_filter : forall (skipmap : skipmap_t) lexs,
    forallb (fun kv : val * bool => snd kv) skipmap = true -> filter (not_skipped skipmap) lexs = [].
Proof.
  intros skipmap lexs H. induction lexs as [|L lexs IH]; simpl; [reflexivity|].
  unfold not_skipped at 1. unfold dict_get.
  destruct (find (fun kv => val_eqb (fst kv) (lexicon_spec L)) skipmap) as [[k0 b]|] eqn:E; [|exact IH].
  apply find_some in E. destruct E as [Hin _]. rewrite forallb_forall in H. specialize (H _ Hin).
  simpl in H. subst b. simpl. exact IH.
Qed.

(* (D1) one new lexicons row per lexicon of the resource that is not skipped, in document order *)
Theorem add_lexicons_rows : forall d r nt d' lexs,
    add_lexical_resource d r nt = Ok d' -> vreq r "lexicons" = Ok (VList lexs) ->
    exists skipmap,
      (lexs = [] \/ _precheck lexs d = Ok skipmap)
      /\ App "lexicons" d d' (map lexicon_row (filter (not_skipped skipmap) lexs)).
Proof.
  intros d r nt d' lexs H Hr. unfold add_lexical_resource in H. rewrite Hr in H.
  unfold bind at 1 in H. cbv beta iota in H.
  destruct lexs as [|L0 lexs0].
  { simpl in H. injection H as <-. exists []. split; [left; reflexivity|apply App_nil]. }
  set (lexs := L0 :: lexs0) in *. change (negb (vtruthy (VList lexs))) with false in H. cbv iota in H.
  apply bind_ok in H. destruct H as [skipmap [Hpre H]]. exists skipmap. split; [right; exact Hpre|].
  destruct (forallb (fun kv : val * bool => snd kv) skipmap) eqn:Eall.
  - injection H as <-. rewrite all_skipped_filter by exact Eall. apply App_nil.
  - rewrite add_lexical_resource_unfold, Hr in H. unfold bind at 1 in H. cbv beta iota in H.
    eapply fold_lexicons_lexicons. exact H.
Qed.

(* where a non-skipped lexicon of the resource is added: after the lexicons before it *)
Lemma fold_lexicons_ext : forall nt skipmap lexs d d',
    foldM (lex_step nt skipmap) lexs d = Ok d' -> db_ext d d'.
Proof.
  intros nt skipmap lexs d d' H. revert H. apply foldM_rel; [apply db_ext_refl|apply db_ext_trans|].
  intros s x s' Hs. destruct (lex_step_cases _ _ _ _ _ Hs) as [[_ ->]|[_ Hadd]];
    [apply db_ext_refl|eapply ext_add_one_lexicon; exact Hadd].
Qed.
Theorem add_resource_lexicon : forall d r nt d' pre L post,
    add_lexical_resource d r nt = Ok d' -> vreq r "lexicons" = Ok (VList (pre ++ L :: post)%list) ->
    exists skipmap,
      _precheck (pre ++ L :: post)%list d = Ok skipmap
      /\ (not_skipped skipmap L = true ->
          exists d1 d2, db_ext d d1 /\ add_one_lexicon nt L d1 = Ok d2 /\ db_ext d2 d'
                        /\ foldM (lex_step nt skipmap) pre d = Ok d1
                        /\ foldM (lex_step nt skipmap) post d2 = Ok d').
Proof.
  intros d r nt d' pre L post H Hr. unfold add_lexical_resource in H. rewrite Hr in H.
  unfold bind at 1 in H. cbv beta iota in H.
  assert (negb (vtruthy (VList (pre ++ L :: post)%list)) = false) as E by (destruct pre; reflexivity).
  rewrite E in H. apply bind_ok in H. destruct H as [skipmap [Hpre H]]. exists skipmap.
  split; [exact Hpre|]. intro Hns.
  destruct (forallb (fun kv : val * bool => snd kv) skipmap) eqn:Eall.
  - exfalso. pose proof (all_skipped_filter skipmap [L] Eall) as Hf. simpl in Hf. rewrite Hns in Hf. discriminate.
  - rewrite add_lexical_resource_unfold, Hr in H. unfold bind at 1 in H. cbv beta iota in H.
    rewrite foldM_app in H. apply bind_ok in H. destruct H as [d1 [H1 H2]].
    simpl in H2. apply bind_ok in H2. destruct H2 as [d2 [H2 H3]].
    destruct (lex_step_cases _ _ _ _ _ H2) as [[E' _]|[_ Hadd]]; [congruence|].
    exists d1, d2. split; [eapply fold_lexicons_ext; exact H1|]. split; [exact Hadd|].
    split; [eapply fold_lexicons_ext; exact H3|]. split; assumption.
Qed.
(* the usual case: a resource with one lexicon *)
Corollary add_single_lexicon : forall d r nt d' L,
    add_lexical_resource d r nt = Ok d' -> vreq r "lexicons" = Ok (VList [L]) ->
    exists skipmap, _precheck [L] d = Ok skipmap
                    /\ (not_skipped skipmap L = true -> add_one_lexicon nt L d = Ok d').
Proof.
  intros d r nt d' L H Hr. destruct (add_resource_lexicon d r nt d' [] L [] H Hr) as [skipmap [Hp Hs]].
  exists skipmap. split; [exact Hp|]. intro Hns. destruct (Hs Hns) as (d1 & d2 & _ & Hadd & _ & H1 & H2).
  simpl in H1, H2. injection H1 as <-. injection H2 as <-. exact Hadd.
Qed.

(* ====================================================================== *)
(* (D2) entries                                                            *)
(* ====================================================================== *)
Definition entry_cells (lexid : Z) (entry : val) : list cell :=
  [pcell (preq entry "id"); CInt lexid;
   pcell (lemma <- vreq entry "lemma" ;; preq lemma "partOfSpeech");
   pcell (preq entry "meta")].
Definition entry_row (lexid : Z) (entry : val) : list cell :=
  coerce_all (data_columns "entries") (entry_cells lexid entry).

Lemma ins_insert_entries : forall entries lexid d d',
    _insert_entries entries lexid d = Ok d' ->
    Ins "entries" d d' (map (entry_row lexid) (_local_entries entries)).
Proof.
  intros entries lexid d d' H. unfold _insert_entries in H. rewrite foldM_concat, batch_concat in H.
  rewrite <- flat_map_single.
  apply (foldM_Ins "entries" _ (fun _ e => [entry_row lexid e])) in H; [exact H| |reflexivity].
  clear. intros d0 e d1 Hs. repeat mstep. apply Ins_insert in Hs.
  unfold entry_row, entry_cells. use_oks. simpl pcell. simpl bind. use_oks. exact Hs.
Qed.

Theorem one_lexicon_entries : forall nt L d d',
    add_one_lexicon nt L d = Ok d' ->
    App "entries" d d' (map (entry_row (next_rowid (get_table d "lexicons"))) (_local_entries (_entries L))).
Proof.
  intros nt L d d' H.
  destruct (add_one_lexicon_inv _ _ _ _ H)
    as (d1 & sb & d2 & lexid & extid & m & d3 & d4 & d5 & d6 & d7 & d8 & d9 & d10 & d11 & d12 & d13
        & d14 & d15 & H1 & _ & H2 & _ & H3 & H4 & H5 & H6 & H7 & H8 & H9 & H10 & H11 & H12 & H13
        & H14 & H15 & H16).
  destruct (app_insert_lexicon _ _ _ _ _ H2) as [_ Hlex].
  destruct (ins_insert_entries _ _ _ _ H4) as [HA _]. oc_facts.
  assert (lexid = next_rowid (get_table d "lexicons")) as <-.
  { rewrite Hlex. tbl_eq "lexicons". reflexivity. }
  unfold App in *. tbl_eq "entries". rewrite HA. tbl_eq "entries". reflexivity.
Qed.

(* ====================================================================== *)
(* (D5) senses                                                             *)
(* ====================================================================== *)
(* ssrank = {s: i for ss in _local_synsets(synsets) for i, s in enumerate(ss.get('members', []))} *)
Definition ssrank_of (synsets : list val) : list (val * Z) :=
  fold_left (fun m ss =>
               fold_left (fun m (is : Z * val) => dict_set m (snd is) (fst is))
                         (enumerate_from 0 (vlistk ss "members")) m)
            (_local_synsets synsets) [].
Definition sense_cells (d : db) (lexid : Z) (lexidmap : lexidmap_t) (ssrank : list (val * Z))
           (entry : val) (isense : Z * val) : list cell :=
  let '(i, sense) := isense in
  [pcell (preq sense "id"); CInt lexid;
   ENTRY_QUERY d (pcell (preq entry "id")) (lexidmap_get lexidmap (pv (vreq entry "id")) lexid);
   CInt i;
   SYNSET_QUERY d (pcell (preq sense "synset")) (lexidmap_get lexidmap (pv (vreq sense "synset")) lexid);
   CInt (match dict_get ssrank (pv (vreq sense "id")) with Some r => r | None => DEFAULT_MEMBER_RANK end);
   pcell (param (vget_def sense "lexicalized" (VBool true)));
   pcell (preq sense "meta")].
Definition sense_row (d : db) (lexid : Z) (lexidmap : lexidmap_t) (ssrank : list (val * Z))
           (entry : val) (isense : Z * val) : list cell :=
  coerce_all (data_columns "senses") (sense_cells d lexid lexidmap ssrank entry isense).
(* the rows of the local senses of an entry, in document order, entry_rank = position *)
Definition entry_sense_rows (d : db) (lexid : Z) (lexidmap : lexidmap_t) (ssrank : list (val * Z))
           (entry : val) : list (list cell) :=
  map (sense_row d lexid lexidmap ssrank entry) (enumerate_from 0 (_local_senses (_senses entry))).

Lemma sense_row_ext : forall d d' lexid m sr e is,
    get_table d' "entries" = get_table d "entries" -> get_table d' "synsets" = get_table d "synsets" ->
    sense_row d' lexid m sr e is = sense_row d lexid m sr e is.
Proof.
  intros d d' lexid m sr e [i s] He Hs. unfold sense_row, sense_cells.
  rewrite (ENTRY_QUERY_ext d d') by exact He. rewrite (SYNSET_QUERY_ext d d') by exact Hs. reflexivity.
Qed.
Lemma entry_sense_rows_ext : forall d d' lexid m sr e,
    get_table d' "entries" = get_table d "entries" -> get_table d' "synsets" = get_table d "synsets" ->
    entry_sense_rows d' lexid m sr e = entry_sense_rows d lexid m sr e.
Proof.
  intros. unfold entry_sense_rows. apply map_ext. intro is. apply sense_row_ext; assumption.
Qed.

Ltac eval_oks := repeat (use_oks; cbn [bind pcell pv]).

Lemma ins_insert_senses : forall entries synsets lexid m d d',
    _insert_senses entries synsets lexid m d = Ok d' ->
    Ins "senses" d d' (flat_map (entry_sense_rows d lexid m (ssrank_of synsets)) entries).
Proof.
  intros entries synsets lexid m d d' H. unfold _insert_senses in H. cbv zeta in H.
  fold (ssrank_of synsets) in H. rewrite foldM_concat, batch_concat in H.
  apply (foldM_Ins "senses" _ (fun d0 e => entry_sense_rows d0 lexid m (ssrank_of synsets) e)) in H;
    [exact H| |].
  - clear. intros d0 e d1 Hs. unfold entry_sense_rows. rewrite <- flat_map_single.
    apply (foldM_Ins "senses" _ (fun d2 is => [sense_row d2 lexid m (ssrank_of synsets) e is])) in Hs;
      [exact Hs| |].
    + clear. intros d2 [i s] d3 Hs. repeat mstep. apply Ins_insert in Hs.
      unfold sense_row, sense_cells. eval_oks. unfold preq. eval_oks. exact Hs.
    + intros d2 d3 is Ho. f_equal. apply sense_row_ext; apply Ho; discriminate.
  - intros d0 d1 e Ho. apply entry_sense_rows_ext; apply Ho; discriminate.
Qed.

Theorem one_lexicon_senses : forall nt L d d',
    add_one_lexicon nt L d = Ok d' ->
    exists lexid extid lexidmap,
      lexid = next_rowid (get_table d "lexicons")
      /\ _build_lexid_map L lexid extid = Ok lexidmap
      /\ App "senses" d d'
             (flat_map (entry_sense_rows d' lexid lexidmap (ssrank_of (_synsets L))) (_entries L)).
Proof.
  intros nt L d d' H.
  destruct (add_one_lexicon_inv _ _ _ _ H)
    as (d1 & sb & d2 & lexid & extid & m & d3 & d4 & d5 & d6 & d7 & d8 & d9 & d10 & d11 & d12 & d13
        & d14 & d15 & H1 & _ & H2 & Hm & H3 & H4 & H5 & H6 & H7 & H8 & H9 & H10 & H11 & H12 & H13
        & H14 & H15 & H16).
  destruct (app_insert_lexicon _ _ _ _ _ H2) as [_ Hlex].
  destruct (ins_insert_senses _ _ _ _ _ _ H8) as [HA _]. oc_facts.
  exists lexid, extid, m. split; [rewrite Hlex; tbl_eq "lexicons"; reflexivity|]. split; [exact Hm|].
  rewrite (flat_map_ext _ (entry_sense_rows d7 lexid m (ssrank_of (_synsets L)))).
  - unfold App in *. tbl_eq "senses". rewrite HA. tbl_eq "senses". reflexivity.
  - intro e. apply entry_sense_rows_ext; [tbl_eq "entries"|tbl_eq "synsets"]; reflexivity.
Qed.

(* ====================================================================== *)
(* (D4) synsets and proposed_ilis                                          *)
(* ====================================================================== *)
(* ---------- a scalar sub-select whose answer later rows cannot change ---------- *)
Definition stable (p : row -> bool) (T : table) : Prop := forall Y, find p (T ++ Y)%list = find p T.
Lemma find_app_some : forall {X} (p : X -> bool) a b x, find p a = Some x -> find p (a ++ b)%list = Some x.
Proof.
  intros X p a b x. induction a as [|y a IH]; intro H; simpl in *; [discriminate|].
  destruct (p y); [exact H|apply IH; exact H].
Qed.
Lemma find_app_none : forall {X} (p : X -> bool) a b, find p a = None -> find p (a ++ b)%list = find p b.
Proof.
  intros X p a b. induction a as [|y a IH]; intro H; simpl in *; [reflexivity|].
  destruct (p y); [discriminate|apply IH; exact H].
Qed.
Lemma stable_found : forall p T, find p T <> None -> stable p T.
Proof.
  intros p T H Y. destruct (find p T) as [x|] eqn:E; [|contradiction]. apply find_app_some. exact E.
Qed.
Lemma stable_never : forall p T, (forall r, p r = false) -> stable p T.
Proof.
  intros p T H Y.
  assert (forall l, find p l = None) as Hn by (induction l as [|a l IH]; simpl; [reflexivity|rewrite H; exact IH]).
  rewrite !Hn. reflexivity.
Qed.
Lemma stable_app : forall p T X, stable p T -> stable p (T ++ X)%list.
Proof. intros p T X H Y. rewrite <- app_assoc. rewrite H, (H X). reflexivity. Qed.
Lemma find_exists : forall {X} (p : X -> bool) l x, In x l -> p x = true -> find p l <> None.
Proof.
  intros X p l x Hin Hp E. pose proof (find_none _ _ E x Hin) as Hf. congruence.
Qed.

(* ---------- the ILI of a synset ---------- *)
(* ili and ili != 'in' *)
Definition presupposed (ss : val) : bool :=
  vtruthy (pv (vreq ss "ili")) && negb (is_in (pv (vreq ss "ili"))).
(* the value bound to (SELECT rowid FROM ilis WHERE id=?) *)
Definition ilic_of (ss : val) : cell :=
  if presupposed ss then pcell (param (pv (vreq ss "ili"))) else CNull.
Definition ili_pred (c : cell) (r : row) : bool := sql_eq (cell_at 1 r) (as_text c).
(* SELECT rowid FROM ilis WHERE id = c *)
Definition ili_lookup (d : db) (c : cell) : cell := select_rowid d "ilis" (ili_pred c).

(* INSERT OR IGNORE INTO ilis VALUES (null, c, S, tx, m) with S from ILISTAT_QUERY *)
Lemma ioi_ilis : forall d c S tx m,
    st_cell_ok S ->
    let d1 := insert_or_ignore d "ilis" [c; S; tx; m] in
    (exists X, get_table d1 "ilis" = (get_table d "ilis" ++ X)%list /\ (is_null S = true -> X = []))
    /\ (is_null S = true \/ c = CNull \/ stable (ili_pred c) (get_table d1 "ilis")).
Proof.
  intros d c S tx m HS d1. subst d1. unfold insert_or_ignore.
  destruct HS as [->|[s ->]].
  - (* no status: NOT NULL violation, the row is ignored *)
    assert (try_insert d "ilis" [c; CNull; tx; m] = Violation) as ->.
    { unfold try_insert. cbv zeta.
      assert (row_checks_ok "ilis" (data_columns "ilis")
                            (coerce_all (data_columns "ilis") [c; CNull; tx; m]) = false) as ->
          by (destruct c; reflexivity).
      reflexivity. }
    split; [exists []; rewrite app_nil_r; split; reflexivity|left; reflexivity].
  - destruct (try_insert d "ilis" [c; CInt s; tx; m]) as [d' rid|] eqn:E.
    + destruct (try_insert_inv _ _ _ _ _ E) as [-> ->]. rewrite get_set_same.
      split; [eexists; split; [reflexivity|discriminate]|].
      right. destruct c as [|n|y|v].
      * left. reflexivity.
      * right. apply stable_found. eapply find_exists; [apply in_or_app; right; left; reflexivity|].
        unfold ili_pred. rewrite dc_ilis. simpl. apply str_eqb_refl.
      * right. apply stable_found. eapply find_exists; [apply in_or_app; right; left; reflexivity|].
        unfold ili_pred. rewrite dc_ilis. simpl. apply str_eqb_refl.
      * right. apply stable_never. intro r. unfold ili_pred. simpl. destruct (cell_at 1 r); reflexivity.
    + split; [exists []; rewrite app_nil_r; split; reflexivity|]. right.
      destruct c as [|n|y|v].
      * left. reflexivity.
      * (* conflict on the id: it is there *)
        right. apply stable_found. unfold try_insert in E. cbv zeta in E.
        assert (row_checks_ok "ilis" (data_columns "ilis")
                              (coerce_all (data_columns "ilis") [CInt n; CInt s; tx; m]) = true) as Hc
            by reflexivity.
        rewrite Hc in E. simpl negb in E. cbv iota in E.
        assert (coerce_all (data_columns "ilis") [CInt n; CInt s; tx; m]
                = [CText (dec_of_Z n); CInt s; coerce "TEXT" tx; coerce "META" m]) as Hco by reflexivity.
        rewrite Hco in E.
        rewrite unique_conflict_ilis in E.
        destruct (existsb (has_id (dec_of_Z n)) (get_table d "ilis")) eqn:Ex; [|discriminate].
        apply existsb_exists in Ex. destruct Ex as [r [Hr Hh]].
        eapply find_exists; [exact Hr|]. unfold ili_pred. simpl as_text. unfold has_id in Hh.
        rewrite sql_eq_sym. exact Hh.
      * right. apply stable_found. unfold try_insert in E. cbv zeta in E.
        assert (row_checks_ok "ilis" (data_columns "ilis")
                              (coerce_all (data_columns "ilis") [CText y; CInt s; tx; m]) = true) as Hc
            by reflexivity.
        rewrite Hc in E. simpl negb in E. cbv iota in E.
        assert (coerce_all (data_columns "ilis") [CText y; CInt s; tx; m]
                = [CText y; CInt s; coerce "TEXT" tx; coerce "META" m]) as Hco by reflexivity.
        rewrite Hco in E.
        rewrite unique_conflict_ilis in E.
        destruct (existsb (has_id y) (get_table d "ilis")) eqn:Ex; [|discriminate].
        apply existsb_exists in Ex. destruct Ex as [r [Hr Hh]].
        eapply find_exists; [exact Hr|]. unfold ili_pred. simpl as_text. unfold has_id in Hh.
        rewrite sql_eq_sym. exact Hh.
      * right. apply stable_never. intro r. unfold ili_pred. simpl. destruct (cell_at 1 r); reflexivity.
Qed.

(* ---------- the three phases of a batch of _insert_synsets ---------- *)
Definition Sd (d : db) : cell := ILISTAT_QUERY d (CText (k "presupposed")).
Definition ph1 (d : db) (ss : val) : result db :=
  ili <- vreq ss "ili" ;;
  if vtruthy ili && negb (is_in ili) then
    '(text, meta) <- ili_definition_cells ss ;;
    ilic <- param ili ;;
    Ok (insert_or_ignore d "ilis" [ilic; ILISTAT_QUERY d (CText (k "presupposed")); text; meta])
  else Ok d.
Definition ph2 (lexid : Z) (d : db) (ss : val) : result db :=
  id <- preq ss "id" ;;
  ili <- vreq ss "ili" ;;
  ilic <- (if vtruthy ili && negb (is_in ili) then param ili else Ok CNull) ;;
  pos <- preq ss "partOfSpeech" ;;
  lexicalized <- param (vget_def ss "lexicalized" (VBool true)) ;;
  lexfile <- param (vgetk ss "lexfile") ;;
  meta <- preq ss "meta" ;;
  insert d "synsets"
         [id; CInt lexid;
          select_rowid d "ilis" (fun r => sql_eq (cell_at (col_index "ilis" "id") r) (as_text ilic));
          pos; lexicalized; LEXFILE_QUERY d lexfile; meta].
Definition ph3 (lexid : Z) (d : db) (ss : val) : result db :=
  ili <- vreq ss "ili" ;;
  if is_in ili then
    '(text, meta) <- ili_definition_cells ss ;;
    id <- preq ss "id" ;;
    insert d "proposed_ilis" [SYNSET_QUERY d id (CInt lexid); text; meta]
  else Ok d.
Definition batch_step (lexid : Z) (d : db) (b : list val) : result db :=
  d <- foldM ph1 b d ;; d <- foldM (ph2 lexid) b d ;; foldM (ph3 lexid) b d.
Lemma insert_synsets_unfold : forall synsets lexid d,
    _insert_synsets synsets lexid d = foldM (batch_step lexid) (_batch (_local_synsets synsets)) d.
Proof. reflexivity. Qed.

Definition ili_def_text (ss : val) : cell :=
  match ili_definition_cells ss with Ok (t, _) => t | _ => CNull end.
Definition ili_def_meta (ss : val) : cell :=
  match ili_definition_cells ss with Ok (_, m) => m | _ => CNull end.
(* the VALUES of the synsets row of a local synset; the ILI is looked up in the ilis table of d *)
Definition synset_cells (d : db) (lexid : Z) (ss : val) : list cell :=
  [pcell (preq ss "id"); CInt lexid; ili_lookup d (ilic_of ss); pcell (preq ss "partOfSpeech");
   pcell (param (vget_def ss "lexicalized" (VBool true)));
   LEXFILE_QUERY d (pcell (param (vgetk ss "lexfile"))); pcell (preq ss "meta")].
Definition synset_row (d : db) (lexid : Z) (ss : val) : list cell :=
  coerce_all (data_columns "synsets") (synset_cells d lexid ss).
(* the proposed_ilis row of a synset with ili = 'in' *)
Definition proposed_rows (d : db) (lexid : Z) (ss : val) : list (list cell) :=
  if is_in (pv (vreq ss "ili"))
  then [coerce_all (data_columns "proposed_ilis")
                   [SYNSET_QUERY d (pcell (preq ss "id")) (CInt lexid); ili_def_text ss; ili_def_meta ss]]
  else [].

Lemma select_rowid_cell_ok : forall d t p, st_cell_ok (select_rowid d t p).
Proof.
  intros d t p. unfold select_rowid, st_cell_ok. destruct (find p (get_table d t)); [right; eauto|left; reflexivity].
Qed.
Lemma ili_pred_null : forall r, ili_pred CNull r = false.
Proof. intro r. unfold ili_pred. simpl. destruct (cell_at 1 r); reflexivity. Qed.

Definition grows (t : string) (d d' : db) : Prop := exists X, get_table d' t = (get_table d t ++ X)%list.

Lemma ph1_step : forall d ss d1,
    ph1 d ss = Ok d1 ->
    only_changes ["ilis"] d d1
    /\ (exists X, get_table d1 "ilis" = (get_table d "ilis" ++ X)%list /\ (is_null (Sd d) = true -> X = []))
    /\ (is_null (Sd d) = true \/ stable (ili_pred (ilic_of ss)) (get_table d1 "ilis")).
Proof.
  intros d ss d1 H. unfold ph1 in H. apply bind_ok in H. destruct H as [ili [Hili H]].
  unfold ilic_of, presupposed. rewrite Hili. cbn [pv].
  destruct (vtruthy ili && negb (is_in ili)).
  - apply bind_ok in H. destruct H as [[text meta] [_ H]]. apply bind_ok in H. destruct H as [ilic [Hc H]].
    injection H as <-. rewrite Hc. cbn [pcell].
    destruct (ioi_ilis d ilic (Sd d) text meta (select_rowid_cell_ok _ _ _)) as [HX Hst].
    split; [apply oc_ioi; in_list|]. split; [exact HX|].
    destruct Hst as [Hn|[->|Hst]]; [left; exact Hn| |right; exact Hst].
    right. apply stable_never. apply ili_pred_null.
  - injection H as <-. split; [apply oc_refl|]. split.
    + exists []. rewrite app_nil_r. split; reflexivity.
    + right. apply stable_never. apply ili_pred_null.
Qed.

Lemma ph1_fold : forall b d d1,
    foldM ph1 b d = Ok d1 ->
    only_changes ["ilis"] d d1
    /\ (exists X, get_table d1 "ilis" = (get_table d "ilis" ++ X)%list /\ (is_null (Sd d) = true -> X = []))
    /\ (is_null (Sd d) = true \/ forall ss, In ss b -> stable (ili_pred (ilic_of ss)) (get_table d1 "ilis")).
Proof.
  induction b as [|ss b IH]; intros d d1 H; simpl in H.
  - injection H as <-. split; [apply oc_refl|]. split; [exists []; rewrite app_nil_r; split; reflexivity|].
    right. intros ss [].
  - apply bind_ok in H. destruct H as [d0 [H0 H]].
    destruct (ph1_step _ _ _ H0) as (O0 & (X0 & E0 & N0) & S0).
    destruct (IH _ _ H) as (O1 & (X1 & E1 & N1) & S1).
    assert (Sd d0 = Sd d) as ES by (apply ILISTAT_QUERY_ext; apply O0; not_in).
    rewrite ES in *.
    split; [eapply oc_trans; eassumption|]. split.
    + exists (X0 ++ X1)%list. split; [rewrite E1, E0, app_assoc; reflexivity|].
      intro Hn. rewrite (N0 Hn), (N1 Hn). reflexivity.
    + destruct S1 as [Hn|S1]; [left; exact Hn|]. destruct S0 as [Hn|S0]; [left; exact Hn|].
      right. intros s [<-|Hs]; [|apply S1; exact Hs]. rewrite E1. apply stable_app. exact S0.
Qed.

Lemma ili_lookup_ext : forall d d' c,
    get_table d' "ilis" = get_table d "ilis" -> ili_lookup d' c = ili_lookup d c.
Proof. intros. unfold ili_lookup. apply select_rowid_ext. assumption. Qed.
Lemma synset_row_ext : forall d d' lexid ss,
    get_table d' "ilis" = get_table d "ilis" -> get_table d' "lexfiles" = get_table d "lexfiles" ->
    synset_row d' lexid ss = synset_row d lexid ss.
Proof.
  intros d d' lexid ss Hi Hl. unfold synset_row, synset_cells.
  rewrite (ili_lookup_ext d d') by exact Hi. rewrite (LEXFILE_QUERY_ext d d') by exact Hl. reflexivity.
Qed.
Lemma proposed_rows_ext : forall d d' lexid ss,
    get_table d' "synsets" = get_table d "synsets" -> proposed_rows d' lexid ss = proposed_rows d lexid ss.
Proof.
  intros d d' lexid ss Hs. unfold proposed_rows. rewrite (SYNSET_QUERY_ext d d') by exact Hs. reflexivity.
Qed.

Lemma ph2_fold : forall lexid b d d2,
    foldM (ph2 lexid) b d = Ok d2 -> Ins "synsets" d d2 (map (synset_row d lexid) b).
Proof.
  intros lexid b d d2 H. rewrite <- flat_map_single.
  apply (foldM_Ins "synsets" _ (fun d0 ss => [synset_row d0 lexid ss])) in H; [exact H| |].
  - clear. intros d0 ss d1 Hs. unfold ph2 in Hs. repeat mstep; apply Ins_insert in Hs;
      unfold synset_row, synset_cells, ili_lookup, ilic_of, presupposed; eval_oks;
      match goal with Hb : (vtruthy _ && negb (is_in _)) = _ |- _ => rewrite Hb end; eval_oks; exact Hs.
  - intros d0 d1 ss Ho. f_equal. apply synset_row_ext; apply Ho; discriminate.
Qed.
Lemma ph3_fold : forall lexid b d d3,
    foldM (ph3 lexid) b d = Ok d3 -> Ins "proposed_ilis" d d3 (flat_map (proposed_rows d lexid) b).
Proof.
  intros lexid b d d3 H.
  apply (foldM_Ins "proposed_ilis" _ (fun d0 ss => proposed_rows d0 lexid ss)) in H; [exact H| |].
  - clear. intros d0 ss d1 Hs. unfold ph3 in Hs. repeat mstep.
    + apply Ins_insert in Hs. unfold proposed_rows, ili_def_text, ili_def_meta. eval_oks.
      match goal with Hb : is_in _ = true |- _ => rewrite Hb end. eval_oks. exact Hs.
    + unfold proposed_rows. eval_oks.
      match goal with Hb : is_in _ = false |- _ => rewrite Hb end. apply Ins_nil.
  - intros d0 d1 ss Ho. apply proposed_rows_ext. apply Ho. discriminate.
Qed.

Lemma ili_lookup_stable : forall d d' c X,
    get_table d' "ilis" = (get_table d "ilis" ++ X)%list -> stable (ili_pred c) (get_table d "ilis") ->
    ili_lookup d' c = ili_lookup d c.
Proof. intros d d' c X E Hs. unfold ili_lookup, select_rowid. rewrite E, (Hs X). reflexivity. Qed.

Definition syn_pred (idc : cell) (lexid : Z) (r : row) : bool :=
  sql_eq (cell_at 1 r) (as_text idc) && sql_eq (cell_at 2 r) (CInt lexid).
Lemma SYNSET_QUERY_pred : forall d idc lexid,
    SYNSET_QUERY d idc (CInt lexid) = select_rowid d "synsets" (syn_pred idc lexid).
Proof. reflexivity. Qed.
Lemma SYNSET_QUERY_stable : forall d d' idc lexid Y,
    get_table d' "synsets" = (get_table d "synsets" ++ Y)%list ->
    stable (syn_pred idc lexid) (get_table d "synsets") ->
    SYNSET_QUERY d' idc (CInt lexid) = SYNSET_QUERY d idc (CInt lexid).
Proof.
  intros d d' idc lexid Y E Hs. rewrite !SYNSET_QUERY_pred. unfold select_rowid. rewrite E, (Hs Y). reflexivity.
Qed.
Lemma In_number_from : forall vss vs n, In vs vss -> exists k, In (CInt k :: vs) (number_from n vss).
Proof.
  induction vss as [|x vss IH]; intros vs n H; [destruct H|]. simpl. destruct H as [->|H].
  - exists n. left. reflexivity.
  - destruct (IH vs (n + 1) H) as [k Hk]. exists k. right. exact Hk.
Qed.
Lemma synset_row_key : forall d lexid ss k0,
    cell_at 1 (CInt k0 :: synset_row d lexid ss) = coerce "TEXT" (pcell (preq ss "id"))
    /\ cell_at 2 (CInt k0 :: synset_row d lexid ss) = CInt lexid.
Proof. intros. split; reflexivity. Qed.

(* after the synsets of a batch are inserted, the lookup of each of them by id cannot change *)
Lemma synset_lookup_stable : forall T n d1 lexid b ss,
    In ss b ->
    stable (syn_pred (pcell (preq ss "id")) lexid)
           (T ++ number_from n (map (synset_row d1 lexid) b))%list.
Proof.
  intros T n d1 lexid b ss Hin.
  destruct (In_number_from _ _ n (in_map (synset_row d1 lexid) _ _ Hin)) as [k0 Hk].
  destruct (synset_row_key d1 lexid ss k0) as [K1 K2].
  destruct (pcell (preq ss "id")) as [|m|y|v] eqn:Eid.
  - apply stable_never. intro r. unfold syn_pred. simpl. destruct (cell_at 1 r); reflexivity.
  - apply stable_found. eapply find_exists; [apply in_or_app; right; exact Hk|].
    unfold syn_pred. rewrite K1, K2. simpl. rewrite str_eqb_refl, Z.eqb_refl. reflexivity.
  - apply stable_found. eapply find_exists; [apply in_or_app; right; exact Hk|].
    unfold syn_pred. rewrite K1, K2. simpl. rewrite str_eqb_refl, Z.eqb_refl. reflexivity.
  - apply stable_never. intro r. unfold syn_pred. simpl. destruct (cell_at 1 r); reflexivity.
Qed.

Lemma flat_map_ext_in_eq : forall {A B} (f g : A -> list B) l,
    (forall x, In x l -> f x = g x) -> flat_map f l = flat_map g l.
Proof.
  intros A B f g l H. induction l as [|a l IH]; simpl; [reflexivity|].
  rewrite H by (left; reflexivity). rewrite IH; [reflexivity|]. intros x Hx. apply H. right. exact Hx.
Qed.

Lemma batches_fold : forall lexid bs d d',
    foldM (batch_step lexid) bs d = Ok d' ->
    App "synsets" d d' (map (synset_row d' lexid) (List.concat bs))
    /\ App "proposed_ilis" d d' (flat_map (proposed_rows d' lexid) (List.concat bs))
    /\ only_changes ["ilis"; "synsets"; "proposed_ilis"] d d'
    /\ (exists X, get_table d' "ilis" = (get_table d "ilis" ++ X)%list /\ (is_null (Sd d) = true -> X = []))
    /\ grows "synsets" d d'.
Proof.
  intros lexid bs. induction bs as [|b bs IH]; intros d d' H; simpl in H.
  - injection H as <-. simpl. split; [apply App_nil|]. split; [apply App_nil|]. split; [apply oc_refl|].
    split; [exists []; rewrite app_nil_r; split; reflexivity|exists []; rewrite app_nil_r; reflexivity].
  - apply bind_ok in H. destruct H as [d3 [Hb H]]. unfold batch_step in Hb.
    apply bind_ok in Hb. destruct Hb as [d1 [P1 Hb]]. apply bind_ok in Hb. destruct Hb as [d2 [P2 P3]].
    destruct (ph1_fold _ _ _ P1) as (O1 & (X1 & E1 & N1) & S1).
    destruct (ph2_fold _ _ _ _ P2) as [A2 O2]. destruct (ph3_fold _ _ _ _ P3) as [A3 O3].
    destruct (IH _ _ H) as (As & Ap & Or & (Xr & Er & Nr) & [Yr Gr]).
    assert (only_changes ["ilis"; "synsets"; "proposed_ilis"] d d3) as O13.
    { intros t Ht.
      assert (t <> "proposed_ilis") as N3 by (intro E; apply Ht; subst; simpl; tauto).
      assert (t <> "synsets") as N2 by (intro E; apply Ht; subst; simpl; tauto).
      assert (~ In t ["ilis"]) as N1' by (intros [E|[]]; apply Ht; subst; simpl; tauto).
      rewrite O3 by exact N3. rewrite O2 by exact N2. apply O1. exact N1'. }
    assert (Sd d3 = Sd d) as ES by (apply ILISTAT_QUERY_ext; apply O13; not_in).
    rewrite ES in Nr.
    assert (get_table d3 "ilis" = get_table d1 "ilis") as Ei3 by (rewrite O3, O2 by discriminate; reflexivity).
    assert (get_table d3 "synsets" = get_table d2 "synsets") as Es3 by (apply O3; discriminate).
    simpl List.concat. rewrite map_app, flat_map_app.
    split; [|split; [|split; [|split]]].
    + (* synsets *)
      apply (App_app _ _ d3); [|exact As].
      apply (App_eq_l _ d d1); [symmetry; apply O1; not_in|]. apply (App_eq_r _ _ d2); [exact Es3|].
      rewrite (map_ext_in (synset_row d' lexid) (synset_row d1 lexid)); [exact A2|].
      intros ss Hss. unfold synset_row, synset_cells.
      assert (ili_lookup d' (ilic_of ss) = ili_lookup d1 (ilic_of ss)) as ->.
      { destruct S1 as [Hn|S1].
        - apply ili_lookup_ext. rewrite Er, (Nr Hn), app_nil_r. exact Ei3.
        - apply (ili_lookup_stable d1 d' _ Xr); [rewrite Er, Ei3; reflexivity|apply S1; exact Hss]. }
      rewrite (LEXFILE_QUERY_ext d1 d'); [reflexivity|].
      rewrite (Or "lexfiles") by not_in. rewrite O3, O2 by discriminate. reflexivity.
    + (* proposed_ilis *)
      apply (App_app _ _ d3); [|exact Ap].
      apply (App_eq_l _ d d2); [rewrite O2 by discriminate; symmetry; apply O1; not_in|].
      rewrite (flat_map_ext_in_eq (proposed_rows d' lexid) (proposed_rows d2 lexid)); [exact A3|].
      intros ss Hss. unfold proposed_rows. destruct (is_in (pv (vreq ss "ili"))); [|reflexivity].
      f_equal. f_equal. f_equal.
      apply (SYNSET_QUERY_stable d2 d' _ _ Yr); [rewrite Gr, Es3; reflexivity|].
      unfold App in A2. rewrite A2. apply synset_lookup_stable. exact Hss.
    + eapply oc_trans; eassumption.
    + exists (X1 ++ Xr)%list. split; [rewrite Er, Ei3, E1, app_assoc; reflexivity|].
      intro Hn. rewrite (N1 Hn), (Nr Hn). reflexivity.
    + unfold App in A2. eexists. rewrite Gr, Es3, A2.
      rewrite (O1 "synsets") by not_in. rewrite <- app_assoc. reflexivity.
Qed.

Lemma app_insert_synsets : forall synsets lexid d d',
    _insert_synsets synsets lexid d = Ok d' ->
    App "synsets" d d' (map (synset_row d' lexid) (_local_synsets synsets))
    /\ App "proposed_ilis" d d' (flat_map (proposed_rows d' lexid) (_local_synsets synsets)).
Proof.
  intros synsets lexid d d' H. rewrite insert_synsets_unfold in H.
  destruct (batches_fold _ _ _ _ H) as (As & Ap & _). rewrite batch_concat in As, Ap. split; assumption.
Qed.

(* (D4) the new synsets rows are exactly the local synsets of the lexicon, in document order;
   the new proposed_ilis rows are exactly its synsets with ili = "in" *)
Theorem one_lexicon_synsets : forall nt L d d',
    add_one_lexicon nt L d = Ok d' ->
    let lexid := next_rowid (get_table d "lexicons") in
    App "synsets" d d' (map (synset_row d' lexid) (_local_synsets (_synsets L)))
    /\ App "proposed_ilis" d d' (flat_map (proposed_rows d' lexid) (_local_synsets (_synsets L))).
Proof.
  intros nt L d d' H.
  destruct (add_one_lexicon_inv _ _ _ _ H)
    as (d1 & sb & d2 & lexid & extid & m & d3 & d4 & d5 & d6 & d7 & d8 & d9 & d10 & d11 & d12 & d13
        & d14 & d15 & H1 & _ & H2 & Hm & H3 & H4 & H5 & H6 & H7 & H8 & H9 & H10 & H11 & H12 & H13
        & H14 & H15 & H16).
  destruct (app_insert_lexicon _ _ _ _ _ H2) as [_ Hlex].
  destruct (app_insert_synsets _ _ _ _ H3) as [As Ap]. oc_facts.
  assert (lexid = next_rowid (get_table d "lexicons")) as <- by (rewrite Hlex; tbl_eq "lexicons"; reflexivity).
  cbv zeta. split.
  - rewrite (map_ext (synset_row d' lexid) (synset_row d3 lexid)).
    + unfold App in *. tbl_eq "synsets". rewrite As. tbl_eq "synsets". reflexivity.
    + intro ss. apply synset_row_ext; [tbl_eq "ilis"|tbl_eq "lexfiles"]; reflexivity.
  - rewrite (flat_map_ext (proposed_rows d' lexid) (proposed_rows d3 lexid)).
    + unfold App in *. tbl_eq "proposed_ilis". rewrite Ap. tbl_eq "proposed_ilis". reflexivity.
    + intro ss. apply proposed_rows_ext. tbl_eq "synsets". reflexivity.
Qed.

(* ====================================================================== *)
(* (D3) forms                                                              *)
(* ====================================================================== *)
Definition wf_cell (nt : normtable) (x : val) : cell :=
  match form_cells nt x with Ok (a, _) => a | _ => CNull end.
Definition norm_cell (nt : normtable) (x : val) : cell :=
  match form_cells nt x with Ok (_, b) => b | _ => CNull end.
(* the entry row that the forms of [entry] attach to: looked up in the lexicon itself or,
   for an external entry of an extension, in the extended lexicon *)
Definition entry_ref (d : db) (lexid : Z) (lexidmap : lexidmap_t) (entry : val) : cell :=
  ENTRY_QUERY d (pcell (preq entry "id")) (lexidmap_get lexidmap (pv (vreq entry "id")) lexid).
Definition lemma_form_row (d : db) (nt : normtable) (lexid : Z) (lexidmap : lexidmap_t) (entry : val)
  : list cell :=
  let lemma := pv (vreq entry "lemma") in
  coerce_all (data_columns "forms")
             [CNull; CInt lexid; entry_ref d lexid lexidmap entry; wf_cell nt lemma; norm_cell nt lemma;
              pcell (param (vgetk lemma "script")); CInt 0].
Definition other_form_row (d : db) (nt : normtable) (lexid : Z) (lexidmap : lexidmap_t) (entry : val)
           (iform : Z * val) : list cell :=
  coerce_all (data_columns "forms")
             [pcell (param (vgetk (snd iform) "id")); CInt lexid; entry_ref d lexid lexidmap entry;
              wf_cell nt (snd iform); norm_cell nt (snd iform);
              pcell (param (vgetk (snd iform) "script")); CInt (fst iform)].
(* the lemma (rank 0) of a local entry, then its local forms with rank = position from 1 *)
Definition entry_form_rows (d : db) (nt : normtable) (lexid : Z) (lexidmap : lexidmap_t) (entry : val)
  : list (list cell) :=
  ((if negb (_is_external entry) then [lemma_form_row d nt lexid lexidmap entry] else [])
   ++ flat_map (fun iform : Z * val =>
                  if _is_external (snd iform) then [] else [other_form_row d nt lexid lexidmap entry iform])
               (enumerate_from 1 (_forms entry)))%list.

Lemma entry_ref_ext : forall d d' lexid m e,
    get_table d' "entries" = get_table d "entries" -> entry_ref d' lexid m e = entry_ref d lexid m e.
Proof. intros. unfold entry_ref. apply ENTRY_QUERY_ext. assumption. Qed.
Lemma entry_form_rows_ext : forall d d' nt lexid m e,
    get_table d' "entries" = get_table d "entries" ->
    entry_form_rows d' nt lexid m e = entry_form_rows d nt lexid m e.
Proof.
  intros d d' nt lexid m e H. unfold entry_form_rows, lemma_form_row, other_form_row.
  rewrite (entry_ref_ext d d') by exact H. reflexivity.
Qed.

Lemma ins_insert_forms : forall nt entries lexid m d d',
    _insert_forms nt entries lexid m d = Ok d' ->
    Ins "forms" d d' (flat_map (entry_form_rows d nt lexid m) entries).
Proof.
  intros nt entries lexid m d d' H. unfold _insert_forms in H. rewrite foldM_concat, batch_concat in H.
  apply (foldM_Ins "forms" _ (fun d0 e => entry_form_rows d0 nt lexid m e)) in H; [exact H| |].
  - clear. intros d0 e d2 Hs.
    apply bind_ok in Hs. destruct Hs as [eid [Heid Hs]]. apply bind_ok in Hs. destruct Hs as [eidc [Heidc Hs]].
    apply bind_ok in Hs. destruct Hs as [d1 [Hlem Hforms]].
    assert (Ins "forms" d0 d1 (if negb (_is_external e) then [lemma_form_row d0 nt lexid m e] else [])) as I1.
    { destruct (negb (_is_external e)); [|injection Hlem as <-; apply Ins_nil].
      repeat mstep. apply Ins_insert in Hlem.
      unfold lemma_form_row, entry_ref, wf_cell, norm_cell, preq. eval_oks. exact Hlem. }
    unfold entry_form_rows. eapply Ins_app; [exact I1|].
    apply (foldM_Ins "forms" _
             (fun d3 (iform : Z * val) =>
                if _is_external (snd iform) then [] else [other_form_row d3 nt lexid m e iform])) in Hforms.
    + rewrite (flat_map_ext _ (fun iform : Z * val =>
                 if _is_external (snd iform) then [] else [other_form_row d1 nt lexid m e iform]));
        [exact Hforms|].
      intros [i f]. cbn [snd]. destruct (_is_external f); [reflexivity|]. f_equal.
      unfold other_form_row. rewrite (entry_ref_ext d1 d0); [reflexivity|]. symmetry. apply I1. discriminate.
    + clear - Heid Heidc. intros d3 [i f] d4 Hs. cbn [snd]. destruct (_is_external f).
      * injection Hs as <-. apply Ins_nil.
      * repeat mstep. apply Ins_insert in Hs.
        unfold other_form_row, entry_ref, wf_cell, norm_cell, preq. cbn [fst snd]. eval_oks. exact Hs.
    + intros d3 d4 [i f] Ho. cbn [snd]. destruct (_is_external f); [reflexivity|]. f_equal.
      unfold other_form_row. rewrite (entry_ref_ext d3 d4); [reflexivity|]. apply Ho. discriminate.
  - intros d0 d1 e Ho. apply entry_form_rows_ext. apply Ho. discriminate.
Qed.

Theorem one_lexicon_forms : forall nt L d d',
    add_one_lexicon nt L d = Ok d' ->
    exists lexid extid lexidmap,
      lexid = next_rowid (get_table d "lexicons")
      /\ _build_lexid_map L lexid extid = Ok lexidmap
      /\ App "forms" d d' (flat_map (entry_form_rows d' nt lexid lexidmap) (_entries L)).
Proof.
  intros nt L d d' H.
  destruct (add_one_lexicon_inv _ _ _ _ H)
    as (d1 & sb & d2 & lexid & extid & m & d3 & d4 & d5 & d6 & d7 & d8 & d9 & d10 & d11 & d12 & d13
        & d14 & d15 & H1 & _ & H2 & Hm & H3 & H4 & H5 & H6 & H7 & H8 & H9 & H10 & H11 & H12 & H13
        & H14 & H15 & H16).
  destruct (app_insert_lexicon _ _ _ _ _ H2) as [_ Hlex].
  destruct (ins_insert_forms _ _ _ _ _ _ H5) as [HA _]. oc_facts.
  exists lexid, extid, m. split; [rewrite Hlex; tbl_eq "lexicons"; reflexivity|]. split; [exact Hm|].
  rewrite (flat_map_ext _ (entry_form_rows d4 nt lexid m)).
  - unfold App in *. tbl_eq "forms". rewrite HA. tbl_eq "forms". reflexivity.
  - intro e. apply entry_form_rows_ext. tbl_eq "entries". reflexivity.
Qed.

(* ====================================================================== *)
(* (D6) the children: counts, adjpositions, examples, definitions           *)
(* ====================================================================== *)
Lemma foldM_Ins_map : forall {X} t (f : db -> X -> result db) (row : db -> X -> list cell),
    (forall d0 x d1, f d0 x = Ok d1 -> Ins t d0 d1 [row d0 x]) ->
    (forall d0 d1 x, (forall t', t' <> t -> get_table d1 t' = get_table d0 t') -> row d1 x = row d0 x) ->
    forall xs d d', foldM f xs d = Ok d' -> Ins t d d' (map (row d) xs).
Proof.
  intros X t f row Hstep Hinv xs d d' H. rewrite <- flat_map_single.
  apply (foldM_Ins t f (fun d0 x => [row d0 x])); [exact Hstep| |exact H].
  intros d0 d1 x Ho. f_equal. apply Hinv. exact Ho.
Qed.

(* the sense row that a child of [sense] attaches to (in the lexicon or, for an external
   sense of an extension, in the extended lexicon) *)
Definition sense_ref (d : db) (lexid : Z) (lexidmap : lexidmap_t) (sense : val) : cell :=
  SENSE_QUERY d (pcell (preq sense "id")) (lexidmap_get lexidmap (pv (vreq sense "id")) lexid).
Definition synset_ref (d : db) (lexid : Z) (lexidmap : lexidmap_t) (synset : val) : cell :=
  SYNSET_QUERY d (pcell (preq synset "id")) (lexidmap_get lexidmap (pv (vreq synset "id")) lexid).
Lemma sense_ref_ext : forall d d' lexid m s,
    get_table d' "senses" = get_table d "senses" -> sense_ref d' lexid m s = sense_ref d lexid m s.
Proof. intros. unfold sense_ref. apply SENSE_QUERY_ext. assumption. Qed.
Lemma synset_ref_ext : forall d d' lexid m s,
    get_table d' "synsets" = get_table d "synsets" -> synset_ref d' lexid m s = synset_ref d lexid m s.
Proof. intros. unfold synset_ref. apply SYNSET_QUERY_ext. assumption. Qed.

(* ---------- counts ---------- *)
Definition count_row (d : db) (lexid : Z) (m : lexidmap_t) (sense count : val) : list cell :=
  coerce_all (data_columns "counts")
             [CInt lexid; sense_ref d lexid m sense; pcell (preq count "value"); pcell (preq count "meta")].
Definition entry_count_rows (d : db) (lexid : Z) (m : lexidmap_t) (entry : val) : list (list cell) :=
  flat_map (fun sense => map (count_row d lexid m sense) (vlistk sense "counts")) (_senses entry).
Lemma count_row_ext : forall d d' lexid m s c,
    get_table d' "senses" = get_table d "senses" -> count_row d' lexid m s c = count_row d lexid m s c.
Proof. intros. unfold count_row. rewrite (sense_ref_ext d d') by assumption. reflexivity. Qed.

Lemma ins_insert_counts : forall entries lexid m d d',
    _insert_counts entries lexid m d = Ok d' ->
    Ins "counts" d d' (flat_map (entry_count_rows d lexid m) entries).
Proof.
  intros entries lexid m d d' H. unfold _insert_counts in H.
  apply (foldM_Ins "counts" _ (fun d0 e => entry_count_rows d0 lexid m e)) in H; [exact H| |].
  - clear. intros d0 e d1 Hs. unfold entry_count_rows.
    apply (foldM_Ins "counts" _ (fun d2 s => map (count_row d2 lexid m s) (vlistk s "counts"))) in Hs;
      [exact Hs| |].
    + clear. intros d2 s d3 Hs.
      apply (foldM_Ins_map "counts" _ (fun d4 c => count_row d4 lexid m s c)) in Hs; [exact Hs| |].
      * clear. intros d4 c d5 Hs. repeat mstep. apply Ins_insert in Hs.
        unfold count_row, sense_ref, preq. eval_oks. unfold preq in *. eval_oks. exact Hs.
      * intros d4 d5 c Ho. apply count_row_ext. apply Ho. discriminate.
    + intros d2 d3 s Ho. apply map_ext. intro c. apply count_row_ext. apply Ho. discriminate.
  - intros d0 d1 e Ho. unfold entry_count_rows. apply flat_map_ext. intro s. apply map_ext. intro c.
    apply count_row_ext. apply Ho. discriminate.
Qed.

(* ---------- adjpositions ---------- *)
Definition adjposition_rows (d : db) (lexid : Z) (m : lexidmap_t) (entry : val) : list (list cell) :=
  flat_map (fun s => if vtruthy (vgetk s "adjposition")
                     then [coerce_all (data_columns "adjpositions")
                                      [sense_ref d lexid m s; pcell (preq s "adjposition")]]
                     else [])
           (_local_senses (_senses entry)).
Lemma adjposition_rows_ext : forall d d' lexid m e,
    get_table d' "senses" = get_table d "senses" -> adjposition_rows d' lexid m e = adjposition_rows d lexid m e.
Proof.
  intros. unfold adjposition_rows. apply flat_map_ext. intro s.
  rewrite (sense_ref_ext d d') by assumption. reflexivity.
Qed.
Lemma ins_insert_adjpositions : forall entries lexid m d d',
    _insert_adjpositions entries lexid m d = Ok d' ->
    Ins "adjpositions" d d' (flat_map (adjposition_rows d lexid m) entries).
Proof.
  intros entries lexid m d d' H. unfold _insert_adjpositions in H.
  apply (foldM_Ins "adjpositions" _ (fun d0 e => adjposition_rows d0 lexid m e)) in H; [exact H| |].
  - clear. intros d0 e d1 Hs. unfold adjposition_rows.
    apply (foldM_Ins "adjpositions" _
             (fun d2 s => if vtruthy (vgetk s "adjposition")
                          then [coerce_all (data_columns "adjpositions")
                                           [sense_ref d2 lexid m s; pcell (preq s "adjposition")]]
                          else [])) in Hs; [exact Hs| |].
    + clear. intros d2 s d3 Hs. destruct (vtruthy (vgetk s "adjposition")).
      * repeat mstep. apply Ins_insert in Hs. unfold sense_ref. eval_oks. unfold preq. eval_oks. exact Hs.
      * injection Hs as <-. apply Ins_nil.
    + intros d2 d3 s Ho. rewrite (sense_ref_ext d2 d3); [reflexivity|]. apply Ho. discriminate.
  - intros d0 d1 e Ho. apply adjposition_rows_ext. apply Ho. discriminate.
Qed.

(* ---------- examples ---------- *)
Definition example_row (table : string) (ref : cell) (lexid : Z) (example : val) : list cell :=
  coerce_all (data_columns table)
             [CInt lexid; ref; pcell (preq example "text"); pcell (param (vgetk example "language"));
              pcell (preq example "meta")].
Definition sense_example_rows (d : db) (lexid : Z) (m : lexidmap_t) (sense : val) : list (list cell) :=
  map (example_row "sense_examples" (sense_ref d lexid m sense) lexid) (vlistk sense "examples").
Definition synset_example_rows (d : db) (lexid : Z) (m : lexidmap_t) (synset : val) : list (list cell) :=
  map (example_row "synset_examples" (synset_ref d lexid m synset) lexid) (vlistk synset "examples").

Lemma ins_insert_sense_examples : forall objs lexid m d d',
    _insert_examples objs lexid m "sense_examples" d = Ok d' ->
    Ins "sense_examples" d d' (flat_map (sense_example_rows d lexid m) objs).
Proof.
  intros objs lexid m d d' H. unfold _insert_examples in H.
  change (String.eqb "sense_examples" "sense_examples") with true in H. cbv zeta iota in H.
  rewrite foldM_concat, batch_concat in H.
  apply (foldM_Ins "sense_examples" _ (fun d0 o => sense_example_rows d0 lexid m o)) in H; [exact H| |].
  - clear. intros d0 o d1 Hs. unfold sense_example_rows.
    apply (foldM_Ins_map "sense_examples" _
             (fun d2 ex => example_row "sense_examples" (sense_ref d2 lexid m o) lexid ex)) in Hs;
      [exact Hs| |].
    + clear. intros d2 ex d3 Hs. repeat mstep. apply Ins_insert in Hs.
      unfold example_row, sense_ref. eval_oks. unfold preq. eval_oks. exact Hs.
    + intros d2 d3 ex Ho. rewrite (sense_ref_ext d2 d3); [reflexivity|]. apply Ho. discriminate.
  - intros d0 d1 o Ho. unfold sense_example_rows. rewrite (sense_ref_ext d0 d1); [reflexivity|].
    apply Ho. discriminate.
Qed.
Lemma ins_insert_synset_examples : forall objs lexid m d d',
    _insert_examples objs lexid m "synset_examples" d = Ok d' ->
    Ins "synset_examples" d d' (flat_map (synset_example_rows d lexid m) objs).
Proof.
  intros objs lexid m d d' H. unfold _insert_examples in H.
  change (String.eqb "synset_examples" "sense_examples") with false in H. cbv zeta iota in H.
  rewrite foldM_concat, batch_concat in H.
  apply (foldM_Ins "synset_examples" _ (fun d0 o => synset_example_rows d0 lexid m o)) in H; [exact H| |].
  - clear. intros d0 o d1 Hs. unfold synset_example_rows.
    apply (foldM_Ins_map "synset_examples" _
             (fun d2 ex => example_row "synset_examples" (synset_ref d2 lexid m o) lexid ex)) in Hs;
      [exact Hs| |].
    + clear. intros d2 ex d3 Hs. repeat mstep. apply Ins_insert in Hs.
      unfold example_row, synset_ref. eval_oks. unfold preq. eval_oks. exact Hs.
    + intros d2 d3 ex Ho. rewrite (synset_ref_ext d2 d3); [reflexivity|]. apply Ho. discriminate.
  - intros d0 d1 o Ho. unfold synset_example_rows. rewrite (synset_ref_ext d0 d1); [reflexivity|].
    apply Ho. discriminate.
Qed.

(* ---------- definitions ---------- *)
Definition definition_row (d : db) (lexid : Z) (m : lexidmap_t) (synset definition : val) : list cell :=
  coerce_all (data_columns "definitions")
             [CInt lexid; synset_ref d lexid m synset; pcell (preq definition "text");
              pcell (param (vgetk definition "language"));
              SENSE_QUERY d (pcell (param (vgetk definition "sourceSense")))
                          (lexidmap_get m (vget_def definition "sourceSense" (vs "")) lexid);
              pcell (preq definition "meta")].
Definition definition_rows (d : db) (lexid : Z) (m : lexidmap_t) (synset : val) : list (list cell) :=
  map (definition_row d lexid m synset) (vlistk synset "definitions").
Lemma definition_row_ext : forall d d' lexid m ss df,
    get_table d' "synsets" = get_table d "synsets" -> get_table d' "senses" = get_table d "senses" ->
    definition_row d' lexid m ss df = definition_row d lexid m ss df.
Proof.
  intros d d' lexid m ss df H1 H2. unfold definition_row.
  rewrite (synset_ref_ext d d') by exact H1. rewrite (SENSE_QUERY_ext d d') by exact H2. reflexivity.
Qed.
Lemma ins_insert_synset_definitions : forall synsets lexid m d d',
    _insert_synset_definitions synsets lexid m d = Ok d' ->
    Ins "definitions" d d' (flat_map (definition_rows d lexid m) synsets).
Proof.
  intros synsets lexid m d d' H. unfold _insert_synset_definitions in H.
  rewrite foldM_concat, batch_concat in H.
  apply (foldM_Ins "definitions" _ (fun d0 ss => definition_rows d0 lexid m ss)) in H; [exact H| |].
  - clear. intros d0 ss d1 Hs. unfold definition_rows.
    apply (foldM_Ins_map "definitions" _ (fun d2 df => definition_row d2 lexid m ss df)) in Hs; [exact Hs| |].
    + clear. intros d2 df d3 Hs. repeat mstep. apply Ins_insert in Hs.
      unfold definition_row, synset_ref. eval_oks. unfold preq. eval_oks. exact Hs.
    + intros d2 d3 df Ho. apply definition_row_ext; apply Ho; discriminate.
  - intros d0 d1 ss Ho. unfold definition_rows. apply map_ext. intro df.
    apply definition_row_ext; apply Ho; discriminate.
Qed.

(* ---------- synset relations ---------- *)
Definition synset_relation_row (d : db) (lexid : Z) (m : lexidmap_t) (synset relation : val) : list cell :=
  coerce_all (data_columns "synset_relations")
             [CInt lexid; synset_ref d lexid m synset;
              SYNSET_QUERY d (pcell (preq relation "target"))
                           (lexidmap_get m (pv (vreq relation "target")) lexid);
              RELTYPE_QUERY d (pcell (preq relation "relType")); pcell (preq relation "meta")].
Definition synset_relation_rows (d : db) (lexid : Z) (m : lexidmap_t) (synset : val) : list (list cell) :=
  map (synset_relation_row d lexid m synset) (vlistk synset "relations").
Lemma synset_relation_row_ext : forall d d' lexid m ss rel,
    get_table d' "synsets" = get_table d "synsets" ->
    get_table d' "relation_types" = get_table d "relation_types" ->
    synset_relation_row d' lexid m ss rel = synset_relation_row d lexid m ss rel.
Proof.
  intros d d' lexid m ss rel H1 H2. unfold synset_relation_row.
  rewrite (synset_ref_ext d d') by exact H1. rewrite (SYNSET_QUERY_ext d d') by exact H1.
  rewrite (RELTYPE_QUERY_ext d d') by exact H2. reflexivity.
Qed.
Lemma ins_insert_synset_relations : forall synsets lexid m d d',
    _insert_synset_relations synsets lexid m d = Ok d' ->
    Ins "synset_relations" d d' (flat_map (synset_relation_rows d lexid m) synsets).
Proof.
  intros synsets lexid m d d' H. unfold _insert_synset_relations in H.
  rewrite foldM_concat, batch_concat in H.
  apply (foldM_Ins "synset_relations" _ (fun d0 ss => synset_relation_rows d0 lexid m ss)) in H; [exact H| |].
  - clear. intros d0 ss d1 Hs. unfold synset_relation_rows.
    apply (foldM_Ins_map "synset_relations" _ (fun d2 rel => synset_relation_row d2 lexid m ss rel)) in Hs;
      [exact Hs| |].
    + clear. intros d2 rel d3 Hs. repeat mstep. apply Ins_insert in Hs.
      unfold synset_relation_row, synset_ref. eval_oks. unfold preq. eval_oks. exact Hs.
    + intros d2 d3 rel Ho. apply synset_relation_row_ext; apply Ho; discriminate.
  - intros d0 d1 ss Ho. unfold synset_relation_rows. apply map_ext. intro rel.
    apply synset_relation_row_ext; apply Ho; discriminate.
Qed.

(* ---------- sense relations ---------- *)
(* the declared relations of the senses, in document order: (sense id, lexicon of the source,
   lexicon of the target, relation) *)
Definition sr_item (lexid : Z) (m : lexidmap_t) (sense relation : val) : senserel :=
  (pv (vreq sense "id"), lexidmap_get m (pv (vreq sense "id")) lexid,
   lexidmap_get m (pv (vreq relation "target")) lexid, relation).
Definition sr_items (L : val) (lexid : Z) (m : lexidmap_t) : list senserel :=
  flat_map (fun e => flat_map (fun s => map (sr_item lexid m s) (vlistk s "relations")) (_senses e))
           (_entries L).
(* the target is one of the senses of the document *)
Definition to_sense (sense_ids : list val) (it : senserel) : bool :=
  existsb (val_eqb (pv (vreq (snd it) "target"))) sense_ids.

Definition classify_rel (lexid : Z) (m : lexidmap_t) (sense_ids synset_ids : list val) (sid : val) (slid : cell)
           (acc : list senserel * list senserel) (relation : val)
  : result (list senserel * list senserel) :=
  target_id <- vreq relation "target" ;;
  let tlid := lexidmap_get m target_id lexid in
  if existsb (val_eqb target_id) sense_ids
  then Ok ((fst acc ++ [(sid, slid, tlid, relation)])%list, snd acc)
  else if existsb (val_eqb target_id) synset_ids
       then Ok (fst acc, (snd acc ++ [(sid, slid, tlid, relation)])%list)
       else WnError.

Lemma classify_rels : forall lexid m sids ssids sense sid rels acc acc',
    vreq sense "id" = Ok sid ->
    foldM (classify_rel lexid m sids ssids sid (lexidmap_get m sid lexid)) rels acc = Ok acc' ->
    acc' = ((fst acc ++ filter (to_sense sids) (map (sr_item lexid m sense) rels))%list,
            (snd acc ++ filter (fun it => negb (to_sense sids it)) (map (sr_item lexid m sense) rels))%list).
Proof.
  intros lexid m sids ssids sense sid rels. induction rels as [|r rels IH]; intros acc acc' Hsid H; simpl in H.
  - injection H as <-. simpl. rewrite !app_nil_r. destruct acc; reflexivity.
  - apply bind_ok in H. destruct H as [acc1 [H1 H2]]. rewrite (IH _ _ Hsid H2). clear IH H2.
    unfold classify_rel in H1. apply bind_ok in H1. destruct H1 as [tg [Htg H1]]. cbv zeta in H1.
    assert (to_sense sids (sr_item lexid m sense r) = existsb (val_eqb tg) sids) as Eto
        by (unfold to_sense, sr_item; cbn [snd]; rewrite Htg; reflexivity).
    assert (sr_item lexid m sense r = (sid, lexidmap_get m sid lexid, lexidmap_get m tg lexid, r)) as Eit
        by (unfold sr_item; rewrite Hsid, Htg; reflexivity).
    change (map (sr_item lexid m sense) (r :: rels))
      with (sr_item lexid m sense r :: map (sr_item lexid m sense) rels).
    cbn [filter]. rewrite Eto.
    destruct (existsb (val_eqb tg) sids).
    + injection H1 as <-. cbn [fst snd negb]. rewrite Eit, <- app_assoc. reflexivity.
    + destruct (existsb (val_eqb tg) ssids); [|discriminate]. injection H1 as <-. cbn [fst snd negb].
      rewrite Eit, <- app_assoc. reflexivity.
Qed.

Definition sense_ids_of (L : val) : list val :=
  match concatM (fun e => mapM (fun s => vreq s "id") (_senses e)) (_entries L) with Ok l => l | _ => [] end.

Lemma filter_flat_map : forall {A B} (p : B -> bool) (f : A -> list B) l,
    filter p (flat_map f l) = flat_map (fun x => filter p (f x)) l.
Proof.
  intros A B p f l. induction l as [|a l IH]; simpl; [reflexivity|]. rewrite filter_app, IH. reflexivity.
Qed.

(* a row of sense_relations / sense_synset_relations *)
Definition srel_row (table : string) (tq : db -> cell -> cell -> cell) (d : db) (lexid : Z) (it : senserel)
  : list cell :=
  let '(sid, slid, tlid, relation) := it in
  coerce_all (data_columns table)
             [CInt lexid; SENSE_QUERY d (pcell (param sid)) slid;
              tq d (pcell (preq relation "target")) tlid;
              RELTYPE_QUERY d (pcell (preq relation "relType")); pcell (preq relation "meta")].

Lemma srel_row_ext : forall table tq d d' lexid it,
    (forall a b, tq d' a b = tq d a b) ->
    get_table d' "senses" = get_table d "senses" ->
    get_table d' "relation_types" = get_table d "relation_types" ->
    srel_row table tq d' lexid it = srel_row table tq d lexid it.
Proof.
  intros table tq d d' lexid [[[sid slid] tlid] rel] Htq H1 H2. unfold srel_row.
  rewrite (SENSE_QUERY_ext d d') by exact H1. rewrite (RELTYPE_QUERY_ext d d') by exact H2.
  rewrite Htq. reflexivity.
Qed.

Theorem ins_insert_sense_relations : forall L lexid m d d',
    _insert_sense_relations L lexid m d = Ok d' ->
    let items := sr_items L lexid m in
    let sids := sense_ids_of L in
    App "sense_relations" d d' (map (srel_row "sense_relations" SENSE_QUERY d lexid)
                                    (filter (to_sense sids) items))
    /\ App "sense_synset_relations" d d'
           (map (srel_row "sense_synset_relations" SYNSET_QUERY d lexid)
                (filter (fun it => negb (to_sense sids it)) items))
    /\ only_changes ["sense_relations"; "sense_synset_relations"] d d'.
Proof.
  intros L lexid m d d' H. pose proof (oc_insert_sense_relations _ _ _ _ _ H) as Hoc.
  unfold _insert_sense_relations in H. cbv zeta in H.
  apply bind_ok in H. destruct H as [ssids [Hss H]]. apply bind_ok in H. destruct H as [sids [Hs H]].
  apply bind_ok in H. destruct H as [[s_s s_ss] [Hcl H]]. apply bind_ok in H. destruct H as [d1 [P1 P2]].
  assert (sense_ids_of L = sids) as Esids by (unfold sense_ids_of; rewrite Hs; reflexivity).
  cbv zeta. rewrite Esids.
  (* the classification *)
  assert (s_s = filter (to_sense sids) (sr_items L lexid m)
          /\ s_ss = filter (fun it => negb (to_sense sids it)) (sr_items L lexid m)) as [-> ->].
  { unfold sr_items. rewrite !filter_flat_map.
    assert (forall es acc acc',
               foldM (fun (acc : list senserel * list senserel) entry =>
                        foldM (fun (acc : list senserel * list senserel) sense =>
                                 sid <- vreq sense "id" ;;
                                 let slid := lexidmap_get m sid lexid in
                                 foldM (classify_rel lexid m sids ssids sid slid) (vlistk sense "relations") acc)
                              (_senses entry) acc) es acc = Ok acc' ->
               acc' = ((fst acc ++ flat_map (fun x => filter (to_sense sids)
                          (flat_map (fun s => map (sr_item lexid m s) (vlistk s "relations")) (_senses x))) es)%list,
                       (snd acc ++ flat_map (fun x => filter (fun it => negb (to_sense sids it))
                          (flat_map (fun s => map (sr_item lexid m s) (vlistk s "relations")) (_senses x))) es)%list))
      as Hgen.
    { induction es as [|e es IHe]; intros acc acc' Hf; simpl in Hf.
      - injection Hf as <-. simpl. rewrite !app_nil_r. destruct acc; reflexivity.
      - apply bind_ok in Hf. destruct Hf as [acc1 [He Hf]]. rewrite (IHe _ _ Hf). clear IHe Hf.
        assert (acc1 = ((fst acc ++ filter (to_sense sids)
                           (flat_map (fun s => map (sr_item lexid m s) (vlistk s "relations")) (_senses e)))%list,
                        (snd acc ++ filter (fun it => negb (to_sense sids it))
                           (flat_map (fun s => map (sr_item lexid m s) (vlistk s "relations")) (_senses e)))%list))
          as ->.
        { revert acc acc1 He. generalize (_senses e) as ss. induction ss as [|s ss IHs]; intros acc acc1 He; simpl in He.
          - injection He as <-. simpl. rewrite !app_nil_r. destruct acc; reflexivity.
          - apply bind_ok in He. destruct He as [acc2 [Hsn He]]. rewrite (IHs _ _ He). clear IHs He.
            apply bind_ok in Hsn. destruct Hsn as [sid [Hsid Hsn]]. cbv zeta in Hsn.
            rewrite (classify_rels _ _ _ _ s sid _ _ _ Hsid Hsn). cbn [fst snd].
            simpl flat_map. rewrite !filter_app, <- !app_assoc. reflexivity. }
        cbn [fst snd]. simpl flat_map. rewrite <- !app_assoc. reflexivity. }
    specialize (Hgen _ _ _ Hcl). cbn [fst snd app] in Hgen. injection Hgen as -> ->. split; reflexivity. }
  (* the two tables *)
  rewrite foldM_concat, batch_concat in P1. rewrite foldM_concat, batch_concat in P2.
  apply (foldM_Ins_map "sense_relations" _ (fun d0 it => srel_row "sense_relations" SENSE_QUERY d0 lexid it)) in P1.
  - apply (foldM_Ins_map "sense_synset_relations" _
             (fun d0 it => srel_row "sense_synset_relations" SYNSET_QUERY d0 lexid it)) in P2.
    + destruct P1 as [A1 O1]. destruct P2 as [A2 O2]. split; [|split; [|exact Hoc]].
      * apply (App_eq_r _ _ d1); [apply O2; discriminate|exact A1].
      * apply (App_eq_l _ d d1); [symmetry; apply O1; discriminate|].
        rewrite (map_ext _ (srel_row "sense_synset_relations" SYNSET_QUERY d1 lexid)); [exact A2|].
        intro it. symmetry. apply srel_row_ext; [intros a b; apply SYNSET_QUERY_ext| |]; apply O1; discriminate.
    + clear. intros d0 [[[sid slid] tlid] rel] d2 Hs. repeat mstep. apply Ins_insert in Hs.
      unfold srel_row. eval_oks. exact Hs.
    + intros d0 d2 it Ho. apply srel_row_ext; [intros a b; apply SYNSET_QUERY_ext| |]; apply Ho; discriminate.
  - clear. intros d0 [[[sid slid] tlid] rel] d2 Hs. repeat mstep. apply Ins_insert in Hs.
    unfold srel_row. eval_oks. exact Hs.
  - intros d0 d2 it Ho. apply srel_row_ext; [intros a b; apply SENSE_QUERY_ext| |]; apply Ho; discriminate.
Qed.

(* ---------- syntactic behaviours ---------- *)
Definition sb_row (lexid : Z) (sb : synbhr) : list cell :=
  coerce_all (data_columns "syntactic_behaviours")
             [pcell (param (if vtruthy (sb_get_id sb) then sb_get_id sb else VNone)); CInt lexid;
              pcell (param (sb_frame sb))].
(* framemap = {sb['subcategorizationFrame']: sb.get('senses', []) for sb in synbhrs} *)
Definition framemap_of (synbhrs : list synbhr) : list (val * list val) :=
  fold_left (fun m sb => dict_set m (sb_frame sb) (sb_senses sb)) synbhrs [].
Definition sb_lookup (d : db) (lexid : Z) (frame : val) : cell :=
  select_rowid d "syntactic_behaviours"
               (fun r => sql_eq (cell_at (col_index "syntactic_behaviours" "lexicon_rowid") r) (CInt lexid)
                         && sql_eq (cell_at (col_index "syntactic_behaviours" "frame") r)
                                   (as_text (pcell (param frame)))).
Definition sbs_row (d : db) (lexid : Z) (m : lexidmap_t) (frame sid : val) : list cell :=
  coerce_all (data_columns "syntactic_behaviour_senses")
             [sb_lookup d lexid frame; SENSE_QUERY d (pcell (param sid)) (lexidmap_get m sid lexid)].
Definition sbs_rows (d : db) (lexid : Z) (m : lexidmap_t) (fs : val * list val) : list (list cell) :=
  map (sbs_row d lexid m (fst fs)) (snd fs).
Lemma sbs_row_ext : forall d d' lexid m frame sid,
    get_table d' "syntactic_behaviours" = get_table d "syntactic_behaviours" ->
    get_table d' "senses" = get_table d "senses" ->
    sbs_row d' lexid m frame sid = sbs_row d lexid m frame sid.
Proof.
  intros d d' lexid m frame sid H1 H2. unfold sbs_row, sb_lookup.
  rewrite (select_rowid_ext d d') by exact H1. rewrite (SENSE_QUERY_ext d d') by exact H2. reflexivity.
Qed.

Theorem ins_insert_syntactic_behaviours : forall sbs lexid m d d',
    _insert_syntactic_behaviours sbs lexid m d = Ok d' ->
    App "syntactic_behaviours" d d' (map (sb_row lexid) sbs)
    /\ App "syntactic_behaviour_senses" d d' (flat_map (sbs_rows d' lexid m) (framemap_of sbs))
    /\ only_changes ["syntactic_behaviours"; "syntactic_behaviour_senses"] d d'.
Proof.
  intros sbs lexid m d d' H. pose proof (oc_insert_syntactic_behaviours _ _ _ _ _ H) as Hoc.
  unfold _insert_syntactic_behaviours in H. cbv zeta in H. fold (framemap_of sbs) in H.
  apply bind_ok in H. destruct H as [d1 [P1 P2]].
  apply (foldM_Ins_map "syntactic_behaviours" _ (fun _ sb => sb_row lexid sb)) in P1.
  - apply (foldM_Ins "syntactic_behaviour_senses" _ (fun d0 fs => sbs_rows d0 lexid m fs)) in P2.
    + destruct P1 as [A1 O1]. destruct P2 as [A2 O2]. split; [|split; [|exact Hoc]].
      * apply (App_eq_r _ _ d1); [apply O2; discriminate|exact A1].
      * apply (App_eq_l _ d d1); [symmetry; apply O1; discriminate|].
        rewrite (flat_map_ext _ (sbs_rows d1 lexid m)); [exact A2|].
        intros [fr sids]. unfold sbs_rows. cbn [fst snd]. apply map_ext. intro sid.
        apply sbs_row_ext; apply O2; discriminate.
    + clear. intros d0 [fr sids] d2 Hs. unfold sbs_rows. cbn [fst snd].
      apply (foldM_Ins_map "syntactic_behaviour_senses" _ (fun d3 sid => sbs_row d3 lexid m fr sid)) in Hs;
        [exact Hs| |].
      * clear. intros d3 sid d4 Hs. repeat mstep. apply Ins_insert in Hs.
        unfold sbs_row, sb_lookup. eval_oks. exact Hs.
      * intros d3 d4 sid Ho. apply sbs_row_ext; apply Ho; discriminate.
    + intros d0 d2 [fr sids] Ho. unfold sbs_rows. cbn [fst snd]. apply map_ext. intro sid.
      apply sbs_row_ext; apply Ho; discriminate.
  - clear. intros d0 sb d2 Hs. repeat mstep. apply Ins_insert in Hs. unfold sb_row. eval_oks. exact Hs.
  - reflexivity.
Qed.

(* ---------- (D6) for one lexicon ---------- *)
Ltac one_inv H :=
  destruct (add_one_lexicon_inv _ _ _ _ H)
    as (d1 & sb & d2 & lexid & extid & m & d3 & d4 & d5 & d6 & d7 & d8 & d9 & d10 & d11 & d12 & d13
        & d14 & d15 & H1 & Hsb & H2 & Hm & H3 & H4 & H5 & H6 & H7 & H8 & H9 & H10 & H11 & H12 & H13
        & H14 & H15 & H16).

Theorem one_lexicon_children : forall nt L d d',
    add_one_lexicon nt L d = Ok d' ->
    exists lexid extid lexidmap synbhrs,
      lexid = next_rowid (get_table d "lexicons")
      /\ _build_lexid_map L lexid extid = Ok lexidmap
      /\ _collect_frames L = Ok synbhrs
      /\ App "counts" d d' (flat_map (entry_count_rows d' lexid lexidmap) (_entries L))
      /\ App "adjpositions" d d' (flat_map (adjposition_rows d' lexid lexidmap) (_entries L))
      /\ App "sense_examples" d d'
             (flat_map (sense_example_rows d' lexid lexidmap) (flat_map _senses (_entries L)))
      /\ App "synset_examples" d d' (flat_map (synset_example_rows d' lexid lexidmap) (_synsets L))
      /\ App "definitions" d d' (flat_map (definition_rows d' lexid lexidmap) (_synsets L))
      /\ App "synset_relations" d d' (flat_map (synset_relation_rows d' lexid lexidmap) (_synsets L))
      /\ App "sense_relations" d d'
             (map (srel_row "sense_relations" SENSE_QUERY d' lexid)
                  (filter (to_sense (sense_ids_of L)) (sr_items L lexid lexidmap)))
      /\ App "sense_synset_relations" d d'
             (map (srel_row "sense_synset_relations" SYNSET_QUERY d' lexid)
                  (filter (fun it => negb (to_sense (sense_ids_of L) it)) (sr_items L lexid lexidmap)))
      /\ App "syntactic_behaviours" d d' (map (sb_row lexid) synbhrs)
      /\ App "syntactic_behaviour_senses" d d' (flat_map (sbs_rows d' lexid lexidmap) (framemap_of synbhrs)).
Proof.
  intros nt L d d' H. one_inv H.
  destruct (app_insert_lexicon _ _ _ _ _ H2) as [_ Hlex].
  destruct (ins_insert_counts _ _ _ _ _ H10) as [Acnt _].
  destruct (ins_insert_adjpositions _ _ _ _ _ H9) as [Aadj _].
  destruct (ins_insert_sense_examples _ _ _ _ _ H15) as [Asex _].
  destruct (ins_insert_synset_examples _ _ _ _ _ H16) as [Assx _].
  destruct (ins_insert_synset_definitions _ _ _ _ _ H14) as [Adef _].
  destruct (ins_insert_synset_relations _ _ _ _ _ H12) as [Asr _].
  destruct (ins_insert_sense_relations _ _ _ _ _ H13) as (Asn1 & Asn2 & _). cbv zeta in Asn1, Asn2.
  destruct (ins_insert_syntactic_behaviours _ _ _ _ _ H11) as (Asb1 & Asb2 & _).
  oc_facts.
  exists lexid, extid, m, sb. split; [rewrite Hlex; tbl_eq "lexicons"; reflexivity|].
  split; [exact Hm|]. split; [exact Hsb|].
  repeat split.
  - rewrite (flat_map_ext _ (entry_count_rows d9 lexid m)).
    + unfold App in *. tbl_eq "counts". rewrite Acnt. tbl_eq "counts". reflexivity.
    + intro e. unfold entry_count_rows. apply flat_map_ext. intro s. apply map_ext. intro c.
      apply count_row_ext. tbl_eq "senses". reflexivity.
  - rewrite (flat_map_ext _ (adjposition_rows d8 lexid m)).
    + unfold App in *. tbl_eq "adjpositions". rewrite Aadj. tbl_eq "adjpositions". reflexivity.
    + intro e. apply adjposition_rows_ext. tbl_eq "senses". reflexivity.
  - rewrite (flat_map_ext _ (sense_example_rows d14 lexid m)).
    + unfold App in *. tbl_eq "sense_examples". rewrite Asex. tbl_eq "sense_examples". reflexivity.
    + intro s. unfold sense_example_rows. rewrite (sense_ref_ext d14 d'); [reflexivity|].
      tbl_eq "senses". reflexivity.
  - rewrite (flat_map_ext _ (synset_example_rows d15 lexid m)).
    + unfold App in *. rewrite Assx. tbl_eq "synset_examples". reflexivity.
    + intro s. unfold synset_example_rows. rewrite (synset_ref_ext d15 d'); [reflexivity|].
      tbl_eq "synsets". reflexivity.
  - rewrite (flat_map_ext _ (definition_rows d13 lexid m)).
    + unfold App in *. tbl_eq "definitions". rewrite Adef. tbl_eq "definitions". reflexivity.
    + intro s. unfold definition_rows. apply map_ext. intro df.
      apply definition_row_ext; [tbl_eq "synsets"|tbl_eq "senses"]; reflexivity.
  - rewrite (flat_map_ext _ (synset_relation_rows d11 lexid m)).
    + unfold App in *. tbl_eq "synset_relations". rewrite Asr. tbl_eq "synset_relations". reflexivity.
    + intro s. unfold synset_relation_rows. apply map_ext. intro rel.
      apply synset_relation_row_ext; [tbl_eq "synsets"|tbl_eq "relation_types"]; reflexivity.
  - rewrite (map_ext _ (srel_row "sense_relations" SENSE_QUERY d12 lexid)).
    + unfold App in *. tbl_eq "sense_relations". rewrite Asn1. tbl_eq "sense_relations". reflexivity.
    + intro it. apply srel_row_ext;
        [intros a b; apply SENSE_QUERY_ext; tbl_eq "senses"; reflexivity
        |tbl_eq "senses"; reflexivity|tbl_eq "relation_types"; reflexivity].
  - rewrite (map_ext _ (srel_row "sense_synset_relations" SYNSET_QUERY d12 lexid)).
    + unfold App in *. tbl_eq "sense_synset_relations". rewrite Asn2. tbl_eq "sense_synset_relations".
      reflexivity.
    + intro it. apply srel_row_ext;
        [intros a b; apply SYNSET_QUERY_ext; tbl_eq "synsets"; reflexivity
        |tbl_eq "senses"; reflexivity|tbl_eq "relation_types"; reflexivity].
  - unfold App in *. tbl_eq "syntactic_behaviours". rewrite Asb1. tbl_eq "syntactic_behaviours". reflexivity.
  - rewrite (flat_map_ext _ (sbs_rows d11 lexid m)).
    + unfold App in *. tbl_eq "syntactic_behaviour_senses". rewrite Asb2.
      tbl_eq "syntactic_behaviour_senses". reflexivity.
    + intros [fr sids]. unfold sbs_rows. cbn [fst snd]. apply map_ext. intro sid.
      apply sbs_row_ext; [tbl_eq "syntactic_behaviours"|tbl_eq "senses"]; reflexivity.
Qed.

(* ====================================================================== *)
(* Reading the statements                                                  *)
(* ====================================================================== *)
(* the rows above carry the rowid of their lexicon *)
Lemma entry_row_lexicon : forall lexid e k0,
    col "entries" "lexicon_rowid" (CInt k0 :: entry_row lexid e) = CInt lexid.
Proof. reflexivity. Qed.
Lemma synset_row_lexicon : forall d lexid ss k0,
    col "synsets" "lexicon_rowid" (CInt k0 :: synset_row d lexid ss) = CInt lexid.
Proof. reflexivity. Qed.
Lemma sense_row_lexicon : forall d lexid m sr e is k0,
    col "senses" "lexicon_rowid" (CInt k0 :: sense_row d lexid m sr e is) = CInt lexid.
Proof. intros d lexid m sr e [i s] k0. reflexivity. Qed.
Lemma sense_row_ranks : forall d lexid m sr e i s k0,
    col "senses" "entry_rank" (CInt k0 :: sense_row d lexid m sr e (i, s)) = CInt i
    /\ col "senses" "synset_rank" (CInt k0 :: sense_row d lexid m sr e (i, s))
       = CInt (match dict_get sr (pv (vreq s "id")) with Some r => r | None => DEFAULT_MEMBER_RANK end)
    /\ col "senses" "entry_rowid" (CInt k0 :: sense_row d lexid m sr e (i, s)) = entry_ref d lexid m e
    /\ col "senses" "synset_rowid" (CInt k0 :: sense_row d lexid m sr e (i, s))
       = SYNSET_QUERY d (pcell (preq s "synset")) (lexidmap_get m (pv (vreq s "synset")) lexid).
Proof.
  intros. unfold sense_row, sense_cells, entry_ref. repeat split; try reflexivity.
  - unfold col. simpl. destruct (ENTRY_QUERY d _ _); reflexivity.
  - unfold col. simpl. destruct (SYNSET_QUERY d _ _); reflexivity.
Qed.
Lemma form_rows_ranks : forall d nt lexid m e i f k0,
    col "forms" "rank" (CInt k0 :: lemma_form_row d nt lexid m e) = CInt 0
    /\ col "forms" "rank" (CInt k0 :: other_form_row d nt lexid m e (i, f)) = CInt i.
Proof. intros. split; reflexivity. Qed.

(* in terms of [new_rows] *)
Corollary one_lexicon_new_entries : forall nt L d d',
    add_one_lexicon nt L d = Ok d' ->
    new_rows "entries" d d'
    = number_from (next_rowid (get_table d "entries"))
                  (map (entry_row (next_rowid (get_table d "lexicons"))) (_local_entries (_entries L))).
Proof. intros nt L d d' H. apply App_new_rows. eapply one_lexicon_entries. exact H. Qed.

(* a resource with one lexicon that is not skipped *)
Corollary add_single_lexicon_entries : forall d r nt d' L skipmap,
    add_lexical_resource d r nt = Ok d' -> vreq r "lexicons" = Ok (VList [L]) ->
    _precheck [L] d = Ok skipmap -> not_skipped skipmap L = true ->
    new_rows "lexicons" d d' = number_from (next_rowid (get_table d "lexicons")) [lexicon_row L]
    /\ new_rows "entries" d d'
       = number_from (next_rowid (get_table d "entries"))
                     (map (entry_row (next_rowid (get_table d "lexicons"))) (_local_entries (_entries L))).
Proof.
  intros d r nt d' L skipmap H Hr Hp Hns.
  destruct (add_single_lexicon d r nt d' L H Hr) as [sk [Hp' Hadd]].
  rewrite Hp in Hp'. injection Hp' as <-. specialize (Hadd Hns). split.
  - apply App_new_rows. eapply one_lexicon_lexicons. exact Hadd.
  - apply one_lexicon_new_entries with (nt := nt). exact Hadd.
Qed.

(* the statements on an example: the lexicon of AddProofs.ex_lexicon added to AddProofs.ex_db *)
Example ex_content :
  match add_one_lexicon [] (ex_lexicon "ba" []) ex_db with
  | Ok d' =>
      new_rows "lexicons" ex_db d'
      = [[CInt 1; CText (k "ba"); CText (k "Label"); CText (k "en"); CText (k "a@b.c"); CText (k "CC");
          CText (k "1"); CNull; CNull; CNull; CNull; CInt 0]]
      /\ new_rows "entries" ex_db d' = [[CInt 1; CText (k "e1"); CInt 1; CText (k "n"); CNull]]
      /\ new_rows "forms" ex_db d'
         = [[CInt 1; CNull; CInt 1; CInt 1; CText (k "cat"); CNull; CNull; CInt 0]]
      /\ new_rows "synsets" ex_db d'
         = [[CInt 1; CText (k "ss1"); CInt 1; CInt 1; CText (k "n"); CInt 1; CNull; CNull]]
      /\ new_rows "senses" ex_db d'
         = [[CInt 1; CText (k "s1"); CInt 1; CInt 1; CInt 0; CInt 1; CInt 127; CInt 1; CNull]]
      /\ new_rows "definitions" ex_db d'
         = [[CInt 1; CInt 1; CInt 1; CText (k "a cat"); CNull; CInt 1; CNull]]
  | _ => False
  end.
Proof. vm_compute. repeat split. Qed.

(* ====================================================================== *)
Print Assumptions add_lexicons_rows.
Print Assumptions add_resource_lexicon.
Print Assumptions add_single_lexicon.
Print Assumptions one_lexicon_lexicons.
Print Assumptions one_lexicon_entries.
Print Assumptions one_lexicon_forms.
Print Assumptions one_lexicon_synsets.
Print Assumptions one_lexicon_senses.
Print Assumptions one_lexicon_children.
Print Assumptions ins_insert_sense_relations.
Print Assumptions ins_insert_syntactic_behaviours.
Print Assumptions add_single_lexicon_entries.
