(* Proofs/IcLoad.v — what wn.ic.load stores (model: Model/Ic.v, load_entry): a synset gets the
   weight of the last line naming it (0 when none does), a class total is the sum of the weights
   of the lines marked ROOT of that class, and nothing else contributes. *)
From Coq Require Import ZArith QArith List Bool Lia Lqa.
Import ListNotations.
Require Import WnV.Base.Sx WnV.Model.Taxonomy WnV.Model.Ic WnV.Proofs.IcProofs.

Lemma load_syn_fold : forall cls t lines acc,
    fold_left (fun a l => if line_names cls t l then line_weight l else a) lines acc
    = match find (line_names cls t) (rev lines) with
      | Some l => line_weight l
      | None => acc
      end.
Proof.
  intros cls t lines. induction lines as [|l lines IH] using rev_ind; intros acc.
  - reflexivity.
  - rewrite fold_left_app. rewrite rev_app_distr. cbn [rev app fold_left find].
    destruct (line_names cls t l); [reflexivity|]. apply IH.
Qed.

(* the weight of a synset is that of the LAST line naming it, 0 when no line does *)
Theorem load_syn_last : forall cls lines t,
    load_entry cls lines (Syn t)
    = match find (line_names cls t) (rev lines) with
      | Some l => line_weight l
      | None => 0
      end.
Proof. intros cls lines t. unfold load_entry. apply load_syn_fold. Qed.

Theorem load_syn_unlisted : forall cls lines t,
    (forall l, In l lines -> line_names cls t l = false) ->
    load_entry cls lines (Syn t) = 0.
Proof.
  intros cls lines t H. rewrite load_syn_last.
  destruct (find (line_names cls t) (rev lines)) as [l|] eqn:Hf; [|reflexivity].
  apply find_some in Hf. destruct Hf as [Hin Hn]. apply in_rev in Hin.
  rewrite (H l Hin) in Hn. discriminate.
Qed.

(* a synset named by exactly one line gets that line's weight *)
Theorem load_syn_unique : forall cls pre l post t,
    line_names cls t l = true ->
    (forall l', In l' post -> line_names cls t l' = false) ->
    load_entry cls (pre ++ l :: post) (Syn t) = line_weight l.
Proof.
  intros cls pre l post t Hl Hpost. rewrite load_syn_last.
  rewrite rev_app_distr. cbn [rev]. rewrite <- app_assoc. cbn [app].
  assert (Hnone : forall rest, find (line_names cls t) (rev post ++ rest) = find (line_names cls t) rest).
  { intros rest. assert (Hr : forall l', In l' (rev post) -> line_names cls t l' = false)
      by (intros l' Hin; apply Hpost; apply in_rev; exact Hin).
    induction (rev post) as [|a r IHr]; [reflexivity|].
    cbn [app find]. rewrite (Hr a (or_introl eq_refl)). apply IHr.
    intros l' Hin. apply Hr. right. exact Hin. }
  rewrite Hnone. cbn [find]. rewrite Hl. reflexivity.
Qed.

Lemma load_total_fold : forall c lines acc,
    fold_left (fun a l => if line_root_of c l then a + line_weight l else a) lines acc
    == acc + sumQ (map line_weight (filter (line_root_of c) lines)).
Proof.
  intros c lines. induction lines as [|l lines IH]; intros acc.
  - cbn [fold_left filter map]. unfold sumQ. simpl. ring.
  - cbn [fold_left filter]. destruct (line_root_of c l).
    + rewrite IH. cbn [map]. change (sumQ (?a :: ?m)) with (a + sumQ m). ring.
    + apply IH.
Qed.

(* a class total is the sum of the weights of that class's ROOT lines; other lines add nothing *)
Theorem load_total_is_root_sum : forall cls lines c,
    load_entry cls lines (Total c) == sumQ (map line_weight (filter (line_root_of c) lines)).
Proof.
  intros cls lines c. unfold load_entry. rewrite load_total_fold. ring.
Qed.

Theorem load_total_no_roots : forall cls lines c,
    (forall l, In l lines -> line_root_of c l = false) ->
    load_entry cls lines (Total c) == 0.
Proof.
  intros cls lines c H. rewrite load_total_is_root_sum.
  assert (Hf : filter (line_root_of c) lines = []).
  { induction lines as [|l lines IH]; [reflexivity|].
    cbn [filter]. rewrite (H l (or_introl eq_refl)). apply IH.
    intros l' Hin. apply H. right. exact Hin. }
  rewrite Hf. reflexivity.
Qed.
