(* CoreLemmas.v — generic facts about the relational toolkit of Model/Tables.v used by the
   proofs about Model/Query.v and Model/Core.v. *)
From Coq Require Import ZArith List Bool Lia.
Import ListNotations.
Require Import WnV.Base.Sx WnV.Model.Spec WnV.Model.Tables WnV.Model.Query WnV.Model.Core.
Local Open Scope Z_scope.

(* ---------- membership tests ---------- *)
Lemma z_in_In : forall x l, z_in x l = true <-> In x l.
Proof.
  intros x l. unfold z_in. rewrite existsb_exists. split.
  - intros [y [Hy He]]. apply Z.eqb_eq in He. subst. exact Hy.
  - intro H. exists x. split; [exact H | apply Z.eqb_refl].
Qed.

Lemma oz_in_In : forall x l, oz_in x l = true <-> exists z, x = Some z /\ In z l.
Proof.
  intros [z|] l; simpl.
  - rewrite z_in_In. split.
    + intro H. exists z. split; [reflexivity | exact H].
    + intros [z' [E H]]. injection E as ->. exact H.
  - split; [discriminate | intros [z [E _]]; discriminate].
Qed.

Lemma str_in_In : forall x l, str_in x l = true <-> In x l.
Proof. intros. unfold str_in. apply str_mem_In. Qed.

Lemma ostr_eqb_eq : forall a b, ostr_eqb a b = true <-> a = b.
Proof.
  intros [a|] [b|]; simpl; split; intro H; try discriminate; try reflexivity.
  - apply str_eqb_eq in H. subst. reflexivity.
  - injection H as ->. apply str_eqb_refl.
Qed.

Lemma oz_eqb_eq : forall a b, oz_eqb a b = true <-> a = b.
Proof.
  intros [a|] [b|]; simpl; split; intro H; try discriminate; try reflexivity.
  - apply Z.eqb_eq in H. subst. reflexivity.
  - injection H as ->. apply Z.eqb_refl.
Qed.

Lemma oz_is_eq : forall a x, oz_is a x = true <-> a = Some x.
Proof.
  intros [a|] x; simpl; split; intro H; try discriminate.
  - apply Z.eqb_eq in H. subst. reflexivity.
  - injection H as ->. apply Z.eqb_refl.
Qed.

Lemma ostr_is_eq : forall a x, ostr_is a x = true <-> a = Some x.
Proof.
  intros [a|] x; simpl; split; intro H; try discriminate.
  - apply str_eqb_eq in H. subst. reflexivity.
  - injection H as ->. apply str_eqb_refl.
Qed.

Lemma nonempty_true : forall T (l : list T), nonempty l = true <-> l <> [].
Proof. intros T [|x l]; simpl; split; intro H; try discriminate; try reflexivity; congruence. Qed.

(* ---------- find_by ---------- *)
Lemma find_by_Some : forall T (key : T -> Z) k l x,
  find_by key k l = Some x -> In x l /\ key x = k.
Proof.
  intros T key k l. induction l as [|y l IH]; intros x H; simpl in H.
  - discriminate.
  - destruct (Z.eqb (key y) k) eqn:E.
    + injection H as ->. apply Z.eqb_eq in E. split; [left; reflexivity | exact E].
    + destruct (IH x H) as [Hin Hk]. split; [right; exact Hin | exact Hk].
Qed.

Lemma ofind_by_Some : forall T (key : T -> Z) k l x,
  ofind_by key k l = Some x -> In x l /\ k = Some (key x).
Proof.
  intros T key [k|] l x H; simpl in H; [|discriminate].
  apply find_by_Some in H. destruct H as [Hin Hk]. split; [exact Hin | rewrite Hk; reflexivity].
Qed.

(* keys are unique in l: the row with a given key is found *)
Definition unique_keys {T} (key : T -> Z) (l : list T) : Prop := NoDup (map key l).

Lemma find_by_unique : forall T (key : T -> Z) l x,
  unique_keys key l -> In x l -> find_by key (key x) l = Some x.
Proof.
  intros T key l. induction l as [|y l IH]; intros x Hu Hin; simpl.
  - destruct Hin.
  - unfold unique_keys in Hu. simpl in Hu. inversion Hu as [|k ks Hnot Hnd]. subst.
    destruct Hin as [->|Hin].
    + rewrite Z.eqb_refl. reflexivity.
    + destruct (Z.eqb (key y) (key x)) eqn:E.
      * apply Z.eqb_eq in E. exfalso. apply Hnot. rewrite E. apply in_map. exact Hin.
      * apply IH; assumption.
Qed.

Lemma unique_keys_inj : forall T (key : T -> Z) l x y,
  unique_keys key l -> In x l -> In y l -> key x = key y -> x = y.
Proof.
  intros T key l x y Hu Hx Hy E.
  pose proof (find_by_unique T key l x Hu Hx) as Fx.
  pose proof (find_by_unique T key l y Hu Hy) as Fy.
  rewrite E in Fx. rewrite Fx in Fy. injection Fy as ->. reflexivity.
Qed.

(* ---------- somes ---------- *)
Lemma somes_In : forall T (l : list (option T)) x, In x (somes l) <-> In (Some x) l.
Proof.
  intros T l x. induction l as [|[y|] l IH]; simpl.
  - tauto.
  - rewrite IH. split.
    + intros [->|H]; [left; reflexivity | right; exact H].
    + intros [E|H]; [injection E as ->; left; reflexivity | right; exact H].
  - rewrite IH. split; [intro H; right; exact H | intros [E|H]; [discriminate | exact H]].
Qed.

(* ---------- dedup ---------- *)
Lemma dedup_aux_In : forall T (eqb : T -> T -> bool) l seen x,
  In x (dedup_aux eqb seen l) -> In x l.
Proof.
  intros T eqb l. induction l as [|y l IH]; intros seen x H; simpl in H.
  - destruct H.
  - destruct (existsb (eqb y) seen).
    + right. apply (IH seen). exact H.
    + destruct H as [->|H]; [left; reflexivity | right; apply (IH (y :: seen)); exact H].
Qed.

Lemma dedup_In : forall T (eqb : T -> T -> bool) l x, In x (dedup eqb l) -> In x l.
Proof. intros T eqb l x. unfold dedup. apply dedup_aux_In. Qed.

(* every element of l has an eqb-equal representative among seen or in the result *)
Lemma dedup_aux_complete : forall T (eqb : T -> T -> bool),
  (forall a, eqb a a = true) ->
  forall l seen x, In x l ->
    existsb (eqb x) seen = true \/ exists y, In y (dedup_aux eqb seen l) /\ eqb x y = true.
Proof.
  intros T eqb Hrefl l. induction l as [|y l IH]; intros seen x Hin; simpl.
  - destruct Hin.
  - destruct Hin as [->|Hin].
    + destruct (existsb (eqb x) seen) eqn:E.
      * left. reflexivity.
      * right. exists x. split; [left; reflexivity | apply Hrefl].
    + destruct (existsb (eqb y) seen) eqn:E.
      * apply IH. exact Hin.
      * destruct (IH (y :: seen) x Hin) as [H|[z [Hz Hez]]].
        -- simpl in H. apply orb_true_iff in H. destruct H as [H|H].
           ++ right. exists y. split; [left; reflexivity | exact H].
           ++ left. exact H.
        -- right. exists z. split; [right; exact Hz | exact Hez].
Qed.

Lemma dedup_complete : forall T (eqb : T -> T -> bool),
  (forall a, eqb a a = true) ->
  forall l x, In x l -> exists y, In y (dedup eqb l) /\ eqb x y = true.
Proof.
  intros T eqb Hrefl l x Hin. unfold dedup.
  destruct (dedup_aux_complete T eqb Hrefl l [] x Hin) as [H|H]; [discriminate | exact H].
Qed.

(* no two elements of the result are eqb-equal: a later one is never equal to an earlier one *)
Inductive nodup_by {T} (eqb : T -> T -> bool) : list T -> Prop :=
| nodup_by_nil : nodup_by eqb []
| nodup_by_cons : forall x l, (forall y, In y l -> eqb y x = false) -> nodup_by eqb l ->
                              nodup_by eqb (x :: l).

Lemma dedup_aux_nodup : forall T (eqb : T -> T -> bool) l seen,
  nodup_by eqb (dedup_aux eqb seen l)
  /\ (forall y, In y (dedup_aux eqb seen l) -> existsb (eqb y) seen = false).
Proof.
  intros T eqb l. induction l as [|x l IH]; intros seen; simpl.
  - split; [constructor | intros y []].
  - destruct (existsb (eqb x) seen) eqn:E.
    + apply IH.
    + destruct (IH (x :: seen)) as [Hnd Hseen]. split.
      * constructor; [|exact Hnd].
        intros y Hy. specialize (Hseen y Hy). simpl in Hseen.
        apply orb_false_iff in Hseen. destruct Hseen as [H _]. exact H.
      * intros y [->|Hy]; [exact E|].
        specialize (Hseen y Hy). simpl in Hseen. apply orb_false_iff in Hseen.
        destruct Hseen as [_ H]. exact H.
Qed.

Lemma dedup_nodup : forall T (eqb : T -> T -> bool) l, nodup_by eqb (dedup eqb l).
Proof. intros T eqb l. unfold dedup. apply (dedup_aux_nodup T eqb l []). Qed.

(* a list without eqb-duplicates is left unchanged *)
Lemma dedup_aux_id : forall T (eqb : T -> T -> bool) l seen,
  nodup_by eqb l -> (forall y, In y l -> existsb (eqb y) seen = false) ->
  dedup_aux eqb seen l = l.
Proof.
  intros T eqb l. induction l as [|x l IH]; intros seen Hnd Hseen; simpl.
  - reflexivity.
  - rewrite (Hseen x (or_introl eq_refl)). f_equal.
    inversion Hnd as [|x' l' Hx Hl]. subst. apply IH; [exact Hl|].
    intros y Hy. simpl. rewrite (Hx y Hy). simpl. apply Hseen. right. exact Hy.
Qed.

Lemma dedup_id : forall T (eqb : T -> T -> bool) l, nodup_by eqb l -> dedup eqb l = l.
Proof. intros T eqb l H. unfold dedup. apply dedup_aux_id; [exact H | intros y _; reflexivity]. Qed.

(* ---------- stable_sort ---------- *)
Lemma insert_sorted_In : forall T (le : T -> T -> bool) l x y,
  In y (insert_sorted le x l) <-> y = x \/ In y l.
Proof.
  intros T le l x y. induction l as [|z l IH]; simpl.
  - split; [intros [->|[]]; left; reflexivity | intros [->|[]]; left; reflexivity].
  - destruct (le x z); simpl.
    + split; [intros [->|H]; [left; reflexivity | right; exact H]
             | intros [->|H]; [left; reflexivity | right; exact H]].
    + rewrite IH. split.
      * intros [->|[->|H]]; [right; left; reflexivity | left; reflexivity | right; right; exact H].
      * intros [->|[->|H]]; [right; left; reflexivity | left; reflexivity | right; right; exact H].
Qed.

Lemma stable_sort_In : forall T (le : T -> T -> bool) l y, In y (stable_sort le l) <-> In y l.
Proof.
  intros T le l y. induction l as [|x l IH]; simpl.
  - tauto.
  - rewrite insert_sorted_In, IH. split; intros [H|H]; auto.
Qed.

Lemma sort_by_z_In : forall T (key : T -> Z) l y, In y (sort_by_z key l) <-> In y l.
Proof. intros. unfold sort_by_z. apply stable_sort_In. Qed.
Lemma sort_by_oz_In : forall T (key : T -> option Z) l y, In y (sort_by_oz key l) <-> In y l.
Proof. intros. unfold sort_by_oz. apply stable_sort_In. Qed.

(* ---------- results ---------- *)
Lemma bind_Ok : forall T U (r : res T) (f : T -> res U) y,
  bind r f = Ok y -> exists x, r = Ok x /\ f x = Ok y.
Proof. intros T U [x| | |] f y H; simpl in H; try discriminate. exists x. split; [reflexivity | exact H]. Qed.

Lemma mapM_Ok : forall T U (f : T -> res U) l ys,
  mapM f l = Ok ys -> Forall2 (fun x y => f x = Ok y) l ys.
Proof.
  intros T U f l. induction l as [|x l IH]; intros ys H; simpl in H.
  - injection H as <-. constructor.
  - apply bind_Ok in H. destruct H as [y [Hy H]].
    apply bind_Ok in H. destruct H as [ys' [Hys H]]. injection H as <-.
    constructor; [exact Hy | apply IH; exact Hys].
Qed.

Lemma mapM_Ok_In : forall T U (f : T -> res U) l ys y,
  mapM f l = Ok ys -> In y ys -> exists x, In x l /\ f x = Ok y.
Proof.
  intros T U f l ys y H Hin. apply mapM_Ok in H.
  induction H as [|x y' l ys Hxy HF IH].
  - destruct Hin.
  - destruct Hin as [->|Hin].
    + exists x. split; [left; reflexivity | exact Hxy].
    + destruct (IH Hin) as [x' [Hx' Hf]]. exists x'. split; [right; exact Hx' | exact Hf].
Qed.

Lemma mapM_Ok_In_l : forall T U (f : T -> res U) l ys x,
  mapM f l = Ok ys -> In x l -> exists y, In y ys /\ f x = Ok y.
Proof.
  intros T U f l ys x H Hin. apply mapM_Ok in H.
  induction H as [|x' y' l ys Hxy HF IH].
  - destruct Hin.
  - destruct Hin as [->|Hin].
    + exists y'. split; [left; reflexivity | exact Hxy].
    + destruct (IH Hin) as [y [Hy Hf]]. exists y. split; [right; exact Hy | exact Hf].
Qed.

Lemma mapM_map : forall T U (f : T -> U) l, mapM (fun x => Ok (f x)) l = Ok (map f l).
Proof. intros T U f l. induction l as [|x l IH]; simpl; [reflexivity | rewrite IH; reflexivity]. Qed.

Lemma flat_mapM_Ok_In : forall T U (f : T -> res (list U)) l ys y,
  flat_mapM f l = Ok ys -> In y ys -> exists x zs, In x l /\ f x = Ok zs /\ In y zs.
Proof.
  intros T U f l ys y H Hin. unfold flat_mapM in H.
  apply bind_Ok in H. destruct H as [ls [Hls H]]. injection H as <-.
  apply in_concat in Hin. destruct Hin as [zs [Hzs Hy]].
  destruct (mapM_Ok_In T (list U) f l ls zs Hls Hzs) as [x [Hx Hf]].
  exists x, zs. split; [exact Hx | split; [exact Hf | exact Hy]].
Qed.

(* ---------- fold_left with an invariant on elements ---------- *)
Lemma in_flat_map_iff : forall A B (f : A -> list B) l y,
  In y (flat_map f l) <-> exists x, In x l /\ In y (f x).
Proof. intros. apply in_flat_map. Qed.
