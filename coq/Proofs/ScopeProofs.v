(* ScopeProofs.v — STAGE S (C04): queries and navigation stay inside the selected lexicons.

   [scope d w l] = Core._get_lexicon_ids d w l is the list of lexicon rowids an entity of lexicon l
   created by Wordnet w may navigate to: the selected lexicons when w is not in default mode,
   {l} + extension bases of l + extensions of l in default mode.
   Part 1: every navigation method, for every Wordnet (any mode), returns entities whose lexicon is
           in the scope of the receiver (S2 is the default-mode reading, S1 the other one).
   Part 2: the Wordnet-level searches of a Wordnet with a non-empty selection return entities of
           the selected lexicons (S1).
   Part 3 (S3, frame) is in FrameProofs.v. *)
From Coq Require Import ZArith List Bool Lia.
Import ListNotations.
Require Import WnV.Base.Sx WnV.Model.Spec WnV.Model.Tables WnV.Model.Query WnV.Model.Core.
Require Import WnV.Proofs.CoreLemmas WnV.Proofs.QueryFacts.
Local Open Scope Z_scope.

Definition scope (d : db) (w : Wordnet) (lexid : Z) : list Z := _get_lexicon_ids d w lexid.

Lemma scope_nondefault : forall d w l, wn_default_mode w = false -> scope d w l = wn_lexicon_ids w.
Proof. intros d w l H. unfold scope, _get_lexicon_ids. rewrite H. reflexivity. Qed.

(* in default mode: own lexicon, extension bases (any depth), extensions (any depth) *)
Lemma scope_default : forall d w l x, wn_default_mode w = true ->
  (In x (scope d w l) <->
   x = l \/ In (Some x) (get_lexicon_extension_bases d l (-1)) \/ In (Some x) (get_lexicon_extensions d l (-1))).
Proof.
  intros d w l x H. unfold scope, _get_lexicon_ids. rewrite H.
  rewrite (dedup_In_iff _ Z.eqb Z.eqb_eq). simpl. rewrite in_app_iff, !somes_In. split.
  - intros [E|[E|E]]; [left; symmetry; exact E | right; left; exact E | right; right; exact E].
  - intros [E|[E|E]]; [left; symmetry; exact E | right; left; exact E | right; right; exact E].
Qed.

(* ================================================================== dictionaries *)
Lemma dict_set_members : forall K V (eqb : K -> K -> bool) k v (m : list (K * V)) kv,
  In kv (dict_set eqb k v m) -> In (fst kv) (k :: map fst m) /\ In (snd kv) (v :: map snd m).
Proof.
  intros K V eqb k v m. induction m as [|[k' v'] m IH]; intros kv H; simpl in H.
  - destruct H as [<-|[]]. simpl. tauto.
  - destruct (eqb k' k).
    + destruct H as [<-|H]; simpl; [tauto|].
      split; right; right; [apply (in_map fst) in H | apply (in_map snd) in H]; exact H.
    + destruct H as [<-|H]; simpl; [tauto|]. destruct (IH kv H) as [[E|H1] [E'|H2]]; simpl; tauto.
Qed.

Lemma dict_of_members : forall K V (eqb : K -> K -> bool) (pairs : list (K * V)) kv,
  In kv (dict_of eqb pairs) -> In (fst kv) (map fst pairs) /\ In (snd kv) (map snd pairs).
Proof.
  intros K V eqb pairs kv. unfold dict_of.
  assert (G : forall m, In kv (fold_left (fun m0 p => dict_set eqb (fst p) (snd p) m0) pairs m) ->
              In (fst kv) (map fst m ++ map fst pairs) /\ In (snd kv) (map snd m ++ map snd pairs)).
  { induction pairs as [|p pairs IH]; intros m H; simpl in H.
    - rewrite !app_nil_r. split; [apply in_map | apply in_map]; exact H.
    - destruct (IH _ H) as [H1 H2]. simpl. split.
      + apply in_app_or in H1. destruct H1 as [H1|H1]; [|apply in_or_app; right; right; exact H1].
        apply in_map_iff in H1. destruct H1 as [kv' [E H1]]. apply dict_set_members in H1.
        destruct H1 as [[E1|H1] _]; rewrite <- E; apply in_or_app; [right; left; exact E1 | left; exact H1].
      + apply in_app_or in H2. destruct H2 as [H2|H2]; [|apply in_or_app; right; right; exact H2].
        apply in_map_iff in H2. destruct H2 as [kv' [E H2]]. apply dict_set_members in H2.
        destruct H2 as [_ [E1|H2]]; rewrite <- E; apply in_or_app; [right; left; exact E1 | left; exact H2]. }
  intro H. apply (G []) in H. simpl in H. exact H.
Qed.

Lemma relmap_add_members : forall T (eqb : T -> T -> bool) name x m n xs y,
  In (n, xs) (relmap_add eqb name x m) -> In y xs ->
  (n = name /\ y = x) \/ exists xs', In (n, xs') m /\ In y xs'.
Proof.
  intros T eqb name x m. induction m as [|[n' xs'] m IH]; intros n xs y H Hy; simpl in H.
  - destruct H as [E|[]]. injection E as <- <-. destruct Hy as [<-|[]]. left. split; reflexivity.
  - destruct (str_eqb n' name) eqn:En.
    + destruct H as [E|H].
      * injection E as <- <-. apply str_eqb_eq in En. destruct (existsb (eqb x) xs').
        -- right. exists xs'. split; [left; reflexivity | exact Hy].
        -- apply in_app_or in Hy. destruct Hy as [Hy|[<-|[]]].
           ++ right. exists xs'. split; [left; reflexivity | exact Hy].
           ++ left. split; [exact En | reflexivity].
      * right. exists xs. split; [right; exact H | exact Hy].
    + destruct H as [E|H].
      * injection E as <- <-. right. exists xs'. split; [left; reflexivity | exact Hy].
      * destruct (IH n xs y H Hy) as [L|[xs0 [H0 Hy0]]]; [left; exact L|].
        right. exists xs0. split; [right; exact H0 | exact Hy0].
Qed.

Lemma relmap_of_members : forall T (eqb : T -> T -> bool) (pairs : list (Relation * T)) n xs y,
  In (n, xs) (relmap_of eqb pairs) -> In y xs -> exists r, In (r, y) pairs /\ rel_name r = n.
Proof.
  intros T eqb pairs n xs y. unfold relmap_of.
  assert (G : forall m xs0, In (n, xs0) (fold_left (fun m0 rx => relmap_add eqb (rel_name (fst rx)) (snd rx) m0) pairs m) ->
              In y xs0 -> (exists xs', In (n, xs') m /\ In y xs') \/ exists r, In (r, y) pairs /\ rel_name r = n).
  { induction pairs as [|[r x] pairs IH]; intros m xs0 H Hy; simpl in H.
    - left. exists xs0. tauto.
    - destruct (IH _ xs0 H Hy) as [[xs' [H' Hy']]|[r0 [H0 E0]]].
      + simpl in H'. destruct (relmap_add_members _ _ _ _ _ _ _ _ H' Hy') as [[-> ->]|L].
        * right. exists r. split; [left; reflexivity | reflexivity].
        * left. exact L.
      + right. exists r0. split; [right; exact H0 | exact E0]. }
  intros H Hy. destruct (G [] xs H Hy) as [[xs' [[] _]]|R]. exact R.
Qed.

(* ================================================================== Part 1: navigation *)
Section Nav.
Variable d : db.

(* --- Word.senses, Synset.senses --- *)
Theorem Word_senses_scope : forall w s, In s (Word_senses d w) ->
  In (sn_lexid s) (scope d (wd_wordnet w) (wd_lexid w)) /\ sn_wordnet s = wd_wordnet w.
Proof.
  intros w s H. unfold Word_senses in H. apply in_map_iff in H. destruct H as [q [<- Hq]].
  unfold get_entry_senses in Hq. apply get_senses_iff in Hq.
  destruct Hq as [s0 [e [ss [_ [Esc [_ Hl]]]]]]. apply sense_columns_Some in Esc.
  destruct Esc as [_ [_ ->]]. simpl. split; [exact Hl | reflexivity].
Qed.

Theorem Synset_senses_scope : forall y s, In s (Synset_senses d y) ->
  In (sn_lexid s) (scope d (ss_wordnet y) (ss_lexid y)) /\ sn_wordnet s = ss_wordnet y.
Proof.
  intros y s H. unfold Synset_senses in H. apply in_map_iff in H. destruct H as [q [<- Hq]].
  unfold get_synset_members in Hq. apply get_senses_iff in Hq.
  destruct Hq as [s0 [e [ss [_ [Esc [_ Hl]]]]]]. apply sense_columns_Some in Esc.
  destruct Esc as [_ [_ ->]]. simpl. split; [exact Hl | reflexivity].
Qed.

(* --- the lexicons that may declare the word / synset of a sense --- *)
Lemma declaring_ids_spec : forall s l, In l (Sense_get_declaring_lexicon_ids d s) ->
  l = NON_ROWID \/ In l (scope d (sn_wordnet s) (sn_lexid s)).
Proof.
  intros s l H. unfold Sense_get_declaring_lexicon_ids in H.
  destruct (wn_default_mode (sn_wordnet s)) eqn:Em.
  - simpl in H. right. apply scope_default; [exact Em|].
    destruct H as [E|H]; [left; symmetry; exact E | right; left; apply somes_In; exact H].
  - match type of H with In l (if nonempty ?f then _ else _) => destruct (nonempty f) eqn:En end.
    + right. rewrite scope_nondefault by exact Em. apply filter_In in H. destruct H as [_ H].
      apply z_in_In. exact H.
    + left. destruct H as [E|[]]. symmetry. exact E.
Qed.

(* --- Sense.word, Sense.synset --- *)
Theorem Sense_word_scope : forall s x, db_ok d = true -> Sense_word d s = Ok x ->
  In (wd_lexid x) (scope d (sn_wordnet s) (sn_lexid s)) /\ wd_wordnet x = sn_wordnet s.
Proof.
  intros s x Hok H. unfold Sense_word in H.
  destruct (find_entries d (Some (sn_entry_id s)) [] None (Sense_get_declaring_lexicon_ids d s) false false)
    as [|q qs] eqn:Ef; [discriminate|]. injection H as <-.
  assert (Hq : In q (find_entries d (Some (sn_entry_id s)) [] None (Sense_get_declaring_lexicon_ids d s) false false))
    by (rewrite Ef; left; reflexivity).
  apply find_entries_sound in Hq. destruct Hq as [[e [He [We Hc]]] _].
  destruct We as [_ [_ [Wl _]]]. simpl. split; [|reflexivity]. rewrite Wl.
  unfold entry_cond in Hc. repeat (apply andb_true_iff in Hc; destruct Hc as [Hc ?]).
  assert (Hne : nonempty (Sense_get_declaring_lexicon_ids d s) = true).
  { unfold Sense_get_declaring_lexicon_ids.
    match goal with |- nonempty (if nonempty ?f then _ else _) = true => destruct (nonempty f) eqn:En; [exact En | reflexivity] end. }
  rewrite Hne in H. apply z_in_In in H. apply declaring_ids_spec in H.
  destruct H as [E|H]; [|exact H]. exfalso. exact (ok_entry_lexid d Hok e He E).
Qed.

Theorem Sense_synset_scope : forall s y, db_ok d = true -> Sense_synset d s = Ok y ->
  In (ss_lexid y) (scope d (sn_wordnet s) (sn_lexid s)) /\ ss_wordnet y = sn_wordnet s.
Proof.
  intros s y Hok H. unfold Sense_synset in H.
  destruct (find_synsets d (Some (sn_synset_id s)) [] None None (Sense_get_declaring_lexicon_ids d s) false false)
    as [|q qs] eqn:Ef; [discriminate|]. injection H as <-.
  assert (Hq : In q (find_synsets d (Some (sn_synset_id s)) [] None None (Sense_get_declaring_lexicon_ids d s) false false))
    by (rewrite Ef; left; reflexivity).
  apply find_synsets_iff in Hq. destruct Hq as [ss [Hss [-> [Hc _]]]].
  simpl. split; [|reflexivity].
  unfold synset_conditions in Hc. repeat (apply andb_true_iff in Hc; destruct Hc as [Hc ?]).
  assert (Hne : nonempty (Sense_get_declaring_lexicon_ids d s) = true).
  { unfold Sense_get_declaring_lexicon_ids.
    match goal with |- nonempty (if nonempty ?f then _ else _) = true => destruct (nonempty f) eqn:En; [exact En | reflexivity] end. }
  rewrite Hne in H. apply z_in_In in H. apply declaring_ids_spec in H.
  destruct H as [E|H]; [|exact H]. exfalso. exact (ok_synset_lexid d Hok ss Hss E).
Qed.

(* --- Word.synsets, Synset.words: each image is in the scope of the sense it comes from --- *)
Theorem Word_synsets_scope : forall w ys y, db_ok d = true -> Word_synsets d w = Ok ys -> In y ys ->
  exists s, In s (Word_senses d w) /\ Sense_synset d s = Ok y
            /\ In (ss_lexid y) (scope d (wd_wordnet w) (sn_lexid s)) /\ ss_wordnet y = wd_wordnet w.
Proof.
  intros w ys y Hok H Hy. unfold Word_synsets in H.
  destruct (mapM_Ok_In _ _ _ _ _ _ H Hy) as [s [Hs Hf]]. exists s. split; [exact Hs|]. split; [exact Hf|].
  destruct (Word_senses_scope w s Hs) as [_ Ew]. destruct (Sense_synset_scope s y Hok Hf) as [Hl Ey].
  rewrite Ew in Hl, Ey. tauto.
Qed.

Theorem Synset_words_scope : forall y xs x, db_ok d = true -> Synset_words d y = Ok xs -> In x xs ->
  exists s, In s (Synset_senses d y) /\ Sense_word d s = Ok x
            /\ In (wd_lexid x) (scope d (ss_wordnet y) (sn_lexid s)) /\ wd_wordnet x = ss_wordnet y.
Proof.
  intros y xs x Hok H Hx. unfold Synset_words in H.
  destruct (mapM_Ok_In _ _ _ _ _ _ H Hx) as [s [Hs Hf]]. exists s. split; [exact Hs|]. split; [exact Hf|].
  destruct (Synset_senses_scope y s Hs) as [_ Ew]. destruct (Sense_word_scope s x Hok Hf) as [Hl Ey].
  rewrite Ew in Hl, Ey. tauto.
Qed.

(* --- sense relations --- *)
Theorem Sense_iter_sense_relations_scope : forall s args pairs r t,
  Sense_iter_sense_relations d s args = Ok pairs -> In (r, t) pairs ->
  In (sn_lexid t) (scope d (sn_wordnet s) (sn_lexid s)) /\ sn_wordnet t = sn_wordnet s.
Proof.
  intros s args pairs r t H Hin. unfold Sense_iter_sense_relations in H.
  apply bind_Ok in H. destruct H as [rows [Hrows H]]. injection H as <-.
  apply in_map_iff in Hin. destruct Hin as [q [E Hq]]. injection E as _ <-.
  apply (proj1 (get_sense_relations_iff _ _ _ _ _ q Hrows)) in Hq.
  destruct Hq as [srel [ty [lex [s0 [q0 [e [ss [_ [_ [_ [_ [_ [_ [Hl [Esc ->]]]]]]]]]]]]]]].
  apply sense_columns_Some in Esc. destruct Esc as [_ [_ ->]]. simpl. split; [exact Hl | reflexivity].
Qed.

Theorem Sense_get_related_scope : forall s args ts t,
  Sense_get_related d s args = Ok ts -> In t ts ->
  In (sn_lexid t) (scope d (sn_wordnet s) (sn_lexid s)) /\ sn_wordnet t = sn_wordnet s.
Proof.
  intros s args ts t H Hin. unfold Sense_get_related in H. apply bind_Ok in H.
  destruct H as [pairs [Hp H]]. injection H as <-. unfold unique_list in Hin. apply dedup_In in Hin.
  apply in_map_iff in Hin. destruct Hin as [[r t0] [E Hin]]. simpl in E. subst t0.
  exact (Sense_iter_sense_relations_scope s args pairs r t Hp Hin).
Qed.

Theorem Sense_relations_scope : forall s args m n ts t,
  Sense_relations d s args = Ok m -> In (n, ts) m -> In t ts ->
  In (sn_lexid t) (scope d (sn_wordnet s) (sn_lexid s)) /\ sn_wordnet t = sn_wordnet s.
Proof.
  intros s args m n ts t H Hm Hin. unfold Sense_relations in H. apply bind_Ok in H.
  destruct H as [pairs [Hp H]]. injection H as <-.
  destruct (relmap_of_members _ _ _ _ _ _ Hm Hin) as [r [Hr _]].
  exact (Sense_iter_sense_relations_scope s args pairs r t Hp Hr).
Qed.

Theorem Sense_relation_map_scope : forall s m r t,
  Sense_relation_map d s = Ok m -> In (r, t) m ->
  In (sn_lexid t) (scope d (sn_wordnet s) (sn_lexid s)) /\ sn_wordnet t = sn_wordnet s.
Proof.
  intros s m r t H Hm. unfold Sense_relation_map in H. apply bind_Ok in H.
  destruct H as [pairs [Hp H]]. injection H as <-.
  apply dict_of_members in Hm. destruct Hm as [_ Hv]. simpl in Hv.
  apply in_map_iff in Hv. destruct Hv as [[r0 t0] [E Hin]]. simpl in E. subst t0.
  exact (Sense_iter_sense_relations_scope s [] pairs r0 t Hp Hin).
Qed.

Theorem Sense_get_related_synsets_scope : forall s args ts t,
  Sense_get_related_synsets d s args = Ok ts -> In t ts ->
  In (ss_lexid t) (scope d (sn_wordnet s) (sn_lexid s)) /\ ss_wordnet t = sn_wordnet s.
Proof.
  intros s args ts t H Hin. unfold Sense_get_related_synsets in H. apply bind_Ok in H.
  destruct H as [pairs [Hp H]]. injection H as <-. unfold unique_list in Hin. apply dedup_In in Hin.
  apply in_map_iff in Hin. destruct Hin as [[r t0] [E Hin]]. simpl in E. subst t0.
  unfold Sense_iter_sense_synset_relations in Hp. apply bind_Ok in Hp.
  destruct Hp as [rows [Hrows Hp]]. injection Hp as <-.
  apply in_map_iff in Hin. destruct Hin as [q [E Hq]]. injection E as _ <-.
  unfold get_sense_synset_relations in Hrows.
  apply (proj1 (synset_target_query_iff _ _ _ _ _ _ q Hrows)) in Hq.
  destruct Hq as [srel [ty [lex [tgt [_ [_ [_ [_ [_ [_ [Hl ->]]]]]]]]]]]. simpl. split; [exact Hl | reflexivity].
Qed.

(* --- synset relations: local --- *)
Theorem Synset_iter_local_relations_scope : forall y args pairs r t,
  Synset_iter_local_relations d y args = Ok pairs -> In (r, t) pairs ->
  In (ss_lexid t) (scope d (ss_wordnet y) (ss_lexid y)) /\ ss_wordnet t = ss_wordnet y.
Proof.
  intros y args pairs r t H Hin. unfold Synset_iter_local_relations in H.
  apply bind_Ok in H. destruct H as [rows [Hrows H]]. injection H as <-.
  apply in_map_iff in Hin. destruct Hin as [q [E Hq]]. injection E as _ <-.
  unfold get_synset_relations in Hrows.
  apply (proj1 (synset_target_query_iff _ _ _ _ _ _ q Hrows)) in Hq.
  destruct Hq as [srel [ty [lex [tgt [_ [_ [_ [_ [_ [_ [Hl ->]]]]]]]]]]]. simpl. split; [exact Hl | reflexivity].
Qed.

(* --- synset relations: expanded.  A target is a synset of the scope of the source, or an
       inferred placeholder (rowid 0, id _INFERRED_SYNSET) carrying the source's lexicon rowid --- *)
Definition expanded_target_ok (y t : Synset) : Prop :=
  (In (ss_lexid t) (scope d (ss_wordnet y) (ss_lexid y))
   \/ (ss__id t = NON_ROWID /\ ss_lexid t = ss_lexid y /\ ss_id t = _INFERRED_SYNSET))
  /\ ss_wordnet t = ss_wordnet y.

Theorem Synset_iter_expanded_relations_scope : forall y args pairs r t,
  Synset_iter_expanded_relations d y args = Ok pairs -> In (r, t) pairs -> expanded_target_ok y t.
Proof.
  intros y args pairs r t H Hin. unfold Synset_iter_expanded_relations in H.
  apply bind_Ok in H. destruct H as [rows [_ H]]. injection H as <-.
  apply in_flat_map in Hin. destruct Hin as [q [_ Hin]].
  destruct (qy_ili (qyr_synset q)) as [ili|]; [|destruct Hin].
  destruct (get_synsets_for_ilis d [ili] (_get_lexicon_ids d (ss_wordnet y) (ss_lexid y))) as [|row rows'] eqn:El.
  - destruct Hin as [E|[]]. injection E as _ <-. unfold expanded_target_ok, Synset_empty. simpl.
    split; [right; repeat split; reflexivity | reflexivity].
  - assert (Hall : forall row0, In row0 (row :: rows') -> expanded_target_ok y (mk_Synset (ss_wordnet y) row0)).
    { intros row0 Hrow. rewrite <- El in Hrow. apply get_synsets_for_ilis_iff in Hrow.
      destruct Hrow as [ss [i [_ [_ [_ [_ [Hl ->]]]]]]]. unfold expanded_target_ok. simpl.
      split; [left; exact Hl | reflexivity]. }
    destruct Hin as [E|Hin].
    + injection E as _ <-. apply Hall. left. reflexivity.
    + apply in_map_iff in Hin. destruct Hin as [row0 [E Hrow]]. injection E as _ <-.
      apply Hall. right. exact Hrow.
Qed.

Theorem Synset_iter_relations_scope : forall y args pairs r t,
  Synset_iter_relations d y args = Ok pairs -> In (r, t) pairs -> expanded_target_ok y t.
Proof.
  intros y args pairs r t H Hin. unfold Synset_iter_relations in H.
  apply bind_Ok in H. destruct H as [loc [Hloc H]]. apply bind_Ok in H. destruct H as [exp [Hexp H]].
  injection H as <-. apply in_app_or in Hin. destruct Hin as [Hin|Hin].
  - destruct (negb (Z.eqb (ss__id y) NON_ROWID)).
    + destruct (Synset_iter_local_relations_scope y args loc r t Hloc Hin) as [H1 H2].
      split; [left; exact H1 | exact H2].
    + injection Hloc as <-. destruct Hin.
  - destruct (ss_ili y) as [i|]; [|injection Hexp as <-; destruct Hin].
    destruct (nonempty (wn_expanded_ids (ss_wordnet y))); [|injection Hexp as <-; destruct Hin].
    exact (Synset_iter_expanded_relations_scope y args exp r t Hexp Hin).
Qed.

Theorem Synset_get_related_scope : forall y args ts t,
  Synset_get_related d y args = Ok ts -> In t ts -> expanded_target_ok y t.
Proof.
  intros y args ts t H Hin. unfold Synset_get_related in H. apply bind_Ok in H.
  destruct H as [pairs [Hp H]]. injection H as <-. unfold unique_list in Hin. apply dedup_In in Hin.
  apply in_map_iff in Hin. destruct Hin as [[r t0] [E Hin]]. simpl in E. subst t0.
  exact (Synset_iter_relations_scope y args pairs r t Hp Hin).
Qed.

Theorem Synset_relations_scope : forall y args m n ts t,
  Synset_relations d y args = Ok m -> In (n, ts) m -> In t ts -> expanded_target_ok y t.
Proof.
  intros y args m n ts t H Hm Hin. unfold Synset_relations in H. apply bind_Ok in H.
  destruct H as [pairs [Hp H]]. injection H as <-.
  destruct (relmap_of_members _ _ _ _ _ _ Hm Hin) as [r [Hr _]].
  exact (Synset_iter_relations_scope y args pairs r t Hp Hr).
Qed.

Theorem Synset_relation_map_scope : forall y m r t,
  Synset_relation_map d y = Ok m -> In (r, t) m -> expanded_target_ok y t.
Proof.
  intros y m r t H Hm. unfold Synset_relation_map in H. apply bind_Ok in H.
  destruct H as [pairs [Hp H]]. injection H as <-.
  apply dict_of_members in Hm. destruct Hm as [_ Hv]. simpl in Hv.
  apply in_map_iff in Hv. destruct Hv as [[r0 t0] [E Hin]]. simpl in E. subst t0.
  exact (Synset_iter_relations_scope y [] pairs r0 t Hp Hin).
Qed.

(* without expand lexicons there are no placeholders: targets are in the scope *)
Theorem Synset_get_related_scope_no_expand : forall y args ts t,
  wn_expanded_ids (ss_wordnet y) = [] ->
  Synset_get_related d y args = Ok ts -> In t ts ->
  In (ss_lexid t) (scope d (ss_wordnet y) (ss_lexid y)) /\ ss_wordnet t = ss_wordnet y.
Proof.
  intros y args ts t Hx H Hin. unfold Synset_get_related in H. apply bind_Ok in H.
  destruct H as [pairs [Hp H]]. injection H as <-. unfold unique_list in Hin. apply dedup_In in Hin.
  apply in_map_iff in Hin. destruct Hin as [[r t0] [E Hin]]. simpl in E. subst t0.
  unfold Synset_iter_relations in Hp. rewrite Hx in Hp. simpl in Hp.
  apply bind_Ok in Hp. destruct Hp as [loc [Hloc Hp]].
  assert (Hexp : (match ss_ili y with Some _ => Ok [] | None => Ok [] end) = @Ok (list (Relation * Synset)) [])
    by (destruct (ss_ili y); reflexivity).
  rewrite Hexp in Hp. simpl in Hp. injection Hp as <-. rewrite app_nil_r in Hin.
  destruct (negb (Z.eqb (ss__id y) NON_ROWID)).
  - exact (Synset_iter_local_relations_scope y args loc r t Hloc Hin).
  - injection Hloc as <-. destruct Hin.
Qed.

End Nav.

(* ================================================================== Part 2: Wordnet-level queries *)
Lemma find_helper_In : forall D C w (cls : Wordnet -> D -> C) key_eqb query form pos x,
  In x (_find_helper w cls key_eqb query form pos) ->
  exists forms' pos' norm q, In q (query forms' pos' norm) /\ x = cls w q.
Proof.
  intros D C w cls key_eqb query form pos x H. unfold _find_helper in H.
  destruct form as [form|].
  - apply dedup_In in H.
    match type of H with In x (if ?c then _ else _) => destruct c end;
      apply in_flat_map in H; destruct H as [[p fs] [_ H]]; apply in_map_iff in H;
      destruct H as [q [E Hq]]; eexists; eexists; eexists; exists q; split; [exact Hq | symmetry; exact E | exact Hq | symmetry; exact E].
  - apply in_map_iff in H. destruct H as [q [E Hq]]. exists [], pos, false, q. split; [exact Hq | symmetry; exact E].
Qed.

Lemma entry_cond_lexicon : forall d id forms pos ids norm saf e,
  entry_cond d id forms pos ids norm saf e = true -> ids <> [] -> In (en_lexicon_rowid e) ids.
Proof.
  intros d id forms pos ids norm saf e H Hne. unfold entry_cond in H.
  repeat (apply andb_true_iff in H; destruct H as [H ?]).
  apply nonempty_true in Hne. rewrite Hne in H0. apply z_in_In. exact H0.
Qed.

Lemma sense_cond_lexicon : forall d id forms pos ids norm saf s e,
  sense_cond d id forms pos ids norm saf s e = true -> ids <> [] -> In (se_lexicon_rowid s) ids.
Proof.
  intros d id forms pos ids norm saf s e H Hne. unfold sense_cond in H.
  repeat (apply andb_true_iff in H; destruct H as [H ?]).
  apply nonempty_true in Hne. rewrite Hne in H0. apply z_in_In. exact H0.
Qed.

Lemma synset_conditions_lexicon : forall d id pos ili ids ss,
  synset_conditions d id pos ili ids ss = true -> ids <> [] -> In (sy_lexicon_rowid ss) ids.
Proof.
  intros d id pos ili ids ss H Hne. unfold synset_conditions in H.
  repeat (apply andb_true_iff in H; destruct H as [H ?]).
  apply nonempty_true in Hne. rewrite Hne in H0. apply z_in_In. exact H0.
Qed.

Section Search.
Variable d : db.

(* words() / senses() / synsets(), with or without form, pos, ili *)
Theorem Wordnet_words_scope : forall w form pos x, wn_lexicon_ids w <> [] ->
  In x (Wordnet_words d w form pos) -> In (wd_lexid x) (wn_lexicon_ids w) /\ wd_wordnet x = w.
Proof.
  intros w form pos x Hne H. unfold Wordnet_words in H. apply find_helper_In in H.
  destruct H as [forms' [pos' [norm [q [Hq ->]]]]]. apply find_entries_sound in Hq.
  destruct Hq as [[e [_ [[_ [_ [Wl _]]] Hc]]] _]. simpl. rewrite Wl.
  split; [exact (entry_cond_lexicon _ _ _ _ _ _ _ _ Hc Hne) | reflexivity].
Qed.

Theorem Wordnet_senses_scope : forall w form pos x, wn_lexicon_ids w <> [] ->
  In x (Wordnet_senses d w form pos) -> In (sn_lexid x) (wn_lexicon_ids w) /\ sn_wordnet x = w.
Proof.
  intros w form pos x Hne H. unfold Wordnet_senses in H. apply find_helper_In in H.
  destruct H as [forms' [pos' [norm [q [Hq ->]]]]]. apply find_senses_iff in Hq.
  destruct Hq as [s [e [ss [_ [Esc Hc]]]]]. apply sense_columns_Some in Esc. destruct Esc as [_ [_ ->]].
  simpl. split; [exact (sense_cond_lexicon _ _ _ _ _ _ _ _ _ Hc Hne) | reflexivity].
Qed.

Theorem Wordnet_synsets_scope : forall w form pos ili x, wn_lexicon_ids w <> [] ->
  In x (Wordnet_synsets d w form pos ili) -> In (ss_lexid x) (wn_lexicon_ids w) /\ ss_wordnet x = w.
Proof.
  intros w form pos ili x Hne H. unfold Wordnet_synsets in H. apply find_helper_In in H.
  destruct H as [forms' [pos' [norm [q [Hq ->]]]]]. apply find_synsets_iff in Hq.
  destruct Hq as [ss [_ [-> [Hc _]]]]. simpl.
  split; [exact (synset_conditions_lexicon _ _ _ _ _ _ Hc Hne) | reflexivity].
Qed.

(* word(id) / sense(id) / synset(id) *)
Theorem Wordnet_word_scope : forall w id x, wn_lexicon_ids w <> [] ->
  Wordnet_word d w id = Ok x ->
  In (wd_lexid x) (wn_lexicon_ids w) /\ wd_wordnet x = w /\ (id <> [] -> wd_id x = id).
Proof.
  intros w id x Hne H. unfold Wordnet_word in H.
  destruct (find_entries d (Some id) [] None (wn_lexicon_ids w) false false) as [|q qs] eqn:Ef; [discriminate|].
  injection H as <-.
  assert (Hq : In q (find_entries d (Some id) [] None (wn_lexicon_ids w) false false)) by (rewrite Ef; left; reflexivity).
  apply find_entries_sound in Hq. destruct Hq as [[e [_ [[Wi [_ [Wl _]]] Hc]]] _]. simpl. rewrite Wl.
  split; [exact (entry_cond_lexicon _ _ _ _ _ _ _ _ Hc Hne)|]. split; [reflexivity|].
  unfold entry_cond in Hc. repeat (apply andb_true_iff in Hc; destruct Hc as [Hc ?]).
  destruct id as [|c id']; [intro C; contradiction | intros _]. simpl in Hc. apply str_eqb_eq in Hc. rewrite Wi. exact Hc.
Qed.

Theorem Wordnet_sense_scope : forall w id x, wn_lexicon_ids w <> [] ->
  Wordnet_sense d w id = Ok x -> In (sn_lexid x) (wn_lexicon_ids w) /\ sn_wordnet x = w.
Proof.
  intros w id x Hne H. unfold Wordnet_sense in H.
  destruct (find_senses d (Some id) [] None (wn_lexicon_ids w) false false) as [|q qs] eqn:Ef; [discriminate|].
  injection H as <-.
  assert (Hq : In q (find_senses d (Some id) [] None (wn_lexicon_ids w) false false)) by (rewrite Ef; left; reflexivity).
  apply find_senses_iff in Hq. destruct Hq as [s [e [ss [_ [Esc Hc]]]]].
  apply sense_columns_Some in Esc. destruct Esc as [_ [_ ->]]. simpl.
  split; [exact (sense_cond_lexicon _ _ _ _ _ _ _ _ _ Hc Hne) | reflexivity].
Qed.

Theorem Wordnet_synset_scope : forall w id x, wn_lexicon_ids w <> [] ->
  Wordnet_synset d w id = Ok x -> In (ss_lexid x) (wn_lexicon_ids w) /\ ss_wordnet x = w.
Proof.
  intros w id x Hne H. unfold Wordnet_synset in H.
  destruct (find_synsets d (Some id) [] None None (wn_lexicon_ids w) false false) as [|q qs] eqn:Ef; [discriminate|].
  injection H as <-.
  assert (Hq : In q (find_synsets d (Some id) [] None None (wn_lexicon_ids w) false false)) by (rewrite Ef; left; reflexivity).
  apply find_synsets_iff in Hq. destruct Hq as [ss [_ [-> [Hc _]]]]. simpl.
  split; [exact (synset_conditions_lexicon _ _ _ _ _ _ Hc Hne) | reflexivity].
Qed.

(* a Wordnet built by the constructor over a database with at least one lexicon selects at least
   one lexicon (so the hypothesis  wn_lexicon_ids w <> []  above holds) *)
Lemma glob_star_unfold : forall p' s,
  glob (c_star :: p') s = glob p' s || match s with [] => false | _ :: s' => glob (c_star :: p') s' end.
Proof. intros p' s. destruct s; reflexivity. Qed.

Lemma glob_colon_colon : forall p' s, glob (c_colon :: p') (c_colon :: s) = glob p' s.
Proof. intros. reflexivity. Qed.

Lemma glob_star_any : forall b, glob [c_star] b = true.
Proof.
  induction b as [|c b IH]; rewrite glob_star_unfold.
  - reflexivity.
  - rewrite IH. apply orb_true_r.
Qed.

Lemma glob_star_colon_star : forall a b, glob [c_star; c_colon; c_star] (a ++ c_colon :: b) = true.
Proof.
  induction a as [|c a IH]; intros b; rewrite glob_star_unfold.
  - simpl app. rewrite glob_colon_colon, glob_star_any. reflexivity.
  - change ((c :: a) ++ c_colon :: b) with (c :: (a ++ c_colon :: b)). cbv iota.
    rewrite IH. apply orb_true_r.
Qed.

Lemma filter_all : forall T (p : T -> bool) l, (forall x, p x = true) -> filter p l = l.
Proof.
  intros T p l H. induction l as [|x l IH]; [reflexivity|].
  change (filter p (x :: l)) with (if p x then x :: filter p l else filter p l). rewrite H, IH. reflexivity.
Qed.

Lemma select_one_star : forall lexs, select_one lexs None [c_star] = lexs.
Proof.
  intro lexs. unfold select_one.
  change (negb (zmem c_colon [c_star]) && negb (has_meta [c_star])) with false.
  change (zmem c_colon [c_star]) with false. cbv iota.
  apply filter_all. intro l. unfold spec_of, lang_ok.
  change ([c_star] ++ [c_colon; c_star]) with [c_star; c_colon; c_star].
  change (lx_id l ++ [c_colon] ++ lx_version l) with (lx_id l ++ c_colon :: lx_version l).
  rewrite glob_star_colon_star. reflexivity.
Qed.

Theorem Wordnet_init_selects : forall lexicon lang expand nz nt lem saf w,
  Wordnet_init d lexicon lang expand nz nt lem saf = Ok w ->
  t_lexicons d <> [] -> wn_lexicon_ids w <> [].
Proof.
  intros lexicon lang expand nz nt lem saf w H Hne Hnil. unfold Wordnet_init in H.
  apply bind_Ok in H. destruct H as [lexs [Hl H]]. apply bind_Ok in H. destruct H as [exps [_ H]].
  injection H as <-. simpl in Hnil.
  unfold find_lexicons in Hl.
  set (lx := match lexicon with Some (c :: s) => c :: s | _ => s_star end) in *.
  destruct (Spec.find_lexicons (lexrows d) lx lang) as [rows|] eqn:Ef; [|discriminate].
  injection Hl as <-.
  unfold Spec.find_lexicons in Ef.
  destruct (flat_map (select_one (lexrows d) lang) (split_ws lx)) as [|r rs] eqn:Efm.
  - match type of Ef with (if ?c then _ else _) = _ => destruct c eqn:Ec end; [discriminate|].
    apply orb_false_iff in Ec. destruct Ec as [Ec1 Ec2]. apply negb_false_iff in Ec1. apply str_eqb_eq in Ec1.
    destruct lang; [discriminate|]. rewrite Ec1 in Efm.
    change (split_ws [c_star]) with [[c_star]] in Efm.
    change (flat_map (select_one (lexrows d) None) [[c_star]])
      with (select_one (lexrows d) None [c_star] ++ []) in Efm.
    rewrite app_nil_r, select_one_star in Efm.
    destruct (t_lexicons d) as [|l0 ls] eqn:Et; [apply Hne; reflexivity|].
    unfold lexrows in Efm. rewrite Et in Efm. discriminate.
  - injection Ef as <-. simpl in Hnil.
    (* the first selected row is a row of lexrows d, and is found again by rowid *)
    assert (Hr : In r (lexrows d)).
    { assert (Hin : In r (flat_map (select_one (lexrows d) lang) (split_ws lx)))
        by (rewrite Efm; left; reflexivity).
      apply in_flat_map in Hin. destruct Hin as [sp [_ Hin]]. unfold select_one in Hin.
      match type of Hin with In r (if ?c then _ else _) => destruct c end.
      - match type of Hin with In r match rev ?L with _ => _ end => destruct (rev L) as [|l' ?] eqn:Er end; [destruct Hin|].
        destruct Hin as [<-|[]].
        match type of Er with rev ?L = _ => assert (Hl' : In l' (rev L)) by (rewrite Er; left; reflexivity) end.
        apply in_rev in Hl'. apply filter_In in Hl'. tauto.
      - apply filter_In in Hin. tauto. }
    unfold lexrows in Hr. apply in_map_iff in Hr. destruct Hr as [l [<- Hlin]]. simpl in Hnil.
    destruct (find_by lex_rowid (lex_rowid l) (t_lexicons d)) as [l1|] eqn:Efb.
    + simpl in Hnil. discriminate.
    + clear - Hlin Efb. induction (t_lexicons d) as [|a t IH]; [destruct Hlin|].
      simpl in Efb. destruct (Z.eqb (lex_rowid a) (lex_rowid l)) eqn:E; [discriminate|].
      destruct Hlin as [->|Hlin]; [rewrite Z.eqb_refl in E; discriminate | exact (IH Efb Hlin)].
Qed.

End Search.

(* ================================================================== S1, spelled out *)
(* For a Wordnet that is not in default mode the scope of every entity it created is the
   selection, so Part 1 reads: navigation stays inside wn_lexicon_ids w. *)
Section S1.
Variable d : db.
Variable w : Wordnet.
Hypothesis Hmode : wn_default_mode w = false.

Theorem S1_Word_senses : forall x s, wd_wordnet x = w -> In s (Word_senses d x) ->
  In (sn_lexid s) (wn_lexicon_ids w) /\ sn_wordnet s = w.
Proof.
  intros x s Ew H. destruct (Word_senses_scope d x s H) as [H1 H2]. rewrite Ew in H1, H2.
  rewrite scope_nondefault in H1 by exact Hmode. tauto.
Qed.

Theorem S1_Synset_senses : forall y s, ss_wordnet y = w -> In s (Synset_senses d y) ->
  In (sn_lexid s) (wn_lexicon_ids w) /\ sn_wordnet s = w.
Proof.
  intros y s Ew H. destruct (Synset_senses_scope d y s H) as [H1 H2]. rewrite Ew in H1, H2.
  rewrite scope_nondefault in H1 by exact Hmode. tauto.
Qed.

Theorem S1_Sense_word : forall s x, db_ok d = true -> sn_wordnet s = w -> Sense_word d s = Ok x ->
  In (wd_lexid x) (wn_lexicon_ids w) /\ wd_wordnet x = w.
Proof.
  intros s x Hok Ew H. destruct (Sense_word_scope d s x Hok H) as [H1 H2]. rewrite Ew in H1, H2.
  rewrite scope_nondefault in H1 by exact Hmode. tauto.
Qed.

Theorem S1_Sense_synset : forall s y, db_ok d = true -> sn_wordnet s = w -> Sense_synset d s = Ok y ->
  In (ss_lexid y) (wn_lexicon_ids w) /\ ss_wordnet y = w.
Proof.
  intros s y Hok Ew H. destruct (Sense_synset_scope d s y Hok H) as [H1 H2]. rewrite Ew in H1, H2.
  rewrite scope_nondefault in H1 by exact Hmode. tauto.
Qed.

Theorem S1_Word_synsets : forall x ys y, db_ok d = true -> wd_wordnet x = w ->
  Word_synsets d x = Ok ys -> In y ys -> In (ss_lexid y) (wn_lexicon_ids w) /\ ss_wordnet y = w.
Proof.
  intros x ys y Hok Ew H Hy. destruct (Word_synsets_scope d x ys y Hok H Hy) as [s [_ [_ [H1 H2]]]].
  rewrite Ew in H1, H2. rewrite scope_nondefault in H1 by exact Hmode. tauto.
Qed.

Theorem S1_Synset_words : forall y xs x, db_ok d = true -> ss_wordnet y = w ->
  Synset_words d y = Ok xs -> In x xs -> In (wd_lexid x) (wn_lexicon_ids w) /\ wd_wordnet x = w.
Proof.
  intros y xs x Hok Ew H Hx. destruct (Synset_words_scope d y xs x Hok H Hx) as [s [_ [_ [H1 H2]]]].
  rewrite Ew in H1, H2. rewrite scope_nondefault in H1 by exact Hmode. tauto.
Qed.

Theorem S1_Sense_get_related : forall s args ts t, sn_wordnet s = w ->
  Sense_get_related d s args = Ok ts -> In t ts -> In (sn_lexid t) (wn_lexicon_ids w) /\ sn_wordnet t = w.
Proof.
  intros s args ts t Ew H Hin. destruct (Sense_get_related_scope d s args ts t H Hin) as [H1 H2].
  rewrite Ew in H1, H2. rewrite scope_nondefault in H1 by exact Hmode. tauto.
Qed.

Theorem S1_Sense_relations : forall s args m n ts t, sn_wordnet s = w ->
  Sense_relations d s args = Ok m -> In (n, ts) m -> In t ts ->
  In (sn_lexid t) (wn_lexicon_ids w) /\ sn_wordnet t = w.
Proof.
  intros s args m n ts t Ew H Hm Hin. destruct (Sense_relations_scope d s args m n ts t H Hm Hin) as [H1 H2].
  rewrite Ew in H1, H2. rewrite scope_nondefault in H1 by exact Hmode. tauto.
Qed.

Theorem S1_Sense_relation_map : forall s m r t, sn_wordnet s = w ->
  Sense_relation_map d s = Ok m -> In (r, t) m -> In (sn_lexid t) (wn_lexicon_ids w) /\ sn_wordnet t = w.
Proof.
  intros s m r t Ew H Hm. destruct (Sense_relation_map_scope d s m r t H Hm) as [H1 H2].
  rewrite Ew in H1, H2. rewrite scope_nondefault in H1 by exact Hmode. tauto.
Qed.

Theorem S1_Sense_get_related_synsets : forall s args ts t, sn_wordnet s = w ->
  Sense_get_related_synsets d s args = Ok ts -> In t ts ->
  In (ss_lexid t) (wn_lexicon_ids w) /\ ss_wordnet t = w.
Proof.
  intros s args ts t Ew H Hin. destruct (Sense_get_related_synsets_scope d s args ts t H Hin) as [H1 H2].
  rewrite Ew in H1, H2. rewrite scope_nondefault in H1 by exact Hmode. tauto.
Qed.

Theorem S1_Synset_local_relations : forall y args pairs r t, ss_wordnet y = w ->
  Synset_iter_local_relations d y args = Ok pairs -> In (r, t) pairs ->
  In (ss_lexid t) (wn_lexicon_ids w) /\ ss_wordnet t = w.
Proof.
  intros y args pairs r t Ew H Hin. destruct (Synset_iter_local_relations_scope d y args pairs r t H Hin) as [H1 H2].
  rewrite Ew in H1, H2. rewrite scope_nondefault in H1 by exact Hmode. tauto.
Qed.

(* expanded relations: a selected-lexicon synset, or a placeholder with the source's lexicon *)
Theorem S1_Synset_expanded_relations : forall y args pairs r t, ss_wordnet y = w ->
  Synset_iter_expanded_relations d y args = Ok pairs -> In (r, t) pairs ->
  (In (ss_lexid t) (wn_lexicon_ids w)
   \/ (ss__id t = NON_ROWID /\ ss_lexid t = ss_lexid y /\ ss_id t = _INFERRED_SYNSET))
  /\ ss_wordnet t = w.
Proof.
  intros y args pairs r t Ew H Hin. destruct (Synset_iter_expanded_relations_scope d y args pairs r t H Hin) as [H1 H2].
  rewrite Ew in H1, H2. rewrite scope_nondefault in H1 by exact Hmode. tauto.
Qed.

Theorem S1_Synset_get_related : forall y args ts t, ss_wordnet y = w ->
  Synset_get_related d y args = Ok ts -> In t ts ->
  (In (ss_lexid t) (wn_lexicon_ids w)
   \/ (ss__id t = NON_ROWID /\ ss_lexid t = ss_lexid y /\ ss_id t = _INFERRED_SYNSET))
  /\ ss_wordnet t = w.
Proof.
  intros y args ts t Ew H Hin. destruct (Synset_get_related_scope d y args ts t H Hin) as [H1 H2].
  rewrite Ew in H1, H2. rewrite scope_nondefault in H1 by exact Hmode. tauto.
Qed.
End S1.
