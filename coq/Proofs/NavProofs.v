(* NavProofs.v — STAGE N (C10): navigation between words, senses and synsets. *)
From Coq Require Import ZArith List Bool Lia.
Import ListNotations.
Require Import WnV.Base.Sx WnV.Model.Spec WnV.Model.Tables WnV.Model.Query WnV.Model.Core.
Require Import WnV.Proofs.CoreLemmas WnV.Proofs.QueryFacts WnV.Proofs.ScopeProofs WnV.Proofs.SearchProofs.
Local Open Scope Z_scope.

Section Nav.
Variable d : db.

(* [sense_entity s sr e ss]: the model entity s stands for the row sr of senses, whose entry_rowid
   resolves to the entry row e and whose synset_rowid resolves to the synset row ss *)
Definition sense_entity (s : Sense) (sr : sense_row) (e : entry_row) (ss : synset_row) : Prop :=
  In sr (t_senses d)
  /\ find_by en_rowid (se_entry_rowid sr) (t_entries d) = Some e
  /\ find_by sy_rowid (se_synset_rowid sr) (t_synsets d) = Some ss
  /\ sn_id s = se_id sr /\ sn_entry_id s = en_id e /\ sn_synset_id s = sy_id ss
  /\ sn_lexid s = se_lexicon_rowid sr /\ sn__id s = se_rowid sr.

Lemma sense_entity_of_columns : forall w sr q e ss,
  In sr (t_senses d) -> sense_columns d sr = Some (q, e, ss) -> sense_entity (mk_Sense w q) sr e ss.
Proof.
  intros w sr q e ss Hs Esc. apply sense_columns_Some in Esc. destruct Esc as [Ee [Ess ->]].
  unfold sense_entity. simpl. tauto.
Qed.

Lemma sense_entity_eq : forall s sr e ss,
  sense_entity s sr e ss ->
  s = mk_Sense (sn_wordnet s) {| qs_id := se_id sr; qs_entry_id := en_id e; qs_synset_id := sy_id ss;
                                 qs_lexid := se_lexicon_rowid sr; qs_rowid := se_rowid sr |}.
Proof.
  intros [i ei si l r w] sr e ss [_ [_ [_ [E1 [E2 [E3 [E4 E5]]]]]]]. simpl in *. subst. reflexivity.
Qed.

(* every sense the model hands out is such an entity *)
Theorem Wordnet_senses_entities : forall w form pos s, In s (Wordnet_senses d w form pos) ->
  exists sr e ss, sense_entity s sr e ss.
Proof.
  intros w form pos s H. unfold Wordnet_senses in H. apply find_helper_In in H.
  destruct H as [fs [p [n [q [Hq ->]]]]]. apply find_senses_iff in Hq.
  destruct Hq as [sr [e [ss [Hs [Esc _]]]]]. exists sr, e, ss. apply sense_entity_of_columns; assumption.
Qed.

Theorem Word_senses_entities : forall x s, In s (Word_senses d x) ->
  exists sr e ss, sense_entity s sr e ss /\ se_entry_rowid sr = wd__id x.
Proof.
  intros x s H. unfold Word_senses in H. apply in_map_iff in H. destruct H as [q [<- Hq]].
  unfold get_entry_senses in Hq. apply get_senses_iff in Hq.
  destruct Hq as [sr [e [ss [Hs [Esc [Er _]]]]]]. exists sr, e, ss.
  split; [apply sense_entity_of_columns; assumption | exact Er].
Qed.

Theorem Synset_senses_entities : forall y s, In s (Synset_senses d y) ->
  exists sr e ss, sense_entity s sr e ss /\ se_synset_rowid sr = ss__id y.
Proof.
  intros y s H. unfold Synset_senses in H. apply in_map_iff in H. destruct H as [q [<- Hq]].
  unfold get_synset_members in Hq. apply get_senses_iff in Hq.
  destruct Hq as [sr [e [ss [Hs [Esc [Er _]]]]]]. exists sr, e, ss.
  split; [apply sense_entity_of_columns; assumption | exact Er].
Qed.

Lemma declaring_nonempty : forall s, nonempty (Sense_get_declaring_lexicon_ids d s) = true.
Proof.
  intro s. unfold Sense_get_declaring_lexicon_ids.
  match goal with |- nonempty (if nonempty ?f then _ else _) = true => destruct (nonempty f) eqn:En; [exact En | reflexivity] end.
Qed.

(* ------------------------------------------------------------------ N1 *)
(* Sense.word() is the entry row the sense's entry_rowid points to, provided
   - the entry's identifier is not the empty string (an empty id disables the id filter),
   - the entry's lexicon is one of the declaring lexicons (own lexicon + extension bases,
     restricted to the selection unless in default mode),
   - no other entry of the declaring lexicons has the same identifier,
   - the entry has at least one form (find_entries joins forms). *)
Theorem Sense_word_is_entry : forall s sr e ss,
  sense_entity s sr e ss ->
  en_id e <> [] ->
  In (en_lexicon_rowid e) (Sense_get_declaring_lexicon_ids d s) ->
  (forall e', In e' (t_entries d) -> en_id e' = en_id e ->
              In (en_lexicon_rowid e') (Sense_get_declaring_lexicon_ids d s) -> e' = e) ->
  (exists f, In f (t_forms d) /\ fm_entry_rowid f = en_rowid e) ->
  exists x, Sense_word d s = Ok x
    /\ wd__id x = en_rowid e /\ wd_id x = en_id e /\ wd_pos x = en_pos e
    /\ wd_lexid x = en_lexicon_rowid e /\ wd_wordnet x = sn_wordnet s
    /\ wd_forms x <> []
    /\ (forall qf, In qf (wd_forms x) ->
          exists f, In f (t_forms d) /\ fm_entry_rowid f = en_rowid e /\ qf = form_columns f).
Proof.
  intros s sr e ss Hent Hid Hlex Huniq [f [Hf Ef]].
  destruct Hent as [Hsr [Ee [Ess [E1 [E2 [E3 [E4 E5]]]]]]].
  assert (He : In e (t_entries d)) by (apply find_by_Some in Ee; tauto).
  set (ids := Sense_get_declaring_lexicon_ids d s) in *.
  assert (Hcond : forall e', entry_cond d (Some (sn_entry_id s)) [] None ids false false e' = true <->
                             en_id e' = en_id e /\ In (en_lexicon_rowid e') ids).
  { intro e'. unfold entry_cond. rewrite E2. unfold ids at 1. rewrite declaring_nonempty. fold ids.
    destruct (en_id e) as [|c i'] eqn:Ei; [contradiction|]. simpl truthy. simpl nonempty. cbv iota.
    rewrite !andb_true_r. simpl ostr_eqb. rewrite andb_true_iff, str_eqb_eq, z_in_In. tauto. }
  destruct (find_entries_complete d (Some (sn_entry_id s)) [] None ids false false e f He
              (proj2 (Hcond e) (conj eq_refl Hlex)) Hf Ef) as [w0 [Hw0 _]].
  unfold Sense_word. fold ids.
  destruct (find_entries d (Some (sn_entry_id s)) [] None ids false false) as [|q qs] eqn:EL; [destruct Hw0|].
  assert (Hq : In q (find_entries d (Some (sn_entry_id s)) [] None ids false false)) by (rewrite EL; left; reflexivity).
  apply find_entries_sound in Hq. destruct Hq as [[e' [He' [We' Hc']]] [Hne Hforms]].
  apply Hcond in Hc'. destruct Hc' as [Eid Hl']. assert (e' = e) by (apply Huniq; assumption). subst e'.
  destruct We' as [W1 [W2 [W3 W4]]].
  exists (mk_Word (sn_wordnet s) q). simpl. repeat split; try assumption.
  intros qf Hqf. destruct (Hforms qf Hqf) as [f0 [Hf0 [Ef0 Eq0]]]. exists f0. rewrite <- W4. tauto.
Qed.

(* Sense.synset() is exactly the synset row the sense's synset_rowid points to, same provisos *)
Theorem Sense_synset_is_synset : forall s sr e ss,
  sense_entity s sr e ss ->
  sy_id ss <> [] ->
  In (sy_lexicon_rowid ss) (Sense_get_declaring_lexicon_ids d s) ->
  (forall ss', In ss' (t_synsets d) -> sy_id ss' = sy_id ss ->
               In (sy_lexicon_rowid ss') (Sense_get_declaring_lexicon_ids d s) -> ss' = ss) ->
  Sense_synset d s = Ok (mk_Synset (sn_wordnet s) (synset_columns d ss)).
Proof.
  intros s sr e ss Hent Hid Hlex Huniq.
  destruct Hent as [Hsr [Ee [Ess [E1 [E2 [E3 [E4 E5]]]]]]].
  assert (Hss : In ss (t_synsets d)) by (apply find_by_Some in Ess; tauto).
  set (ids := Sense_get_declaring_lexicon_ids d s) in *.
  assert (Hcond : forall ss', synset_conditions d (Some (sn_synset_id s)) None None ids ss' = true <->
                              sy_id ss' = sy_id ss /\ In (sy_lexicon_rowid ss') ids).
  { intro ss'. unfold synset_conditions. rewrite E3. unfold ids at 1. rewrite declaring_nonempty. fold ids.
    destruct (sy_id ss) as [|c i'] eqn:Ei; [contradiction|]. simpl truthy. cbv iota.
    rewrite !andb_true_r. simpl ostr_eqb. rewrite andb_true_iff, str_eqb_eq, z_in_In. tauto. }
  assert (Hin : In (synset_columns d ss) (find_synsets d (Some (sn_synset_id s)) [] None None ids false false)).
  { apply find_synsets_iff. exists ss. split; [exact Hss|]. split; [reflexivity|].
    split; [apply Hcond; tauto | intro C; contradiction]. }
  unfold Sense_synset. fold ids.
  destruct (find_synsets d (Some (sn_synset_id s)) [] None None ids false false) as [|q qs] eqn:EL; [destruct Hin|].
  assert (Hq : In q (find_synsets d (Some (sn_synset_id s)) [] None None ids false false)) by (rewrite EL; left; reflexivity).
  apply find_synsets_iff in Hq. destruct Hq as [ss' [Hss' [-> [Hc' _]]]].
  apply Hcond in Hc'. destruct Hc' as [Eid Hl']. rewrite (Huniq ss' Hss' Eid Hl'). reflexivity.
Qed.

(* ------------------------------------------------------------------ N2: inverses *)
(* the sense is among the senses of its word, provided the sense's lexicon is in the scope of
   the word (always so outside default mode when the sense belongs to the selection) *)
Theorem sense_in_Word_senses : forall s sr e ss x,
  sense_entity s sr e ss ->
  wd__id x = en_rowid e -> wd_wordnet x = sn_wordnet s ->
  In (sn_lexid s) (scope d (wd_wordnet x) (wd_lexid x)) ->
  In s (Word_senses d x).
Proof.
  intros s sr e ss x Hent Ex Ew Hscope. rewrite (sense_entity_eq s sr e ss Hent).
  destruct Hent as [Hsr [Ee [Ess [E1 [E2 [E3 [E4 E5]]]]]]].
  unfold Word_senses. rewrite Ew. apply in_map. unfold get_entry_senses. apply get_senses_iff.
  exists sr, e, ss. split; [exact Hsr|]. split; [unfold sense_columns; rewrite Ee, Ess; reflexivity|].
  split; [rewrite Ex; apply find_by_Some in Ee; destruct Ee as [_ Ee]; symmetry; exact Ee|]. rewrite <- E4, <- Ew. exact Hscope.
Qed.

Theorem sense_in_Synset_senses : forall s sr e ss y,
  sense_entity s sr e ss ->
  ss__id y = sy_rowid ss -> ss_wordnet y = sn_wordnet s ->
  In (sn_lexid s) (scope d (ss_wordnet y) (ss_lexid y)) ->
  In s (Synset_senses d y).
Proof.
  intros s sr e ss y Hent Ey Ew Hscope. rewrite (sense_entity_eq s sr e ss Hent).
  destruct Hent as [Hsr [Ee [Ess [E1 [E2 [E3 [E4 E5]]]]]]].
  unfold Synset_senses. rewrite Ew. apply in_map. unfold get_synset_members. apply get_senses_iff.
  exists sr, e, ss. split; [exact Hsr|]. split; [unfold sense_columns; rewrite Ee, Ess; reflexivity|].
  split; [rewrite Ey; apply find_by_Some in Ess; destruct Ess as [_ Ess]; symmetry; exact Ess|]. rewrite <- E4, <- Ew. exact Hscope.
Qed.

(* outside default mode the scope condition is just "the sense's lexicon is selected" *)
Corollary sense_in_Word_senses_nondefault : forall s sr e ss x,
  sense_entity s sr e ss -> wd__id x = en_rowid e -> wd_wordnet x = sn_wordnet s ->
  wn_default_mode (sn_wordnet s) = false -> In (sn_lexid s) (wn_lexicon_ids (sn_wordnet s)) ->
  In s (Word_senses d x).
Proof.
  intros s sr e ss x Hent Ex Ew Hm Hl. apply (sense_in_Word_senses s sr e ss x Hent Ex Ew).
  rewrite Ew, scope_nondefault by exact Hm. exact Hl.
Qed.

(* and conversely the senses of a word are the senses whose entry is the word *)
Theorem Word_senses_iff : forall x s,
  In s (Word_senses d x) <->
  exists sr e ss, sense_entity s sr e ss /\ se_entry_rowid sr = wd__id x /\ sn_wordnet s = wd_wordnet x
                  /\ In (sn_lexid s) (scope d (wd_wordnet x) (wd_lexid x)).
Proof.
  intros x s. split.
  - intro H. destruct (Word_senses_entities x s H) as [sr [e [ss [Hent Er]]]].
    destruct (Word_senses_scope d x s H) as [Hl Ew]. exists sr, e, ss. tauto.
  - intros [sr [e [ss [Hent [Er [Ew Hl]]]]]]. rewrite (sense_entity_eq s sr e ss Hent).
    destruct Hent as [Hsr [Ee [Ess [E1 [E2 [E3 [E4 E5]]]]]]].
    unfold Word_senses. rewrite Ew. apply in_map. unfold get_entry_senses. apply get_senses_iff.
    exists sr, e, ss. split; [exact Hsr|]. split; [unfold sense_columns; rewrite Ee, Ess; reflexivity|].
    split; [exact Er|]. rewrite <- E4. exact Hl.
Qed.

Theorem Synset_senses_iff : forall y s,
  In s (Synset_senses d y) <->
  exists sr e ss, sense_entity s sr e ss /\ se_synset_rowid sr = ss__id y /\ sn_wordnet s = ss_wordnet y
                  /\ In (sn_lexid s) (scope d (ss_wordnet y) (ss_lexid y)).
Proof.
  intros y s. split.
  - intro H. destruct (Synset_senses_entities y s H) as [sr [e [ss [Hent Er]]]].
    destruct (Synset_senses_scope d y s H) as [Hl Ew]. exists sr, e, ss. tauto.
  - intros [sr [e [ss [Hent [Er [Ew Hl]]]]]]. rewrite (sense_entity_eq s sr e ss Hent).
    destruct Hent as [Hsr [Ee [Ess [E1 [E2 [E3 [E4 E5]]]]]]].
    unfold Synset_senses. rewrite Ew. apply in_map. unfold get_synset_members. apply get_senses_iff.
    exists sr, e, ss. split; [exact Hsr|]. split; [unfold sense_columns; rewrite Ee, Ess; reflexivity|].
    split; [exact Er|]. rewrite <- E4. exact Hl.
Qed.

(* ------------------------------------------------------------------ N3: composites *)
Theorem Word_synsets_def : forall x, Word_synsets d x = mapM (Sense_synset d) (Word_senses d x).
Proof. reflexivity. Qed.
Theorem Synset_words_def : forall y, Synset_words d y = mapM (Sense_word d) (Synset_senses d y).
Proof. reflexivity. Qed.
Theorem Synset_lemmas_def : forall y,
  Synset_lemmas d y = bind (Synset_words d y) (fun ws => mapM Word_lemma ws).
Proof. reflexivity. Qed.
Theorem Word_lemma_def : forall x,
  Word_lemma x = match wd_forms x with q :: _ => Ok (mk_Form q) | [] => OtherError end.
Proof. reflexivity. Qed.

(* [mapM f l]: the images in order when all succeed; otherwise the first failure *)
Lemma mapM_all_Ok : forall T U (f : T -> res U) l ys,
  mapM f l = Ok ys <-> Forall2 (fun x y => f x = Ok y) l ys.
Proof.
  intros T U f l ys. split; [apply mapM_Ok|].
  intro H. induction H as [|x y l ys Hxy HF IH]; simpl; [reflexivity | rewrite Hxy, IH; reflexivity].
Qed.

Lemma mapM_first_failure : forall T U (f : T -> res U) l1 x l2 ys,
  Forall2 (fun a y => f a = Ok y) l1 ys -> (forall y, f x <> Ok y) ->
  mapM f (l1 ++ x :: l2) = match f x with Ok _ => OtherError | WnError => WnError
                                          | OtherError => OtherError | OutOfFuel => OutOfFuel end.
Proof.
  intros T U f l1 x l2 ys H Hx. induction H as [|a y l1 ys Hay HF IH]; simpl.
  - destruct (f x) as [y| | |]; [exfalso; apply (Hx y); reflexivity | reflexivity | reflexivity | reflexivity].
  - rewrite Hay. simpl. rewrite IH. destruct (f x); reflexivity.
Qed.

(* errors propagate: Word.synsets() succeeds iff Sense.synset() succeeds for every sense, and then
   lists the synsets in the order of the senses *)
Theorem Word_synsets_Ok : forall x ys,
  Word_synsets d x = Ok ys <-> Forall2 (fun s y => Sense_synset d s = Ok y) (Word_senses d x) ys.
Proof. intros. unfold Word_synsets. apply mapM_all_Ok. Qed.
Theorem Synset_words_Ok : forall y xs,
  Synset_words d y = Ok xs <-> Forall2 (fun s x => Sense_word d s = Ok x) (Synset_senses d y) xs.
Proof. intros. unfold Synset_words. apply mapM_all_Ok. Qed.
Theorem Synset_lemmas_Ok : forall y fs,
  Synset_lemmas d y = Ok fs <->
  exists xs, Synset_words d y = Ok xs /\ Forall2 (fun x f => Word_lemma x = Ok f) xs fs.
Proof.
  intros y fs. unfold Synset_lemmas. split.
  - intro H. apply bind_Ok in H. destruct H as [xs [Hx H]]. exists xs. split; [exact Hx | apply mapM_all_Ok; exact H].
  - intros [xs [Hx H]]. rewrite Hx. simpl. apply mapM_all_Ok. exact H.
Qed.
(* the lemma of a word is its first form (forms are ordered by rank, the lemma has rank 0) *)
Theorem Word_lemma_first_form : forall x q qs, wd_forms x = q :: qs -> Word_lemma x = Ok (mk_Form q).
Proof. intros x q qs H. unfold Word_lemma. rewrite H. reflexivity. Qed.

(* ------------------------------------------------------------------ N4: entity equality *)
Theorem Word_key_eqb_iff : forall a b, Word_key_eqb a b = true <-> wd__id a = wd__id b.
Proof. intros. unfold Word_key_eqb. apply Z.eqb_eq. Qed.
Theorem Sense_key_eqb_iff : forall a b, Sense_key_eqb a b = true <-> sn__id a = sn__id b.
Proof. intros. unfold Sense_key_eqb. apply Z.eqb_eq. Qed.
(* Synset: Python's __eq__ compares (kind, rowid), but __hash__ covers (ili, lexid, rowid); a set or
   dict only calls __eq__ on equal hashes, so as a set member / dict key a synset is identified by
   all three.  In the model: *)
Theorem Synset_key_eqb_iff : forall a b,
  Synset_key_eqb a b = true <-> ss_ili a = ss_ili b /\ ss_lexid a = ss_lexid b /\ ss__id a = ss__id b.
Proof.
  intros a b. unfold Synset_key_eqb. rewrite !andb_true_iff, ostr_eqb_eq, !Z.eqb_eq. tauto.
Qed.
(* for synsets read from the database the rowid decides (ili and lexicon are functions of the row) *)
Theorem Synset_key_eqb_rows : forall w1 w2 ss1 ss2,
  unique_keys sy_rowid (t_synsets d) -> In ss1 (t_synsets d) -> In ss2 (t_synsets d) ->
  (Synset_key_eqb (mk_Synset w1 (synset_columns d ss1)) (mk_Synset w2 (synset_columns d ss2)) = true
   <-> sy_rowid ss1 = sy_rowid ss2).
Proof.
  intros w1 w2 ss1 ss2 Hu H1 H2. rewrite Synset_key_eqb_iff. simpl. split; [tauto|].
  intro E. assert (ss1 = ss2) by (apply (unique_keys_inj _ sy_rowid (t_synsets d)); assumption).
  subst. tauto.
Qed.
(* inferred placeholders all have rowid 0: they are told apart by ILI and lexicon only, and are
   never equal to a database synset (rowid <> 0) *)
Theorem Synset_key_eqb_inferred : forall i1 l1 w1 i2 l2 w2,
  Synset_key_eqb (Synset_empty _INFERRED_SYNSET i1 l1 w1) (Synset_empty _INFERRED_SYNSET i2 l2 w2) = true
  <-> i1 = i2 /\ l1 = l2.
Proof. intros. rewrite Synset_key_eqb_iff. simpl. tauto. Qed.

(* unique_list keeps exactly one representative of every key, the first, in order *)
Theorem unique_list_spec : forall T (eqb : T -> T -> bool) l,
  (forall a, eqb a a = true) ->
  nodup_by eqb (unique_list eqb l)
  /\ (forall x, In x (unique_list eqb l) -> In x l)
  /\ (forall x, In x l -> exists y, In y (unique_list eqb l) /\ eqb x y = true).
Proof.
  intros T eqb l Hr. unfold unique_list. split; [apply dedup_nodup|].
  split; [apply dedup_In | apply dedup_complete; exact Hr].
Qed.

(* ------------------------------------------------------------------ N5: translate *)
Theorem Synset_translate_no_ili : forall y lexicon lang,
  truthy (ss_ili y) = false -> Synset_translate d y lexicon lang = Ok [].
Proof. intros y lexicon lang H. unfold Synset_translate. rewrite H. reflexivity. Qed.

(* a synset without ILI row (also one that only has a proposed ILI) carries no ILI id *)
Theorem synset_without_ili_row : forall w ss,
  sy_ili_rowid ss = None -> ss_ili (mk_Synset w (synset_columns d ss)) = None.
Proof. intros w ss H. simpl. rewrite H. reflexivity. Qed.

Theorem Synset_translate_ili : forall y lexicon lang,
  truthy (ss_ili y) = true ->
  Synset_translate d y lexicon lang =
  bind (Wordnet_init d lexicon lang None true (wn_norm_table (ss_wordnet y)) None true)
       (fun w' => Ok (Wordnet_synsets d w' None None (ss_ili y))).
Proof. intros y lexicon lang H. unfold Synset_translate, wn_synsets. rewrite H. reflexivity. Qed.

(* the translations are the synsets of the target lexicons with the same ILI *)
Theorem Synset_translate_sound : forall y lexicon lang ts t,
  db_ok d = true -> t_lexicons d <> [] ->
  Synset_translate d y lexicon lang = Ok ts -> In t ts ->
  exists w', Wordnet_init d lexicon lang None true (wn_norm_table (ss_wordnet y)) None true = Ok w'
    /\ ss_wordnet t = w' /\ In (ss_lexid t) (wn_lexicon_ids w') /\ ss_ili t = ss_ili y
    /\ exists ss, In ss (t_synsets d) /\ t = mk_Synset w' (synset_columns d ss).
Proof.
  intros y lexicon lang ts t Hok Hlex H Hin. unfold Synset_translate in H.
  destruct (truthy (ss_ili y)) eqn:T; simpl in H; [|injection H as <-; destruct Hin].
  unfold wn_synsets in H. apply bind_Ok in H. destruct H as [w' [Hw H]]. injection H as <-.
  exists w'. split; [exact Hw|].
  pose proof (Wordnet_init_selects d _ _ _ _ _ _ _ _ Hw Hlex) as Hne.
  destruct (Wordnet_synsets_scope d w' None None (ss_ili y) t Hne Hin) as [Hl Et].
  split; [exact Et|]. split; [exact Hl|].
  unfold Wordnet_synsets, _find_helper in Hin. apply in_map_iff in Hin. destruct Hin as [q [<- Hq]].
  apply find_synsets_iff in Hq. destruct Hq as [ss [Hss [-> [Hc _]]]].
  split; [|exists ss; split; [exact Hss | reflexivity]].
  simpl. unfold synset_conditions in Hc. repeat (apply andb_true_iff in Hc; destruct Hc as [Hc ?]).
  rewrite T in H0. apply oz_in_In in H0. destruct H0 as [z [Ez Hz]]. apply in_map_iff in Hz.
  destruct Hz as [i [<- Hi]]. apply filter_In in Hi. destruct Hi as [Hi Ei]. apply ostr_eqb_eq in Ei.
  rewrite Ez. unfold ili_id_of. simpl. rewrite (find_by_unique _ il_rowid _ i (ok_ilis d Hok) Hi). exact Ei.
Qed.

(* Sense.translate and Word.translate are its images *)
Theorem Sense_translate_def : forall s lexicon lang,
  Sense_translate d s lexicon lang =
  bind (Sense_synset d s) (fun y =>
  bind (Synset_translate d y lexicon lang) (fun ts => Ok (flat_map (Synset_senses d) ts))).
Proof. reflexivity. Qed.

Theorem Word_translate_def : forall x lexicon lang,
  Word_translate d x lexicon lang =
  bind (mapM (fun sense => bind (Sense_translate d sense lexicon lang) (fun t_senses =>
                           bind (mapM (Sense_word d) t_senses) (fun ws => Ok (sense, ws))))
             (Word_senses d x))
       (fun pairs => Ok (dict_of Sense_key_eqb pairs)).
Proof. reflexivity. Qed.

End Nav.
