(* Proofs/IcRoot.v — the root of a single-rooted taxonomy carries the whole class
   (model: Model/Ic.v): when every corpus word synset of t's class reaches t, the
   weight of t equals the class total, its probability is exactly 1 and its
   information content (for any -log with -log 1 = 0) is 0. *)
From Coq Require Import ZArith QArith List Bool Lia Lqa.
Import ListNotations.
Require Import WnV.Base.Sx WnV.Model.Taxonomy WnV.Model.Ic WnV.Proofs.TaxSpec WnV.Proofs.IcProofs.

Section IcRoot.
  Variable hyp : node -> list node.
  Variable cls : node -> Z.

  Theorem root_weight_is_total : forall fuel distribute corpus ev smoothing t,
      compute_events hyp cls fuel distribute corpus = Ok ev ->
      (forall w, In w corpus -> (0 <= cw_count w)%Z) ->
      (0 <= cls t)%Z ->
      (forall w s, In w corpus -> In s (cw_synsets w) -> cls s = cls t -> reach hyp s t) ->
      entry smoothing ev (Syn t) == entry smoothing ev (Total (cls t)).
  Proof.
    intros fuel distribute corpus ev smoothing t H Hc Ht Hroot.
    apply Qle_antisym.
    - apply (compute_bounded hyp cls fuel distribute corpus ev smoothing t H Hc Ht).
    - rewrite (compute_synset_entry hyp cls fuel distribute corpus ev smoothing t H).
      rewrite (compute_total_entry hyp cls fuel distribute corpus ev smoothing (cls t) H Ht).
      apply Qplus_le_compat; [apply Qle_refl|].
      apply (sumQ_flat_map_le
               (fun w s => if Z.eqb (cls s) (cls t) then weight distribute w else 0)
               (fun w s => if Z.leb 0 (cls s) then credit hyp fuel t s (weight distribute w) else 0)).
      intros w s Hw Hs.
      assert (Hwt : 0 <= weight distribute w) by (apply weight_nonneg; apply Hc; assumption).
      destruct (Z.eqb (cls s) (cls t)) eqn:He.
      + apply Z.eqb_eq in He.
        assert (Hle : (0 <= cls s)%Z) by lia.
        destruct (Z.leb 0 (cls s)) eqn:Hl; [|apply Z.leb_gt in Hl; lia].
        destruct (compute_events_classes hyp cls _ _ _ _ w s H Hw Hs Hle) as [anc [Ha _]].
        destruct (credit_spec hyp fuel t s (weight distribute w) anc Ha) as [[_ Hcr]|[Hn _]].
        * rewrite Hcr. apply Qle_refl.
        * exfalso. apply Hn. apply (Hroot w s Hw Hs He).
      + destruct (Z.leb 0 (cls s)); [|apply Qle_refl].
        unfold credit. destruct (ancestors hyp fuel s) as [anc|]; [|apply Qle_refl].
        destruct (nmem t anc); [assumption | apply Qle_refl].
  Qed.

  Theorem root_probability_one : forall fuel distribute corpus ev smoothing t,
      compute_events hyp cls fuel distribute corpus = Ok ev ->
      (forall w, In w corpus -> (0 <= cw_count w)%Z) ->
      0 < smoothing -> (0 <= cls t)%Z ->
      (forall w s, In w corpus -> In s (cw_synsets w) -> cls s = cls t -> reach hyp s t) ->
      probability cls smoothing ev t == 1.
  Proof.
    intros fuel distribute corpus ev smoothing t H Hc Hs Ht Hroot.
    unfold probability.
    rewrite (root_weight_is_total fuel distribute corpus ev smoothing t H Hc Ht Hroot).
    generalize (compute_positive hyp cls fuel distribute corpus ev smoothing (Total (cls t)) H Hc Hs).
    generalize (entry smoothing ev (Total (cls t))). intros y Hy.
    field. intros Hz. rewrite Hz in Hy. apply (Qlt_irrefl 0). exact Hy.
  Qed.

  (* information content of such a root is 0 (wn.ic.information_content = -log p) *)
  Theorem root_information_content_zero :
    forall (nlog : Q -> Q),
      nlog 1 == 0 -> (forall p q, p == q -> nlog p == nlog q) ->
      forall fuel distribute corpus ev smoothing t,
        compute_events hyp cls fuel distribute corpus = Ok ev ->
        (forall w, In w corpus -> (0 <= cw_count w)%Z) ->
        0 < smoothing -> (0 <= cls t)%Z ->
        (forall w s, In w corpus -> In s (cw_synsets w) -> cls s = cls t -> reach hyp s t) ->
        nlog (probability cls smoothing ev t) == 0.
  Proof.
    intros nlog H1 Hext fuel distribute corpus ev smoothing t H Hc Hs Ht Hroot.
    rewrite (Hext _ 1 (root_probability_one fuel distribute corpus ev smoothing t H Hc Hs Ht Hroot)).
    exact H1.
  Qed.
End IcRoot.
