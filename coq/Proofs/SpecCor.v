(* Proofs/SpecCor.v — corollaries of Proofs/SpecProofs.v in the form used by Properties/C08.v *)
From Coq Require Import ZArith List Bool Lia.
Import ListNotations.
Require Import WnV.Base.Sx WnV.Model.Spec WnV.Proofs.SpecProofs.
Local Open Scope Z_scope.

Lemma latest_In : forall (ls : list lexrow) l, In l (latest ls) -> In l ls.
Proof.
  intros ls l H. unfold latest in H.
  destruct (rev ls) as [|x xs] eqn:Hr.
  - destruct H.
  - destruct H as [H|H]; [|destruct H]. subst x.
    apply in_rev. rewrite Hr. left. reflexivity.
Qed.

Lemma latest_length : forall (ls : list lexrow), (length (latest ls) <= 1)%nat.
Proof. intro ls. unfold latest. destruct (rev ls); simpl; lia. Qed.

(* a bare id selects the last (most recently added) row with that id *)
Lemma bare_id_most_recent : forall lexs spec l,
    zmem c_colon spec = false -> has_meta spec = false -> ids_plain lexs ->
    In l (select_one lexs None spec) ->
    lx_id l = spec /\ exists pre post, lexs = pre ++ l :: post
                                      /\ ~ (exists r, In r post /\ lx_id r = spec).
Proof.
  intros lexs spec l Hc Hm Hp Hin.
  destruct (bare_id_is_latest lexs spec l Hc Hm Hp Hin) as [Hid Hall].
  split; [exact Hid|].
  assert (Hl : In l lexs).
  { apply (select_one_bare_id lexs None spec l Hc Hm Hp) in Hin.
    apply latest_In in Hin. apply filter_In in Hin. tauto. }
  exact (Hall l Hl Hid).
Qed.
