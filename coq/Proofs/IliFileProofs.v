(* Proofs/IliFileProofs.v — proofs about Model/IliFile.v (the text layer of wn._ili.load): what is written one row per line,
   fields separated by tabs, is read back as exactly those rows for each of the three line-end conventions; no other code
   point ends a line or a field. *)
From Coq Require Import ZArith List Bool Lia.
Import ListNotations.
Require Import WnV.Base.Sx WnV.Model.Rel WnV.Model.Add WnV.Model.IliFile.
Local Open Scope Z_scope.

(* ====================================================================== *)
(* Proofs                                                                 *)
(* ====================================================================== *)

(* ---------- small helpers ---------- *)
Lemma not_in_cons_inv : forall (x c : Z) (l : list Z),
    ~ In x (c :: l) -> c <> x /\ ~ In x l.
Proof.
  intros x c l Hn. split.
  - intro Heq. apply Hn. left. exact Heq.
  - intro Hin. apply Hn. right. exact Hin.
Qed.

(* ---------- split_tab / join_tab ---------- *)
Lemma split_tab_clean : forall f, ~ In 9 f -> split_tab f = [f].
Proof.
  induction f as [|c f IH]; intro Hn.
  - reflexivity.
  - apply not_in_cons_inv in Hn. destruct Hn as [Hc Hf].
    cbn [split_tab]. destruct (Z.eqb_spec c 9) as [Heq|_]; [contradiction|].
    rewrite (IH Hf). reflexivity.
Qed.

Lemma split_tab_app : forall f r, ~ In 9 f -> split_tab (f ++ 9 :: r) = f :: split_tab r.
Proof.
  induction f as [|c f IH]; intros r Hn.
  - reflexivity.
  - apply not_in_cons_inv in Hn. destruct Hn as [Hc Hf].
    cbn [app split_tab]. destruct (Z.eqb_spec c 9) as [Heq|_]; [contradiction|].
    rewrite (IH r Hf). reflexivity.
Qed.

Theorem split_tab_join : forall fs : list str,
    fs <> [] -> Forall (fun f => ~ In 9 f) fs -> split_tab (join_tab fs) = fs.
Proof.
  induction fs as [|f fs IH]; intros Hne Hall.
  - contradiction.
  - inversion Hall as [|f0 fs0 Hf Hfs]; subst f0 fs0.
    destruct fs as [|g fs'].
    + cbn [join_tab]. apply split_tab_clean. exact Hf.
    + change (join_tab (f :: g :: fs')) with (f ++ 9 :: join_tab (g :: fs')).
      rewrite (split_tab_app _ _ Hf). rewrite IH; [reflexivity|discriminate|exact Hfs].
Qed.

Lemma in_join_tab : forall (x : Z) (fs : list str),
    In x (join_tab fs) -> x = 9 \/ exists f, In f fs /\ In x f.
Proof.
  intros x. induction fs as [|f fs IH]; intro Hin.
  - contradiction.
  - destruct fs as [|g fs'].
    + right. exists f. split; [left; reflexivity|exact Hin].
    + change (join_tab (f :: g :: fs')) with (f ++ 9 :: join_tab (g :: fs')) in Hin.
      apply in_app_or in Hin. destruct Hin as [Hin|[Heq|Hin]].
      * right. exists f. split; [left; reflexivity|exact Hin].
      * left. symmetry. exact Heq.
      * destruct (IH Hin) as [H9|[f' [Hf' Hx]]]; [left; exact H9|].
        right. exists f'. split; [right; exact Hf'|exact Hx].
Qed.

Lemma join_tab_line_ok : forall fs, Forall field_ok fs -> line_ok (join_tab fs).
Proof.
  intros fs Hall. rewrite Forall_forall in Hall. split; intro Hin;
    apply in_join_tab in Hin; destruct Hin as [Heq|[f [Hf Hx]]];
      try discriminate; destruct (Hall f Hf) as [_ [H10 H13]]; contradiction.
Qed.

(* ---------- rstrip_crlf ---------- *)
Lemma rstrip_crlf_app : forall l r, line_ok l -> rstrip_crlf (l ++ r) = l ++ rstrip_crlf r.
Proof.
  induction l as [|c l IH]; intros r [H10 H13].
  - reflexivity.
  - apply not_in_cons_inv in H10. destruct H10 as [Hc10 Hl10].
    apply not_in_cons_inv in H13. destruct H13 as [Hc13 Hl13].
    cbn [app rstrip_crlf]. rewrite (IH r (conj Hl10 Hl13)).
    destruct (l ++ rstrip_crlf r) as [|x t]; [|reflexivity].
    destruct (Z.eqb_spec c 10) as [Heq|_]; [contradiction|].
    destruct (Z.eqb_spec c 13) as [Heq|_]; [contradiction|].
    reflexivity.
Qed.

Lemma rstrip_crlf_line : forall l, line_ok l -> rstrip_crlf (l ++ [10]) = l.
Proof.
  intros l Hl. rewrite (rstrip_crlf_app l [10] Hl).
  change (rstrip_crlf [10]) with (@nil Z). apply app_nil_r.
Qed.

Lemma rstrip_crlf_clean : forall l, line_ok l -> rstrip_crlf l = l.
Proof.
  intros l Hl. rewrite <- (app_nil_r l) at 1. rewrite (rstrip_crlf_app l [] Hl).
  change (rstrip_crlf []) with (@nil Z). apply app_nil_r.
Qed.

Lemma map_rstrip_lines : forall ls,
    Forall line_ok ls -> map rstrip_crlf (map (fun l => l ++ [10]) ls) = ls.
Proof.
  induction ls as [|l ls IH]; intro Hall.
  - reflexivity.
  - inversion Hall as [|l0 ls0 Hl Hls]; subst l0 ls0.
    cbn [map]. rewrite (rstrip_crlf_line l Hl), (IH Hls). reflexivity.
Qed.

(* ---------- split_lines ---------- *)
Definition opt_last (l : str) : list str := match l with [] => [] | _ :: _ => [l] end.

Lemma split_lines_nolf : forall l, ~ In 10 l -> split_lines l = opt_last l.
Proof.
  induction l as [|c l IH]; intro Hn.
  - reflexivity.
  - apply not_in_cons_inv in Hn. destruct Hn as [Hc Hl].
    cbn [split_lines]. destruct (Z.eqb_spec c 10) as [Heq|_]; [contradiction|].
    rewrite (IH Hl). destruct l as [|c' l']; reflexivity.
Qed.

Lemma split_lines_app : forall l r,
    ~ In 10 l -> split_lines (l ++ 10 :: r) = (l ++ [10]) :: split_lines r.
Proof.
  induction l as [|c l IH]; intros r Hn.
  - reflexivity.
  - apply not_in_cons_inv in Hn. destruct Hn as [Hc Hl].
    cbn [app split_lines]. destruct (Z.eqb_spec c 10) as [Heq|_]; [contradiction|].
    rewrite (IH r Hl). reflexivity.
Qed.

Lemma split_lines_render : forall ls last,
    Forall (fun l => ~ In 10 l) ls -> ~ In 10 last ->
    split_lines (render_lines [10] ls ++ last) = map (fun l => l ++ [10]) ls ++ opt_last last.
Proof.
  unfold render_lines. induction ls as [|l ls IH]; intros last Hall Hlast.
  - cbn [map concat app]. apply split_lines_nolf. exact Hlast.
  - inversion Hall as [|l0 ls0 Hl Hls]; subst l0 ls0.
    cbn [map concat]. rewrite <- !app_assoc. cbn [app].
    rewrite (split_lines_app _ _ Hl). rewrite (IH last Hls Hlast). reflexivity.
Qed.

(* ---------- translate_newlines ---------- *)
Lemma translate_app : forall l r,
    ~ In 13 l -> translate_newlines (l ++ r) = l ++ translate_newlines r.
Proof.
  induction l as [|c l IH]; intros r Hn.
  - reflexivity.
  - apply not_in_cons_inv in Hn. destruct Hn as [Hc Hl].
    cbn [app translate_newlines]. destruct (Z.eqb_spec c 13) as [Heq|_]; [contradiction|].
    rewrite (IH r Hl). reflexivity.
Qed.

Lemma translate_clean : forall l, ~ In 13 l -> translate_newlines l = l.
Proof.
  intros l Hn. rewrite <- (app_nil_r l) at 1. rewrite (translate_app l [] Hn).
  change (translate_newlines []) with (@nil Z). apply app_nil_r.
Qed.

(* the first code point of [s], if any, is not 10 *)
Definition no_lf_head (s : str) : Prop := forall c t, s = c :: t -> c <> 10.

Lemma translate_lf : forall r, translate_newlines (10 :: r) = 10 :: translate_newlines r.
Proof. reflexivity. Qed.
Lemma translate_crlf : forall r, translate_newlines (13 :: 10 :: r) = 10 :: translate_newlines r.
Proof. reflexivity. Qed.
Lemma translate_cr : forall r,
    no_lf_head r -> translate_newlines (13 :: r) = 10 :: translate_newlines r.
Proof.
  intros r Hh. destruct r as [|c t].
  - reflexivity.
  - cbn [translate_newlines]. change (13 =? 13) with true. cbv iota.
    destruct (Z.eqb_spec c 10) as [Heq|_]; [|reflexivity].
    exfalso. exact (Hh c t eq_refl Heq).
Qed.

Lemma no_lf_head_render_cr : forall ls last,
    Forall line_ok ls -> ~ In 10 last -> no_lf_head (render_lines [13] ls ++ last).
Proof.
  unfold render_lines. intros ls last Hall Hlast c t Heq Hc. subst c.
  destruct ls as [|l ls].
  - cbn [map concat app] in Heq. apply Hlast. rewrite Heq. left. reflexivity.
  - inversion Hall as [|l0 ls0 [Hl10 _] _]; subst l0 ls0.
    cbn [map concat] in Heq. destruct l as [|c l].
    + cbn [app] in Heq. discriminate Heq.
    + cbn [app] in Heq. injection Heq as Hc _. apply Hl10. left. exact Hc.
Qed.

Lemma translate_render : forall e, eol e -> forall ls last,
    Forall line_ok ls -> line_ok last ->
    translate_newlines (render_lines e ls ++ last) = render_lines [10] ls ++ last.
Proof.
  intros e He. induction ls as [|l ls IH]; intros last Hall [Hlast10 Hlast13].
  - cbn [render_lines map concat app]. apply translate_clean. exact Hlast13.
  - inversion Hall as [|l0 ls0 Hl Hls]; subst l0 ls0. destruct Hl as [Hl10 Hl13].
    assert (Hstep : translate_newlines (e ++ (render_lines e ls ++ last))
                    = 10 :: (render_lines [10] ls ++ last)).
    { destruct He as [He|[He|He]]; subst e.
      - cbn [app]. rewrite translate_lf. rewrite (IH last Hls (conj Hlast10 Hlast13)).
        reflexivity.
      - cbn [app]. rewrite translate_crlf. rewrite (IH last Hls (conj Hlast10 Hlast13)).
        reflexivity.
      - cbn [app]. rewrite (translate_cr _ (no_lf_head_render_cr ls last Hls Hlast10)).
        rewrite (IH last Hls (conj Hlast10 Hlast13)). reflexivity. }
    change (render_lines e (l :: ls)) with ((l ++ e) ++ render_lines e ls).
    change (render_lines [10] (l :: ls)) with ((l ++ [10]) ++ render_lines [10] ls).
    rewrite <- !app_assoc. rewrite (translate_app _ _ Hl13). rewrite Hstep. reflexivity.
Qed.

(* ---------- file_lines ---------- *)
Lemma Forall_line_ok_nolf : forall ls, Forall line_ok ls -> Forall (fun l => ~ In 10 l) ls.
Proof.
  intros ls Hall. apply (Forall_impl _ (P := line_ok)); [|exact Hall].
  intros l [H10 _]. exact H10.
Qed.

(* the lines as the file object yields them: each with its final "\n", whatever the
   line end in the file was; a last line without line end comes last, unterminated *)
Lemma file_lines_render_raw : forall e, eol e -> forall ls last,
    Forall line_ok ls -> line_ok last ->
    file_lines (render_lines e ls ++ last) = map (fun l => l ++ [10]) ls ++ opt_last last.
Proof.
  intros e He ls last Hall Hlast. unfold file_lines.
  rewrite (translate_render e He ls last Hall Hlast).
  apply split_lines_render; [apply Forall_line_ok_nolf; exact Hall|exact (proj1 Hlast)].
Qed.

Theorem file_lines_render_eol : forall e, eol e -> forall ls : list str,
    Forall line_ok ls ->
    map rstrip_crlf (file_lines (render_lines e ls)) = ls.
Proof.
  intros e He ls Hall. rewrite <- (app_nil_r (render_lines e ls)).
  assert (Hnil : line_ok []) by (split; intros []).
  rewrite (file_lines_render_raw e He ls [] Hall Hnil).
  cbn [opt_last]. rewrite app_nil_r. apply map_rstrip_lines. exact Hall.
Qed.

(* the final line end missing: the last line is [last], non-empty *)
Theorem file_lines_render_eol_nofinal : forall e, eol e -> forall (ls : list str) (last : str),
    Forall line_ok ls -> line_ok last -> last <> [] ->
    map rstrip_crlf (file_lines (render_lines e ls ++ last)) = ls ++ [last].
Proof.
  intros e He ls last Hall Hlast Hne.
  rewrite (file_lines_render_raw e He ls last Hall Hlast).
  rewrite map_app. f_equal.
  - apply map_rstrip_lines. exact Hall.
  - destruct last as [|c t]; [contradiction|].
    cbn [opt_last map]. rewrite (rstrip_crlf_clean _ Hlast). reflexivity.
Qed.

(* the four forms asked for, written out *)
Theorem file_lines_render : forall ls : list str,
    Forall (fun l => ~ In 10 l /\ ~ In 13 l) ls ->
    map rstrip_crlf (file_lines (concat (map (fun l => l ++ [10]) ls))) = ls.
Proof. intros ls Hall. apply (file_lines_render_eol [10]); [left; reflexivity|exact Hall]. Qed.

Theorem file_lines_render_crlf : forall ls : list str,
    Forall (fun l => ~ In 10 l /\ ~ In 13 l) ls ->
    map rstrip_crlf (file_lines (concat (map (fun l => l ++ [13; 10]) ls))) = ls.
Proof.
  intros ls Hall. apply (file_lines_render_eol [13; 10]); [right; left; reflexivity|exact Hall].
Qed.

Theorem file_lines_render_cr : forall ls : list str,
    Forall (fun l => ~ In 10 l /\ ~ In 13 l) ls ->
    map rstrip_crlf (file_lines (concat (map (fun l => l ++ [13]) ls))) = ls.
Proof.
  intros ls Hall. apply (file_lines_render_eol [13]); [right; right; reflexivity|exact Hall].
Qed.

Theorem file_lines_render_nofinal : forall (e : str) (ls : list str) (last : str),
    e = [10] \/ e = [13; 10] \/ e = [13] ->
    Forall (fun l => ~ In 10 l /\ ~ In 13 l) ls ->
    ~ In 10 last /\ ~ In 13 last -> last <> [] ->
    map rstrip_crlf (file_lines (concat (map (fun l => l ++ e) ls) ++ last)) = ls ++ [last].
Proof.
  intros e ls last He Hall Hlast Hne.
  apply (file_lines_render_eol_nofinal e He ls last Hall Hlast Hne).
Qed.

(* ---------- ili_file_lines ---------- *)
Lemma render_with_lines : forall e rows,
    render_with e rows = render_lines e (map join_tab rows).
Proof. intros e rows. unfold render_with, render_lines. rewrite map_map. reflexivity. Qed.

Lemma ili_file_lines_map : forall text,
    ili_file_lines text = map split_tab (map rstrip_crlf (file_lines text)).
Proof. intro text. unfold ili_file_lines. rewrite map_map. reflexivity. Qed.

Lemma rows_lines_ok : forall rows : list (list str),
    Forall (fun row => Forall field_ok row) rows -> Forall line_ok (map join_tab rows).
Proof.
  intros rows Hall. rewrite Forall_map. apply (Forall_impl _ (P := fun row => Forall field_ok row)).
  - intros row Hrow. apply join_tab_line_ok. exact Hrow.
  - exact Hall.
Qed.

Lemma map_split_join : forall rows : list (list str),
    Forall (fun row => row <> [] /\ Forall field_ok row) rows ->
    map split_tab (map join_tab rows) = rows.
Proof.
  induction rows as [|row rows IH]; intro Hall.
  - reflexivity.
  - inversion Hall as [|r0 rs0 [Hne Hrow] Hrows]; subst r0 rs0.
    cbn [map]. rewrite (IH Hrows). rewrite split_tab_join; [reflexivity|exact Hne|].
    apply (Forall_impl _ (P := field_ok)); [|exact Hrow]. intros f [H9 _]. exact H9.
Qed.

Lemma rows_ok_fields : forall rows : list (list str),
    Forall (fun row => row <> [] /\ Forall field_ok row) rows ->
    Forall (fun row => Forall field_ok row) rows.
Proof.
  intros rows Hall. apply (Forall_impl _ (P := fun row => row <> [] /\ Forall field_ok row));
    [|exact Hall]. intros row [_ Hrow]. exact Hrow.
Qed.

(* any of the three line ends, used uniformly *)
Theorem ili_file_lines_render_eol : forall e, eol e -> forall rows : list (list str),
    Forall (fun row => row <> [] /\ Forall field_ok row) rows ->
    ili_file_lines (render_with e rows) = rows.
Proof.
  intros e He rows Hall. rewrite ili_file_lines_map, render_with_lines.
  rewrite (file_lines_render_eol e He _ (rows_lines_ok rows (rows_ok_fields rows Hall))).
  apply map_split_join. exact Hall.
Qed.

(* the round trip the property needs: rows written with "\n" line ends *)
Theorem ili_file_lines_render : forall rows : list (list str),
    Forall (fun row => row <> [] /\
                       Forall (fun f => ~ In 9 f /\ ~ In 10 f /\ ~ In 13 f) row) rows ->
    ili_file_lines (render rows) = rows.
Proof.
  intros rows Hall. apply (ili_file_lines_render_eol [10]); [left; reflexivity|exact Hall].
Qed.

(* hence add_ili_text on a rendered file is add_ili on the rows *)
Corollary add_ili_text_render : forall (d : db) (rows : list (list str)),
    Forall (fun row => row <> [] /\
                       Forall (fun f => ~ In 9 f /\ ~ In 10 f /\ ~ In 13 f) row) rows ->
    add_ili_text d (render rows) = add_ili d rows.
Proof.
  intros d rows Hall. unfold add_ili_text. rewrite (ili_file_lines_render rows Hall). reflexivity.
Qed.

(* ---------- the empty file, the file "\n" ---------- *)
Theorem ili_file_lines_nil : ili_file_lines [] = [].
Proof. reflexivity. Qed.

(* add_ili then reports the error of next(fh) *)
Corollary add_ili_text_nil : forall d, add_ili_text d [] = OtherError.
Proof. intro d. reflexivity. Qed.

Example just_newline : ili_file_lines [10] = [[[]]].
Proof. vm_compute. reflexivity. Qed.

(* ---------- examples ---------- *)
(* U+2028, U+2029, U+0085, form feed, vertical tab, FS, GS, RS inside the definition:
   str.splitlines() would break at each of them, a text-mode file object at none *)
Definition other_seps_definition : str :=
  [97; 8232; 98; 8233; 99; 133; 100; 12; 101; 11; 102; 28; 103; 29; 104; 30; 105].
Definition other_seps_row : list str := [[105; 49]; [97; 99; 116; 105; 118; 101]; other_seps_definition].

Example other_separators_kept :
  ili_file_lines (render [other_seps_row]) = [other_seps_row]
  /\ file_lines (render [other_seps_row]) = [join_tab other_seps_row ++ [10]].
Proof. vm_compute. split; reflexivity. Qed.

(* header "ili\tstatus" ended by "\r\n", "i1\tactive" ended by a lone "\r",
   "i2\t" (second field empty) without a final line end *)
Example crlf_and_cr :
  let text := [105; 108; 105; 9; 115; 116; 97; 116; 117; 115; 13; 10;
               105; 49; 9; 97; 99; 116; 105; 118; 101; 13;
               105; 50; 9] in
  file_lines text = [[105; 108; 105; 9; 115; 116; 97; 116; 117; 115; 10];
                     [105; 49; 9; 97; 99; 116; 105; 118; 101; 10];
                     [105; 50; 9]]
  /\ ili_file_lines text = [[[105; 108; 105]; [115; 116; 97; 116; 117; 115]];
                            [[105; 49]; [97; 99; 116; 105; 118; 101]];
                            [[105; 50]; []]].
Proof. vm_compute. split; reflexivity. Qed.

(* further agreement with CPython 3 (checked with /venv/bin/python on temporary files):
   list(fh) for b'a\r\r\n\n\r' is ['a\n','\n','\n','\n']; for b'a\n\rb' it is ['a\n','\n','b'];
   'a\n\r\n'.rstrip('\r\n') == 'a'; 'a\t\tb\t'.split('\t') == ['a','','b',''] *)
Example python_agreement :
  file_lines [97; 13; 13; 10; 10; 13] = [[97; 10]; [10]; [10]; [10]]
  /\ file_lines [97; 10; 13; 98] = [[97; 10]; [10]; [98]]
  /\ file_lines [13] = [[10]]
  /\ rstrip_crlf [97; 10; 13; 10] = [97]
  /\ rstrip_crlf [13; 97; 10; 98] = [13; 97; 10; 98]
  /\ split_tab [97; 9; 9; 98; 9] = [[97]; []; [98]; []]
  /\ split_tab [] = [[]].
Proof. vm_compute. repeat split; reflexivity. Qed.

Print Assumptions split_tab_join.
Print Assumptions file_lines_render_eol.
Print Assumptions file_lines_render_eol_nofinal.
Print Assumptions file_lines_render.
Print Assumptions file_lines_render_crlf.
Print Assumptions file_lines_render_cr.
Print Assumptions file_lines_render_nofinal.
Print Assumptions ili_file_lines_render_eol.
Print Assumptions ili_file_lines_render.
Print Assumptions add_ili_text_render.
Print Assumptions ili_file_lines_nil.
Print Assumptions add_ili_text_nil.
Print Assumptions just_newline.
Print Assumptions other_separators_kept.
Print Assumptions crlf_and_cr.
Print Assumptions python_agreement.
Print Assumptions run_add_ili_text.
