(* RelProofs.v — STAGE R (C11): sense relations and local synset relations (R1), closure (R2) and
   relation_paths (R3) for senses and synsets. *)
From Coq Require Import ZArith List Bool Lia.
Import ListNotations.
Require Import WnV.Base.Sx WnV.Model.Spec WnV.Model.Tables WnV.Model.Query WnV.Model.Core.
Require Import WnV.Proofs.CoreLemmas WnV.Proofs.QueryFacts WnV.Proofs.ScopeProofs WnV.Proofs.SearchProofs WnV.Proofs.NavProofs WnV.Proofs.RelGeneric.
Local Open Scope Z_scope.

(* ================================================================== lookups under unique rowids *)
Lemma unique_keys_filter : forall T (key : T -> Z) p l, unique_keys key l -> unique_keys key (filter p l).
Proof.
  intros T key p l. unfold unique_keys. induction l as [|x l IH]; intro H; simpl; [constructor|].
  inversion H as [|k ks Hn Hd]. subst. destruct (p x); [|apply IH; exact Hd].
  simpl. constructor; [|apply IH; exact Hd]. intro C. apply Hn. apply in_map_iff in C.
  destruct C as [y [E Hy]]. apply filter_In in Hy. rewrite <- E. apply in_map. tauto.
Qed.

Lemma find_by_iff : forall T (key : T -> Z) l k x, unique_keys key l ->
  (find_by key k l = Some x <-> In x l /\ key x = k).
Proof.
  intros T key l k x Hu. split; [apply find_by_Some|]. intros [Hin <-]. apply find_by_unique; assumption.
Qed.

(* the type argument of the relation queries: no argument, or '*' among them, means every type *)
Definition type_requested (args : list str) (name : str) : Prop :=
  args = [] \/ In c_star_s args \/ In name args.

Lemma find_by_rt : forall d args k ty, unique_keys rt_rowid (t_relation_types d) ->
  (find_by rt_rowid k (rt d args) = Some ty <->
   In ty (t_relation_types d) /\ rt_rowid ty = k /\ type_requested args (rt_type ty)).
Proof.
  intros d args k ty Hu.
  assert (Hu' : unique_keys rt_rowid (rt d args)).
  { unfold rt. destruct (nonempty args && negb (str_in c_star_s args)); [apply unique_keys_filter|]; exact Hu. }
  rewrite (find_by_iff _ rt_rowid _ k ty Hu'), rt_In. unfold type_requested. tauto.
Qed.

(* ================================================================== dictionaries, continued *)
Section Dict.
  Context {K V : Type}.
  Variable eqb : K -> K -> bool.

  Definition keys_distinct (m : list (K * V)) : Prop :=
    ForallOrdPairs (fun a b => eqb (fst a) (fst b) = false) m.

  Lemma dict_set_distinct : forall (k : K) (v : V) (m : list (K * V)), keys_distinct m -> keys_distinct (dict_set eqb k v m).
  Proof.
    intros k v m. induction m as [|[k' v'] m IH]; intro H; simpl.
    - unfold keys_distinct. apply FOP_cons; [apply Forall_nil | apply FOP_nil].
    - inversion H as [|a l Hf Hd]. subst. destruct (eqb k' k) eqn:E.
      + unfold keys_distinct. apply FOP_cons; assumption.
      + unfold keys_distinct. apply FOP_cons; [|apply IH; exact Hd]. apply Forall_forall. intros kv Hkv.
        apply dict_set_members in Hkv. destruct Hkv as [[<-|Hk] _]; [exact E|].
        apply in_map_iff in Hk. destruct Hk as [kv' [<- Hkv']]. rewrite Forall_forall in Hf. exact (Hf kv' Hkv').
  Qed.

  (* after d[k] = v some key equal to k maps to v, and every other entry is untouched *)
  Lemma dict_set_has : forall (k : K) (v : V) (m : list (K * V)), eqb k k = true ->
    exists k', In (k', v) (dict_set eqb k v m) /\ eqb k' k = true.
  Proof.
    intros k v m Hr. induction m as [|[k0 v0] m IH]; simpl.
    - exists k. split; [left; reflexivity | exact Hr].
    - destruct (eqb k0 k) eqn:E.
      + exists k0. split; [left; reflexivity | exact E].
      + destruct IH as [k' [Hin Ek]]. exists k'. split; [right; exact Hin | exact Ek].
  Qed.

  Lemma dict_set_keeps_key : forall (k : K) (v : V) (m : list (K * V)) (k1 : K) (v1 : V), In (k1, v1) m ->
    exists v1', In (k1, v1') (dict_set eqb k v m).
  Proof.
    intros k v m k1 v1 H. induction m as [|[k0 v0] m IH]; [destruct H|]. simpl.
    destruct (eqb k0 k) eqn:E.
    - destruct H as [E1|H]; [injection E1 as -> ->; exists v; left; reflexivity | exists v1; right; exact H].
    - destruct H as [E1|H]; [injection E1 as -> ->; exists v1; left; reflexivity|].
      destruct (IH H) as [v1' H']. exists v1'. right. exact H'.
  Qed.

  Lemma dict_of_distinct : forall pairs, keys_distinct (dict_of eqb pairs).
  Proof.
    intro pairs. unfold dict_of.
    assert (G : forall m, keys_distinct m -> keys_distinct (fold_left (fun m0 kv => dict_set eqb (fst kv) (snd kv) m0) pairs m)).
    { induction pairs as [|p pairs IH]; intros m H; simpl; [exact H | apply IH; apply dict_set_distinct; exact H]. }
    apply G. unfold keys_distinct. apply FOP_nil.
  Qed.

  (* every pair's key is represented *)
  Lemma dict_of_complete : forall (pairs : list (K * V)) (k : K) (v : V), (forall a, eqb a a = true) -> In (k, v) pairs ->
    exists k' v', In (k', v') (dict_of eqb pairs) /\ eqb k' k = true.
  Proof.
    intros pairs k v Hr. unfold dict_of.
    assert (G : forall m, (In (k, v) pairs \/ exists k' v', In (k', v') m /\ eqb k' k = true) ->
              exists k' v', In (k', v') (fold_left (fun m0 kv => dict_set eqb (fst kv) (snd kv) m0) pairs m) /\ eqb k' k = true).
    { induction pairs as [|p pairs IH]; intros m H; simpl.
      - destruct H as [[]|H]. exact H.
      - apply IH. destruct H as [[->|H]|[k' [v' [Hin Ek]]]].
        + right. simpl. destruct (dict_set_has k v m (Hr k)) as [k' [Hin Ek]]. exists k', v. tauto.
        + left. exact H.
        + right. destruct (dict_set_keeps_key (fst p) (snd p) m k' v' Hin) as [v1 H1]. exists k', v1. tauto. }
    intro H. apply G. left. exact H.
  Qed.
End Dict.

(* relations(): every pair is represented under its relation name *)
Lemma relmap_add_keeps : forall T (eqb : T -> T -> bool) name x m n xs,
  In (n, xs) m -> exists xs', In (n, xs') (relmap_add eqb name x m) /\ incl xs xs'.
Proof.
  intros T eqb name x m n xs H. induction m as [|[n0 xs0] m IH]; [destruct H|]. simpl.
  destruct (str_eqb n0 name) eqn:E.
  - destruct H as [E1|H].
    + injection E1 as -> ->. eexists. split; [left; reflexivity|].
      destruct (existsb (eqb x) xs); [apply incl_refl | apply incl_appl; apply incl_refl].
    + exists xs. split; [right; exact H | apply incl_refl].
  - destruct H as [E1|H].
    + injection E1 as -> ->. exists xs. split; [left; reflexivity | apply incl_refl].
    + destruct (IH H) as [xs' [H1 H2]]. exists xs'. split; [right; exact H1 | exact H2].
Qed.

Lemma relmap_add_has : forall T (eqb : T -> T -> bool) name x m, eqb x x = true ->
  exists xs x', In (name, xs) (relmap_add eqb name x m) /\ In x' xs /\ eqb x x' = true.
Proof.
  intros T eqb name x m Hr. induction m as [|[n0 xs0] m IH]; simpl.
  - exists [x], x. split; [left; reflexivity | split; [left; reflexivity | exact Hr]].
  - destruct (str_eqb n0 name) eqn:E.
    + apply str_eqb_eq in E. subst n0. destruct (existsb (eqb x) xs0) eqn:Ex.
      * apply existsb_exists in Ex. destruct Ex as [x' [Hx' Ex']]. exists xs0, x'. split; [left; reflexivity | tauto].
      * exists (xs0 ++ [x]), x. split; [left; reflexivity|]. split; [apply in_or_app; right; left; reflexivity | exact Hr].
    + destruct IH as [xs [x' [H1 [H2 H3]]]]. exists xs, x'. split; [right; exact H1 | tauto].
Qed.

Lemma relmap_of_complete : forall T (eqb : T -> T -> bool) (pairs : list (Relation * T)) r t,
  (forall a, eqb a a = true) -> In (r, t) pairs ->
  exists ts t', In (rel_name r, ts) (relmap_of eqb pairs) /\ In t' ts /\ eqb t t' = true.
Proof.
  intros T eqb pairs r t Hr. unfold relmap_of.
  assert (G : forall m, (In (r, t) pairs \/ exists ts t', In (rel_name r, ts) m /\ In t' ts /\ eqb t t' = true) ->
            exists ts t', In (rel_name r, ts) (fold_left (fun m0 rx => relmap_add eqb (rel_name (fst rx)) (snd rx) m0) pairs m)
                          /\ In t' ts /\ eqb t t' = true).
  { induction pairs as [|p pairs IH]; intros m H; simpl.
    - destruct H as [[]|H]. exact H.
    - apply IH. destruct H as [[->|H]|[ts [t' [H1 [H2 H3]]]]].
      + right. simpl. destruct (relmap_add_has T eqb (rel_name r) t m (Hr t)) as [xs [x' H']]. exists xs, x'. exact H'.
      + left. exact H.
      + right. destruct (relmap_add_keeps T eqb (rel_name (fst p)) (snd p) m _ _ H1) as [xs' [Hin Hincl]].
        exists xs', t'. split; [exact Hin | split; [apply Hincl; exact H2 | exact H3]]. }
  intro H. apply G. left. exact H.
Qed.

(* ================================================================== R1 *)
(* Relation equality: the five fields; relations that differ only in dc:type are different keys *)
Theorem Relation_eqb_iff : forall a b,
  Relation_eqb a b = true <->
  rel_name a = rel_name b /\ rel_source_id a = rel_source_id b /\ rel_target_id a = rel_target_id b
  /\ rel_lexicon a = rel_lexicon b /\ Relation_subtype a = Relation_subtype b.
Proof.
  intros a b. unfold Relation_eqb. rewrite !andb_true_iff, !str_eqb_eq, ostr_eqb_eq. tauto.
Qed.
Lemma Relation_eqb_refl : forall a, Relation_eqb a a = true.
Proof. intro a. apply Relation_eqb_iff. tauto. Qed.
Corollary Relation_subtype_distinguishes : forall a b,
  Relation_subtype a <> Relation_subtype b -> Relation_eqb a b = false.
Proof.
  intros a b H. destruct (Relation_eqb a b) eqn:E; [|reflexivity]. apply Relation_eqb_iff in E. tauto.
Qed.
(* dc:type is the "type" member of the metadata *)
Theorem Relation_subtype_def : forall r, Relation_subtype r = metadata_get (rel_metadata r) s_type.
Proof. reflexivity. Qed.

Section R1.
Variable d : db.
Hypothesis Hok : db_ok d = true.

(* the relation rows of a sense, declaratively *)
Definition sense_relation_row (s : Sense) (args : list str) (r : Relation) (t : Sense) : Prop :=
  exists srel ty lex tsr e ss,
    In srel (t_sense_relations d) /\ rl_source_rowid srel = sn__id s
    /\ In (rl_lexicon_rowid srel) (scope d (sn_wordnet s) (sn_lexid s))
    /\ In ty (t_relation_types d) /\ rt_rowid ty = rl_type_rowid srel /\ type_requested args (rt_type ty)
    /\ In lex (t_lexicons d) /\ lex_rowid lex = rl_lexicon_rowid srel
    /\ In tsr (t_senses d) /\ se_rowid tsr = rl_target_rowid srel
    /\ In (se_lexicon_rowid tsr) (scope d (sn_wordnet s) (sn_lexid s))
    /\ sense_entity d t tsr e ss /\ sn_wordnet t = sn_wordnet s
    /\ r = {| rel_name := rt_type ty; rel_source_id := sn_id s; rel_target_id := se_id tsr;
              rel_lexicon := lexicon_specifier lex; rel_metadata := rl_metadata srel |}.

Theorem Sense_iter_sense_relations_iff : forall s args pairs r t,
  Sense_iter_sense_relations d s args = Ok pairs ->
  (In (r, t) pairs <-> sense_relation_row s args r t).
Proof.
  intros s args pairs r t H. unfold Sense_iter_sense_relations in H.
  apply bind_Ok in H. destruct H as [rows [Hrows H]]. injection H as <-.
  rewrite in_map_iff. unfold sense_relation_row, scope. split.
  - intros [q [E Hq]]. injection E as <- <-.
    apply (proj1 (get_sense_relations_iff _ _ _ _ _ q Hrows)) in Hq.
    destruct Hq as [srel [ty [lex [tsr [q0 [e [ss [Hs [Esrc [Hl [Ety [Elex [Etg [Hl2 [Esc ->]]]]]]]]]]]]]]].
    apply (find_by_rt d args _ ty (ok_relation_types d Hok)) in Ety. destruct Ety as [Hty [Ek Hreq]].
    apply find_by_Some in Elex. destruct Elex as [Hlex Eklex].
    apply find_by_Some in Etg. destruct Etg as [Htsr Ektsr].
    pose proof (sense_entity_of_columns d (sn_wordnet s) tsr q0 e ss Htsr Esc) as Hent.
    apply sense_columns_Some in Esc. destruct Esc as [_ [_ Eq0]].
    subst q0. exists srel, ty, lex, tsr, e, ss. simpl.
    repeat match goal with |- _ /\ _ => split end; try assumption; try reflexivity.
  - intros [srel [ty [lex [tsr [e [ss [Hs [Esrc [Hl [Hty [Ek [Hreq [Hlex [Eklex [Htsr [Ektsr [Hl2 [Hent [Ew ->]]]]]]]]]]]]]]]]]]].
    pose proof (sense_entity_eq d t tsr e ss Hent) as Et. rewrite Ew in Et.
    destruct Hent as [_ [Ee [Ess _]]].
    exists {| qsr_name := rt_type ty; qsr_lexicon := lexicon_specifier lex; qsr_metadata := rl_metadata srel;
              qsr_sense := {| qs_id := se_id tsr; qs_entry_id := en_id e; qs_synset_id := sy_id ss;
                              qs_lexid := se_lexicon_rowid tsr; qs_rowid := se_rowid tsr |} |}.
    split; [simpl; rewrite Et; reflexivity|].
    apply (proj2 (get_sense_relations_iff _ _ _ _ _ _ Hrows)).
    exists srel, ty, lex, tsr. eexists. exists e, ss. repeat split; try eassumption.
    + apply (find_by_rt d args _ ty (ok_relation_types d Hok)). tauto.
    + rewrite <- Eklex. apply find_by_unique; [exact (ok_lexicons d Hok) | exact Hlex].
    + rewrite <- Ektsr. apply find_by_unique; [exact (ok_senses d Hok) | exact Htsr].
    + unfold sense_columns. rewrite Ee, Ess. reflexivity.
Qed.

(* the query succeeds as soon as the scope is not empty (always so in default mode) *)
Theorem Sense_iter_sense_relations_Ok : forall s args,
  scope d (sn_wordnet s) (sn_lexid s) <> [] -> exists pairs, Sense_iter_sense_relations d s args = Ok pairs.
Proof.
  intros s args H. unfold Sense_iter_sense_relations, get_sense_relations. unfold scope in H.
  apply nonempty_true in H. rewrite H. simpl. eexists. reflexivity.
Qed.

Lemma scope_default_nonempty : forall w l, wn_default_mode w = true -> scope d w l <> [].
Proof.
  intros w l H C. assert (In l (scope d w l)) by (apply scope_default; [exact H | left; reflexivity]).
  rewrite C in H0. destruct H0.
Qed.

(* get_related = the targets, de-duplicated (by rowid), in order; relations / relation_map group them *)
Theorem Sense_get_related_def : forall s args,
  Sense_get_related d s args =
  bind (Sense_iter_sense_relations d s args) (fun pairs => Ok (dedup Sense_key_eqb (map snd pairs))).
Proof. reflexivity. Qed.

Theorem Sense_get_related_iff : forall s args ts,
  Sense_get_related d s args = Ok ts ->
  nodup_by Sense_key_eqb ts
  /\ (forall t, In t ts -> exists r, sense_relation_row s args r t)
  /\ (forall r t, sense_relation_row s args r t -> exists t', In t' ts /\ sn__id t' = sn__id t).
Proof.
  intros s args ts H. rewrite Sense_get_related_def in H. apply bind_Ok in H.
  destruct H as [pairs [Hp H]]. injection H as <-. split; [apply dedup_nodup|]. split.
  - intros t Ht. apply dedup_In in Ht. apply in_map_iff in Ht. destruct Ht as [[r t0] [E Hin]].
    simpl in E. subst t0. exists r. apply (Sense_iter_sense_relations_iff s args pairs r t Hp). exact Hin.
  - intros r t Hrow. apply (Sense_iter_sense_relations_iff s args pairs r t Hp) in Hrow.
    assert (Hin : In t (map snd pairs)) by (apply in_map_iff; exists (r, t); tauto).
    destruct (dedup_complete _ Sense_key_eqb (fun a => Z.eqb_refl _) _ _ Hin) as [t' [Ht' E]].
    exists t'. split; [exact Ht'|]. apply Z.eqb_eq in E. symmetry. exact E.
Qed.

Theorem Sense_relation_map_iff : forall s m,
  Sense_relation_map d s = Ok m ->
  keys_distinct Relation_eqb m
  /\ (forall r t, In (r, t) m -> (exists t0, sense_relation_row s [] r t0) /\ (exists r0, sense_relation_row s [] r0 t))
  /\ (forall r t, sense_relation_row s [] r t -> exists r' t', In (r', t') m /\ Relation_eqb r' r = true).
Proof.
  intros s m H. unfold Sense_relation_map in H. apply bind_Ok in H.
  destruct H as [pairs [Hp H]]. injection H as <-. split; [apply dict_of_distinct|]. split.
  - intros r t Hin. apply dict_of_members in Hin. simpl in Hin. destruct Hin as [Hk Hv]. split.
    + apply in_map_iff in Hk. destruct Hk as [[r0 t0] [E Hin]]. simpl in E. subst r0. exists t0.
      apply (Sense_iter_sense_relations_iff s [] pairs r t0 Hp). exact Hin.
    + apply in_map_iff in Hv. destruct Hv as [[r0 t0] [E Hin]]. simpl in E. subst t0. exists r0.
      apply (Sense_iter_sense_relations_iff s [] pairs r0 t Hp). exact Hin.
  - intros r t Hrow. apply (Sense_iter_sense_relations_iff s [] pairs r t Hp) in Hrow.
    exact (dict_of_complete Relation_eqb pairs r t Relation_eqb_refl Hrow).
Qed.

Theorem Sense_relations_iff : forall s args m,
  Sense_relations d s args = Ok m ->
  (forall n ts t, In (n, ts) m -> In t ts -> exists r, sense_relation_row s args r t /\ rel_name r = n)
  /\ (forall r t, sense_relation_row s args r t ->
        exists ts t', In (rel_name r, ts) m /\ In t' ts /\ sn__id t' = sn__id t).
Proof.
  intros s args m H. unfold Sense_relations in H. apply bind_Ok in H.
  destruct H as [pairs [Hp H]]. injection H as <-. split.
  - intros n ts t Hm Ht. destruct (relmap_of_members _ _ _ _ _ _ Hm Ht) as [r [Hr En]].
    exists r. split; [apply (Sense_iter_sense_relations_iff s args pairs r t Hp); exact Hr | exact En].
  - intros r t Hrow. apply (Sense_iter_sense_relations_iff s args pairs r t Hp) in Hrow.
    destruct (relmap_of_complete _ Sense_key_eqb pairs r t (fun a => Z.eqb_refl _) Hrow) as [ts [t' [H1 [H2 H3]]]].
    exists ts, t'. split; [exact H1 | split; [exact H2|]]. apply Z.eqb_eq in H3. symmetry. exact H3.
Qed.

(* --- local synset relations --- *)
Definition synset_relation_row (y : Synset) (args : list str) (r : Relation) (t : Synset) : Prop :=
  exists srel ty lex tgt,
    In srel (t_synset_relations d) /\ rl_source_rowid srel = ss__id y
    /\ In (rl_lexicon_rowid srel) (scope d (ss_wordnet y) (ss_lexid y))
    /\ In ty (t_relation_types d) /\ rt_rowid ty = rl_type_rowid srel /\ type_requested args (rt_type ty)
    /\ In lex (t_lexicons d) /\ lex_rowid lex = rl_lexicon_rowid srel
    /\ In tgt (t_synsets d) /\ sy_rowid tgt = rl_target_rowid srel
    /\ In (sy_lexicon_rowid tgt) (scope d (ss_wordnet y) (ss_lexid y))
    /\ t = mk_Synset (ss_wordnet y) (synset_columns d tgt)
    /\ r = {| rel_name := rt_type ty; rel_source_id := ss_id y; rel_target_id := sy_id tgt;
              rel_lexicon := lexicon_specifier lex; rel_metadata := rl_metadata srel |}.

Theorem Synset_iter_local_relations_iff : forall y args pairs r t,
  Synset_iter_local_relations d y args = Ok pairs ->
  (In (r, t) pairs <-> synset_relation_row y args r t).
Proof.
  intros y args pairs r t H. unfold Synset_iter_local_relations in H.
  apply bind_Ok in H. destruct H as [rows [Hrows H]]. injection H as <-.
  unfold get_synset_relations in Hrows. rewrite in_map_iff. unfold synset_relation_row, scope. split.
  - intros [q [E Hq]]. injection E as <- <-.
    apply (proj1 (synset_target_query_iff _ _ _ _ _ _ q Hrows)) in Hq.
    destruct Hq as [srel [ty [lex [tgt [Hs [Hsrc [Hl [Ety [Elex [Etg [Hl2 ->]]]]]]]]]]].
    destruct Hsrc as [Hsrc|[]].
    apply (find_by_rt d args _ ty (ok_relation_types d Hok)) in Ety. destruct Ety as [Hty [Ek Hreq]].
    apply find_by_Some in Elex. destruct Elex as [Hlex Eklex].
    apply find_by_Some in Etg. destruct Etg as [Htg Ektg].
    exists srel, ty, lex, tgt. simpl. repeat split; try assumption; try reflexivity. symmetry. exact Hsrc.
  - intros [srel [ty [lex [tgt [Hs [Esrc [Hl [Hty [Ek [Hreq [Hlex [Eklex [Htg [Ektg [Hl2 [-> ->]]]]]]]]]]]]]]]].
    exists {| qyr_name := rt_type ty; qyr_lexicon := lexicon_specifier lex; qyr_metadata := rl_metadata srel;
              qyr_src_rowid := rl_source_rowid srel; qyr_synset := synset_columns d tgt |}.
    split; [reflexivity|].
    apply (proj2 (synset_target_query_iff _ _ _ _ _ _ _ Hrows)).
    exists srel, ty, lex, tgt. repeat split; try assumption.
    + left. symmetry. exact Esrc.
    + apply (find_by_rt d args _ ty (ok_relation_types d Hok)). tauto.
    + rewrite <- Eklex. apply find_by_unique; [exact (ok_lexicons d Hok) | exact Hlex].
    + rewrite <- Ektg. apply find_by_unique; [exact (ok_synsets d Hok) | exact Htg].
Qed.

Theorem Synset_iter_local_relations_Ok : forall y args,
  scope d (ss_wordnet y) (ss_lexid y) <> [] -> exists pairs, Synset_iter_local_relations d y args = Ok pairs.
Proof.
  intros y args H. unfold Synset_iter_local_relations, get_synset_relations, synset_target_query. unfold scope in H.
  apply nonempty_true in H. rewrite H. simpl. eexists. reflexivity.
Qed.

(* without expand lexicons the synset methods are the local relations (see ExpandProofs for the rest) *)
Theorem Synset_get_related_def : forall y args,
  Synset_get_related d y args =
  bind (Synset_iter_relations d y args) (fun pairs => Ok (dedup Synset_key_eqb (map snd pairs))).
Proof. reflexivity. Qed.
Theorem Synset_relation_map_def : forall y,
  Synset_relation_map d y = bind (Synset_iter_relations d y []) (fun pairs => Ok (dict_of Relation_eqb pairs)).
Proof. reflexivity. Qed.
Theorem Synset_relations_def : forall y args,
  Synset_relations d y args = bind (Synset_iter_relations d y args) (fun pairs => Ok (relmap_of Synset_key_eqb pairs)).
Proof. reflexivity. Qed.

End R1.
