(* Proofs/TaxReach.v — reachability / distance theorems over the inductive
   specification predicates of TaxSpec.v (chains, maximal simple chains,
   reach, is_dist, min_index).  Purely about the specification vocabulary. *)
From Coq Require Import ZArith List Bool Lia Arith.
Import ListNotations.
Require Import WnV.Base.Sx WnV.Model.Taxonomy WnV.Proofs.TaxSpec.

Section TaxReach.
  Variable hyp : node -> list node.

  (* ------------------------------------------------------------------ *)
  (* decidability on nodes                                               *)

  Lemma In_node_dec : forall (a : node) (l : list node), {In a l} + {~ In a l}.
  Proof. exact (in_dec Z.eq_dec). Qed.

  (* ------------------------------------------------------------------ *)
  (* [last]                                                              *)

  Lemma last_cons : forall (p : list node) t x, last (t :: p) x = last p t.
  Proof.
    induction p as [|a p IH]; intros t x.
    - reflexivity.
    - change (last (t :: a :: p) x) with (last (a :: p) x).
      rewrite (IH a x), (IH a t). reflexivity.
  Qed.

  Lemma last_app : forall (l1 l2 : list node) d, last (l1 ++ l2) d = last l2 (last l1 d).
  Proof.
    induction l1 as [|a l1 IH]; intros l2 d.
    - reflexivity.
    - change ((a :: l1) ++ l2) with (a :: (l1 ++ l2)).
      rewrite !last_cons. apply IH.
  Qed.

  Lemma last_app_cons : forall (l1 : list node) y l2 d, last (l1 ++ y :: l2) d = last l2 y.
  Proof.
    intros l1 y l2 d. rewrite last_app. apply last_cons.
  Qed.

  Lemma last_In : forall (p : list node) x, In (last p x) (x :: p).
  Proof.
    induction p as [|a p IH]; intros x.
    - left; reflexivity.
    - rewrite last_cons. right. apply IH.
  Qed.

  (* ------------------------------------------------------------------ *)
  (* [NoDup] and append                                                  *)

  Lemma NoDup_app_intro : forall (l1 l2 : list node),
      NoDup l1 -> NoDup l2 -> (forall y, In y l1 -> ~ In y l2) -> NoDup (l1 ++ l2).
  Proof.
    induction l1 as [|a l1 IH]; intros l2 H1 H2 HD.
    - exact H2.
    - simpl. inversion H1 as [|a' l' Ha Hl]; subst. constructor.
      + intros Hin. apply in_app_or in Hin. destruct Hin as [Hin|Hin].
        * contradiction.
        * apply (HD a); [left; reflexivity | assumption].
      + apply IH; try assumption. intros y Hy. apply HD. right; assumption.
  Qed.

  Lemma NoDup_app_elim : forall (l1 l2 : list node),
      NoDup (l1 ++ l2) -> NoDup l1 /\ NoDup l2 /\ (forall y, In y l1 -> ~ In y l2).
  Proof.
    induction l1 as [|a l1 IH]; intros l2 H.
    - split; [constructor|]. split; [exact H|]. intros y [].
    - simpl in H. inversion H as [|a' l' Ha Hl]; subst.
      apply IH in Hl. destruct Hl as [H1 [H2 HD]].
      split; [|split].
      + constructor; [|assumption]. intros Hin. apply Ha. apply in_or_app. left; assumption.
      + assumption.
      + intros y [Hy|Hy] Hy2.
        * subst y. apply Ha. apply in_or_app. right; assumption.
        * exact (HD y Hy Hy2).
  Qed.

  (* ------------------------------------------------------------------ *)
  (* chains                                                              *)

  Lemma chain_inv_cons : forall x t p, chain hyp x (t :: p) -> In t (hyp x) /\ chain hyp t p.
  Proof. intros x t p H. inversion H; subst. split; assumption. Qed.

  Lemma chain_app : forall l1 l2 x,
      chain hyp x (l1 ++ l2) <-> chain hyp x l1 /\ chain hyp (last l1 x) l2.
  Proof.
    induction l1 as [|t l1 IH]; intros l2 x.
    - simpl. split.
      + intros H. split; [constructor | exact H].
      + intros [_ H]. exact H.
    - rewrite last_cons. change ((t :: l1) ++ l2) with (t :: (l1 ++ l2)). split.
      + intros H. apply chain_inv_cons in H. destruct H as [Ht H].
        apply IH in H. destruct H as [H1 H2].
        split; [constructor; assumption | assumption].
      + intros [H1 H2]. apply chain_inv_cons in H1. destruct H1 as [Ht H1].
        constructor; [assumption|]. apply IH. split; assumption.
  Qed.

  (* the node at position m of x :: p is reached by a chain of length m *)
  Lemma chain_nth : forall p x m c,
      chain hyp x p -> nth_error (x :: p) m = Some c ->
      exists q, chain hyp x q /\ last q x = c /\ length q = m.
  Proof.
    induction p as [|t p IH]; intros x m c Hc Hn.
    - destruct m as [|m]; simpl in Hn.
      + injection Hn as Hn. subst c. exists []. split; [constructor|]. split; reflexivity.
      + destruct m; discriminate.
    - destruct m as [|m]; simpl in Hn.
      + injection Hn as Hn. subst c. exists []. split; [constructor|]. split; reflexivity.
      + apply chain_inv_cons in Hc. destruct Hc as [Ht Hc].
        destruct (IH t m c Hc Hn) as [q [Hq [Hl Hlen]]].
        exists (t :: q). split; [constructor; assumption|].
        split; [rewrite last_cons; assumption | simpl; lia].
  Qed.

  Lemma chain_mem_reach : forall p x c,
      chain hyp x p -> In c (x :: p) -> exists q, chain hyp x q /\ last q x = c.
  Proof.
    intros p x c Hc Hin. apply In_nth_error in Hin. destruct Hin as [m Hm].
    destruct (chain_nth p x m c Hc Hm) as [q [Hq [Hl _]]].
    exists q. split; assumption.
  Qed.

  (* from any node of x :: p the rest of the chain leads to the same end *)
  Lemma chain_suffix : forall p x t,
      chain hyp x p -> In t (x :: p) -> exists b, chain hyp t b /\ last b t = last p x.
  Proof.
    induction p as [|a p IH]; intros x t Hc Hin.
    - destruct Hin as [Hin|[]]. subst t. exists []. split; [constructor|reflexivity].
    - destruct Hin as [Hin|Hin].
      + subst t. exists (a :: p). split; [assumption|reflexivity].
      + apply chain_inv_cons in Hc. destruct Hc as [Ha Hc].
        destruct (IH a t Hc Hin) as [b [Hb Hl]].
        exists b. split; [assumption|]. rewrite last_cons. assumption.
  Qed.

  Lemma nth_error_prefix_last : forall (q : list node) x r,
      nth_error (x :: q ++ r) (length q) = Some (last q x).
  Proof.
    induction q as [|t q IH]; intros x r.
    - reflexivity.
    - rewrite last_cons. simpl. apply (IH t r).
  Qed.

  (* ------------------------------------------------------------------ *)
  (* characterisation of MaxSimple                                       *)

  Lemma MaxSimple_char : forall vis x p,
      MaxSimple hyp vis x p <->
      chain hyp x p /\ NoDup p /\ (forall y, In y p -> ~ In y vis) /\
      (forall t, In t (hyp (last p x)) -> In t (p ++ vis)).
  Proof.
    intros vis x p. split.
    - intros H. induction H as [vis x Hend | vis x t p Ht Hnv HM IH].
      + split; [constructor|]. split; [constructor|]. split; [intros y []|].
        simpl. exact Hend.
      + destruct IH as [Hc [Hnd [Hav Hl]]].
        split; [constructor; assumption|]. split; [|split].
        * constructor; [|assumption]. intros Hin. apply (Hav t Hin). left; reflexivity.
        * intros y [Hy|Hy] Hv.
          -- subst y. contradiction.
          -- apply (Hav y Hy). right; assumption.
        * intros u Hu. rewrite last_cons in Hu. apply Hl in Hu. apply in_app_or in Hu.
          simpl. destruct Hu as [Hu|[Hu|Hu]].
          -- right. apply in_or_app. left; assumption.
          -- left; assumption.
          -- right. apply in_or_app. right; assumption.
    - revert vis x. induction p as [|t p IH]; intros vis x [Hc [Hnd [Hav Hl]]].
      + apply ms_end. simpl in Hl. exact Hl.
      + apply chain_inv_cons in Hc. destruct Hc as [Ht Hc].
        inversion Hnd as [|t' p' Htp Hndp]; subst.
        apply ms_step; [assumption | apply Hav; left; reflexivity |].
        apply IH. split; [assumption|]. split; [assumption|]. split.
        * intros y Hy [Hv|Hv].
          -- subst y. contradiction.
          -- apply (Hav y); [right; assumption|assumption].
        * intros u Hu. rewrite last_cons in Hl. apply Hl in Hu. simpl in Hu.
          destruct Hu as [Hu|Hu].
          -- apply in_or_app. right. left. assumption.
          -- apply in_app_or in Hu. apply in_or_app.
             destruct Hu as [Hu|Hu]; [left|right; right]; assumption.
  Qed.

  Lemma maximal_simple_MaxSimple : forall x p,
      maximal_simple hyp x p <-> MaxSimple hyp [x] x p.
  Proof.
    intros x p. rewrite MaxSimple_char. unfold maximal_simple. split.
    - intros [Hc [Hnd Hl]]. inversion Hnd as [|x' p' Hx Hndp]; subst.
      split; [assumption|]. split; [assumption|]. split.
      + intros y Hy [Hv|[]]. subst y. contradiction.
      + intros t Ht. apply Hl in Ht. apply in_or_app.
        destruct Ht as [Ht|Ht]; [right; left|left]; assumption.
    - intros [Hc [Hnd [Hav Hl]]]. split; [assumption|]. split.
      + constructor; [|assumption]. intros Hin. apply (Hav x Hin). left; reflexivity.
      + intros t Ht. apply Hl in Ht. apply in_app_or in Ht.
        destruct Ht as [Ht|[Ht|[]]]; [right|left]; assumption.
  Qed.

  (* ------------------------------------------------------------------ *)
  (* existence of maximal chains                                         *)

  Lemma pick_unvisited : forall (l vis : list node),
      (forall t, In t l -> In t vis) \/ (exists t, In t l /\ ~ In t vis).
  Proof.
    induction l as [|a l IH]; intros vis.
    - left. intros t [].
    - destruct (In_node_dec a vis) as [Ha|Ha].
      + destruct (IH vis) as [Hall|[t [Ht Hn]]].
        * left. intros t [Ht|Ht]; [subst; assumption | apply Hall; assumption].
        * right. exists t. split; [right; assumption|assumption].
      + right. exists a. split; [left; reflexivity|assumption].
  Qed.

  Lemma extend_vis : forall V vis x t,
      closed hyp V -> NoDup vis -> incl vis V -> In t (hyp x) -> ~ In t vis ->
      NoDup (t :: vis) /\ incl (t :: vis) V /\ S (length vis) <= length V.
  Proof.
    intros V vis x t HV Hnd Hincl Ht Hnv.
    assert (H1 : NoDup (t :: vis)) by (constructor; assumption).
    assert (H2 : incl (t :: vis) V).
    { intros y [Hy|Hy]; [subst y; apply (HV x); assumption | apply Hincl; assumption]. }
    split; [assumption|]. split; [assumption|].
    apply (NoDup_incl_length H1 H2).
  Qed.

  Lemma MaxSimple_exists_aux : forall V, closed hyp V -> forall n vis x,
      length V - length vis <= n -> NoDup vis -> incl vis V ->
      exists p, MaxSimple hyp vis x p.
  Proof.
    intros V HV. induction n as [|n IH]; intros vis x Hn Hnd Hincl.
    - destruct (pick_unvisited (hyp x) vis) as [Hall|[t [Ht Hnv]]].
      + exists []. apply ms_end. exact Hall.
      + exfalso. destruct (extend_vis V vis x t HV Hnd Hincl Ht Hnv) as [_ [_ Hlen]]. lia.
    - destruct (pick_unvisited (hyp x) vis) as [Hall|[t [Ht Hnv]]].
      + exists []. apply ms_end. exact Hall.
      + destruct (extend_vis V vis x t HV Hnd Hincl Ht Hnv) as [H1 [H2 Hlen]].
        destruct (IH (t :: vis) t) as [p Hp]; [simpl; lia | assumption | assumption |].
        exists (t :: p). apply ms_step; assumption.
  Qed.

  (* ------------------------------------------------------------------ *)
  (* bounded search for the distance                                     *)

  Fixpoint reach_in (j : nat) (x c : node) : bool :=
    match j with
    | O => Z.eqb x c
    | S j' => existsb (fun t => reach_in j' t c) (hyp x)
    end.

  Lemma reach_in_spec : forall j x c,
      reach_in j x c = true <-> exists p, chain hyp x p /\ last p x = c /\ length p = j.
  Proof.
    induction j as [|j IH]; intros x c; simpl.
    - rewrite Z.eqb_eq. split.
      + intros H. exists []. split; [constructor|]. split; [exact H|reflexivity].
      + intros [p [_ [Hl Hlen]]]. destruct p; [exact Hl | discriminate].
    - rewrite existsb_exists. split.
      + intros [t [Ht Hr]]. apply IH in Hr. destruct Hr as [p [Hc [Hl Hlen]]].
        exists (t :: p). split; [constructor; assumption|].
        split; [rewrite last_cons; assumption | simpl; lia].
      + intros [p [Hc [Hl Hlen]]]. destruct p as [|t p]; [discriminate|].
        apply chain_inv_cons in Hc. destruct Hc as [Ht Hc].
        exists t. split; [assumption|]. apply IH. exists p. split; [assumption|].
        split; [rewrite last_cons in Hl; assumption | simpl in Hlen; lia].
  Qed.

  Lemma least_true : forall (P : nat -> bool) k,
      P k = true -> exists n, P n = true /\ forall m, P m = true -> n <= m.
  Proof.
    intros P.
    assert (H : forall k, (forall m, m < k -> P m = false) \/
                          (exists n, P n = true /\ forall m, P m = true -> n <= m)).
    { induction k as [|k IH].
      - left. intros m Hm. lia.
      - destruct IH as [IH|IH]; [|right; exact IH].
        destruct (P k) eqn:Hk.
        + right. exists k. split; [assumption|]. intros m Hm.
          destruct (le_lt_dec k m) as [Hle|Hlt]; [assumption|].
          rewrite (IH m Hlt) in Hm. discriminate.
        + left. intros m Hm. destruct (Nat.eq_dec m k) as [Heq|Hne].
          * subst m. assumption.
          * apply IH. lia. }
    intros k Hk. destruct (H (S k)) as [Hn|Hex]; [|exact Hex].
    rewrite (Hn k) in Hk; [discriminate|lia].
  Qed.

  (* ------------------------------------------------------------------ *)
  (* acyclicity                                                          *)

  Lemma cycle_absurd : forall t l,
      acyclic hyp -> chain hyp t l -> l <> [] -> last l t = t -> False.
  Proof.
    intros t l Hac Hc Hne Hl. exact (Hac t l Hc Hne Hl).
  Qed.

  (* ------------------------------------------------------------------ *)
  (* the requested theorems                                              *)

  (* 1. a maximal chain exists from anywhere in a finite closed graph *)
  Theorem MaxSimple_exists : forall V vis x,
      closed hyp V -> NoDup vis -> incl vis V -> exists p, MaxSimple hyp vis x p.
  Proof.
    intros V vis x HV Hnd Hincl.
    apply (MaxSimple_exists_aux V HV (length V - length vis) vis x); auto.
  Qed.

  (* 2. a simple chain avoiding vis extends to a maximal one *)
  Theorem MaxSimple_extends : forall V vis x q,
      closed hyp V -> NoDup vis -> incl vis V ->
      chain hyp x q -> NoDup q -> (forall y, In y q -> ~ In y vis) ->
      exists r, MaxSimple hyp vis x (q ++ r).
  Proof.
    intros V vis x q HV. revert vis x.
    induction q as [|t q IH]; intros vis x Hnd Hincl Hc Hq Hav.
    - simpl. apply (MaxSimple_exists V); assumption.
    - apply chain_inv_cons in Hc. destruct Hc as [Ht Hc].
      inversion Hq as [|t' q' Htq Hndq]; subst.
      assert (Hnv : ~ In t vis) by (apply Hav; left; reflexivity).
      destruct (extend_vis V vis x t HV Hnd Hincl Ht Hnv) as [H1 [H2 _]].
      destruct (IH (t :: vis) t H1 H2 Hc Hndq) as [r Hr].
      + intros y Hy [Hv|Hv].
        * subst y. contradiction.
        * apply (Hav y); [right; assumption | assumption].
      + exists r. simpl. apply ms_step; assumption.
  Qed.

  (* 3. loop removal *)
  Theorem chain_simplify : forall x p,
      chain hyp x p ->
      exists q, chain hyp x q /\ last q x = last p x /\ NoDup (x :: q) /\ length q <= length p.
  Proof.
    intros x p. revert x. induction p as [|t p IH]; intros x Hc.
    - exists []. split; [constructor|]. split; [reflexivity|].
      split; [constructor; [intros []|constructor] | lia].
    - apply chain_inv_cons in Hc. destruct Hc as [Ht Hc].
      destruct (IH t Hc) as [q [Hq [Hl [Hnd Hlen]]]].
      destruct (In_node_dec x (t :: q)) as [Hin|Hnin].
      + apply in_split in Hin. destruct Hin as [l1 [l2 Heq]].
        assert (Hxc : chain hyp x (t :: q)) by (constructor; assumption).
        rewrite Heq in Hxc, Hnd.
        exists l2. split; [|split; [|split]].
        * apply chain_app in Hxc. destruct Hxc as [_ Hxc].
          apply chain_inv_cons in Hxc. destruct Hxc as [_ Hxc]. exact Hxc.
        * rewrite last_cons. rewrite <- Hl. rewrite <- (last_cons q t x).
          rewrite Heq. rewrite last_app_cons. reflexivity.
        * apply NoDup_app_elim in Hnd. destruct Hnd as [_ [Hnd _]]. exact Hnd.
        * assert (Hlen2 : length (t :: q) = length (l1 ++ x :: l2)) by (rewrite Heq; reflexivity).
          rewrite app_length in Hlen2. simpl in Hlen2. simpl. lia.
      + exists (t :: q). split; [constructor; assumption|].
        split; [rewrite !last_cons; assumption|].
        split; [constructor; assumption | simpl; lia].
  Qed.

  (* a simple chain from x is a prefix of a maximal simple chain from x *)
  Lemma simple_chain_on_maximal : forall V x q,
      closed hyp V -> In x V -> chain hyp x q -> NoDup (x :: q) ->
      exists r, maximal_simple hyp x (q ++ r).
  Proof.
    intros V x q HV Hx Hc Hnd. inversion Hnd as [|x' q' Hxq Hndq]; subst.
    destruct (MaxSimple_extends V [x] x q HV) as [r Hr].
    - constructor; [intros []|constructor].
    - intros y [Hy|[]]. subst y. assumption.
    - assumption.
    - assumption.
    - intros y Hy [Hv|[]]. subst y. contradiction.
    - exists r. apply maximal_simple_MaxSimple. exact Hr.
  Qed.

  (* 4. every node reachable from x lies on a maximal simple chain from x, and conversely *)
  Theorem on_maximal_chain_iff_reach : forall V x c,
      closed hyp V -> In x V ->
      ((exists p, maximal_simple hyp x p /\ In c (x :: p)) <-> reach hyp x c).
  Proof.
    intros V x c HV Hx. split.
    - intros [p [[Hc _] Hin]]. unfold reach. apply (chain_mem_reach p); assumption.
    - intros [p [Hc Hl]].
      destruct (chain_simplify x p Hc) as [q [Hq [Hlq [Hnd _]]]].
      destruct (simple_chain_on_maximal V x q HV Hx Hq Hnd) as [r Hr].
      exists (q ++ r). split; [assumption|].
      rewrite <- Hl, <- Hlq. rewrite app_comm_cons. apply in_or_app. left. apply last_In.
  Qed.

  (* 5. the smallest position of c over all maximal simple chains is the graph distance *)
  Theorem min_index_is_dist : forall V x c n,
      closed hyp V -> In x V ->
      (min_index hyp x c n <-> is_dist hyp x c n).
  Proof.
    intros V x c n HV Hx. split.
    - intros [[p [[Hc _] Hn]] Hmin]. split.
      + destruct (chain_nth p x n c Hc Hn) as [q [Hq [Hl Hlen]]].
        exists q. split; [assumption|]. split; assumption.
      + intros p' Hc' Hl'.
        destruct (chain_simplify x p' Hc') as [q [Hq [Hlq [Hnd Hlen]]]].
        destruct (simple_chain_on_maximal V x q HV Hx Hq Hnd) as [r Hr].
        assert (Hnth : nth_error (x :: q ++ r) (length q) = Some c).
        { rewrite nth_error_prefix_last. rewrite Hlq, Hl'. reflexivity. }
        specialize (Hmin (q ++ r) (length q) Hr Hnth). lia.
    - intros [[p [Hc [Hl Hlen]]] Hmin]. split.
      + destruct (chain_simplify x p Hc) as [q [Hq [Hlq [Hnd Hlenq]]]].
        assert (Hge : n <= length q) by (apply Hmin; [assumption | rewrite Hlq; assumption]).
        assert (Heq : length q = n) by lia.
        destruct (simple_chain_on_maximal V x q HV Hx Hq Hnd) as [r Hr].
        exists (q ++ r). split; [assumption|].
        rewrite <- Heq. rewrite nth_error_prefix_last. rewrite Hlq, Hl. reflexivity.
      + intros p' m [Hc' _] Hm.
        destruct (chain_nth p' x m c Hc' Hm) as [q [Hq [Hlq Hlenq]]].
        rewrite <- Hlenq. apply Hmin; assumption.
  Qed.

  (* 6. a distance exists for every reachable node, and is unique *)
  Theorem dist_exists : forall x c, reach hyp x c -> exists n, is_dist hyp x c n.
  Proof.
    intros x c [p [Hc Hl]].
    assert (Hk : reach_in (length p) x c = true).
    { apply reach_in_spec. exists p. split; [assumption|]. split; [assumption|reflexivity]. }
    destruct (least_true (fun j => reach_in j x c) (length p) Hk) as [n [Hn Hmin]].
    exists n. split.
    - apply reach_in_spec in Hn. exact Hn.
    - intros p' Hc' Hl'. apply Hmin. apply reach_in_spec.
      exists p'. split; [assumption|]. split; [assumption|reflexivity].
  Qed.

  Theorem dist_unique : forall x c n m, is_dist hyp x c n -> is_dist hyp x c m -> n = m.
  Proof.
    intros x c n m [[p [Hc [Hl Hlen]]] Hmin] [[p' [Hc' [Hl' Hlen']]] Hmin'].
    specialize (Hmin p' Hc' Hl'). specialize (Hmin' p Hc Hl). lia.
  Qed.

  (* 7. suffix / splice in an acyclic graph *)
  Theorem maximal_suffix_acyclic : forall x p1 c p2,
      acyclic hyp -> maximal_simple hyp x (p1 ++ c :: p2) -> maximal_simple hyp c p2.
  Proof.
    intros x p1 c p2 Hac [Hc [Hnd Hl]].
    apply chain_app in Hc. destruct Hc as [Hc1 Hc2].
    assert (Hc2' := Hc2). apply chain_inv_cons in Hc2'. destruct Hc2' as [Hcin Hcp2].
    rewrite app_comm_cons in Hnd. apply NoDup_app_elim in Hnd. destruct Hnd as [Hnd1 [Hnd2 Hdisj]].
    rewrite last_app_cons in Hl.
    split; [assumption|]. split; [assumption|].
    intros t Ht. assert (Hin := Hl t Ht). rewrite app_comm_cons in Hin.
    apply in_app_or in Hin. destruct Hin as [Hin|Hin]; [|assumption].
    exfalso.
    destruct (chain_suffix p1 x t Hc1 Hin) as [b [Hb Hlb]].
    apply (cycle_absurd t ((b ++ c :: p2) ++ [t]) Hac).
    - apply chain_app. split.
      + apply chain_app. split; [assumption|]. rewrite Hlb. assumption.
      + rewrite last_app_cons. constructor; [assumption|constructor].
    - intros Heq. apply app_eq_nil in Heq. destruct Heq as [_ Heq]. discriminate.
    - rewrite last_app_cons. reflexivity.
  Qed.

  Theorem maximal_splice_acyclic : forall x p1 c p2 p2',
      acyclic hyp -> maximal_simple hyp x (p1 ++ c :: p2) -> maximal_simple hyp c p2' ->
      maximal_simple hyp x (p1 ++ c :: p2').
  Proof.
    intros x p1 c p2 p2' Hac [Hc [Hnd Hl]] [Hc' [Hnd' Hl']].
    apply chain_app in Hc. destruct Hc as [Hc1 Hc2].
    apply chain_inv_cons in Hc2. destruct Hc2 as [Hcin Hcp2].
    rewrite app_comm_cons in Hnd. apply NoDup_app_elim in Hnd. destruct Hnd as [Hnd1 [Hnd2 Hdisj]].
    split; [|split].
    - apply chain_app. split; [assumption|]. constructor; assumption.
    - rewrite app_comm_cons. apply NoDup_app_intro; [assumption|assumption|].
      intros y Hy1 Hy2.
      destruct (chain_suffix p1 x y Hc1 Hy1) as [b [Hb Hlb]].
      destruct (chain_mem_reach p2' c y Hc' Hy2) as [q [Hq Hlq]].
      apply (cycle_absurd y ((b ++ [c]) ++ q) Hac).
      + apply chain_app. split.
        * apply chain_app. split; [assumption|]. rewrite Hlb. constructor; [assumption|constructor].
        * rewrite last_app_cons. simpl. assumption.
      + intros Heq. apply app_eq_nil in Heq. destruct Heq as [Heq _].
        apply app_eq_nil in Heq. destruct Heq as [_ Heq]. discriminate.
      + rewrite last_app. rewrite last_app_cons. simpl. assumption.
    - rewrite last_app_cons. intros t Ht. apply Hl' in Ht.
      rewrite app_comm_cons. apply in_or_app. right. assumption.
  Qed.

End TaxReach.

Print Assumptions MaxSimple_char.
Print Assumptions MaxSimple_exists.
Print Assumptions MaxSimple_extends.
Print Assumptions chain_simplify.
Print Assumptions on_maximal_chain_iff_reach.
Print Assumptions min_index_is_dist.
Print Assumptions dist_exists.
Print Assumptions dist_unique.
Print Assumptions maximal_suffix_acyclic.
Print Assumptions maximal_splice_acyclic.
