(* SearchProofs.v — STAGE Q (C09): word-form search follows the exact / normalized / lemmatized
   procedure.  Everything is about Core._find_helper and its three instances
   Wordnet_words / Wordnet_senses / Wordnet_synsets called with a form. *)
From Coq Require Import ZArith List Bool Lia.
Import ListNotations.
Require Import WnV.Base.Sx WnV.Model.Spec WnV.Model.Tables WnV.Model.Query WnV.Model.Core.
Require Import WnV.Proofs.CoreLemmas WnV.Proofs.QueryFacts.
Local Open Scope Z_scope.

(* the (pos, forms) pairs that are searched: the lemmatizer's proposals for (form, pos) in
   dictionary order, or {pos: {form}} when there is no lemmatizer or it proposes nothing *)
Definition candidates (w : Wordnet) (form : str) (pos : option str) : list (option str * list str) :=
  match (match wn_lemmatizer w with Some table => lemmatize table form pos | None => [] end) with
  | [] => [(pos, [form])]
  | proposals => proposals
  end.

(* one pass: the concatenation over the candidates of the per-candidate query results;
   [tr] is applied to the candidate forms (identity in the first pass, normalize in the second) *)
Definition pass {D C} (w : Wordnet) (cls : Wordnet -> D -> C)
           (query : list str -> option str -> bool -> list D) (tr : str -> str)
           (cands : list (option str * list str)) : list C :=
  flat_map (fun pf => map (cls w) (query (map tr (snd pf)) (fst pf) (wn_normalizer w))) cands.

Lemma map_id_eq : forall T (l : list T), map (fun x => x) l = l.
Proof. intros. apply map_id. Qed.

(* Q3 + Q5: the exact shape of a search with a form *)
Theorem find_helper_form : forall D C w (cls : Wordnet -> D -> C) key_eqb query form pos,
  _find_helper w cls key_eqb query (Some form) pos =
  let first := pass w cls query (fun f => f) (candidates w form pos) in
  dedup key_eqb (if negb (nonempty first) && wn_normalizer w
                 then pass w cls query (normalize w) (candidates w form pos)
                 else first).
Proof.
  intros. unfold _find_helper, pass, candidates. cbv zeta.
  assert (E : forall cands : list (option str * list str),
            flat_map (fun pf => map (cls w) (query (map (fun f : str => f) (snd pf)) (fst pf) (wn_normalizer w))) cands
            = flat_map (fun pf => map (cls w) (query (snd pf) (fst pf) (wn_normalizer w))) cands).
  { intro cands. apply flat_map_ext. intro a. rewrite map_id_eq. reflexivity. }
  destruct (match wn_lemmatizer w with Some table => lemmatize table form pos | None => [] end) as [|p0 l0];
    rewrite E; reflexivity.
Qed.

(* Q1: no two results are equal entities *)
Theorem find_helper_nodup : forall D C w (cls : Wordnet -> D -> C) key_eqb query form pos,
  nodup_by key_eqb (_find_helper w cls key_eqb query (Some form) pos).
Proof. intros. rewrite find_helper_form. cbv zeta. apply dedup_nodup. Qed.

(* Q3: if the first pass finds something, the result is exactly its de-duplication *)
Theorem find_helper_first_pass : forall D C w (cls : Wordnet -> D -> C) key_eqb query form pos,
  pass w cls query (fun f => f) (candidates w form pos) <> [] ->
  _find_helper w cls key_eqb query (Some form) pos
  = dedup key_eqb (pass w cls query (fun f => f) (candidates w form pos)).
Proof.
  intros D C w cls key_eqb query form pos H. rewrite find_helper_form. cbv zeta.
  apply nonempty_true in H. rewrite H. reflexivity.
Qed.

(* ... the second pass runs only when the first found nothing and a normalizer is active *)
Theorem find_helper_second_pass : forall D C w (cls : Wordnet -> D -> C) key_eqb query form pos,
  pass w cls query (fun f => f) (candidates w form pos) = [] ->
  _find_helper w cls key_eqb query (Some form) pos
  = if wn_normalizer w then dedup key_eqb (pass w cls query (normalize w) (candidates w form pos)) else [].
Proof.
  intros D C w cls key_eqb query form pos H. rewrite find_helper_form. cbv zeta.
  rewrite H. simpl. destruct (wn_normalizer w); reflexivity.
Qed.

(* Q5: without a lemmatizer (or when it proposes nothing) there is one candidate, the query itself *)
Theorem candidates_no_lemmatizer : forall w form pos,
  wn_lemmatizer w = None -> candidates w form pos = [(pos, [form])].
Proof. intros w form pos H. unfold candidates. rewrite H. reflexivity. Qed.

Theorem candidates_lemmatizer : forall w table form pos p ps,
  wn_lemmatizer w = Some table -> lemmatize table form pos = p :: ps ->
  candidates w form pos = p :: ps.
Proof. intros w table form pos p ps H E. unfold candidates. rewrite H, E. reflexivity. Qed.

Theorem candidates_lemmatizer_nothing : forall w table form pos,
  wn_lemmatizer w = Some table -> lemmatize table form pos = [] ->
  candidates w form pos = [(pos, [form])].
Proof. intros w table form pos H E. unfold candidates. rewrite H, E. reflexivity. Qed.

(* membership in a result: it comes from one candidate, in the first or in the second pass *)
Lemma find_helper_form_In : forall D C w (cls : Wordnet -> D -> C) key_eqb query form pos x,
  In x (_find_helper w cls key_eqb query (Some form) pos) ->
  exists p fs q, In (p, fs) (candidates w form pos) /\ x = cls w q
    /\ (In q (query fs p (wn_normalizer w))
        \/ (pass w cls query (fun f => f) (candidates w form pos) = [] /\ wn_normalizer w = true
            /\ In q (query (map (normalize w) fs) p (wn_normalizer w)))).
Proof.
  intros D C w cls key_eqb query form pos x H. rewrite find_helper_form in H. cbv zeta in H.
  apply dedup_In in H.
  destruct (nonempty (pass w cls query (fun f => f) (candidates w form pos))) eqn:En; simpl in H.
  - unfold pass in H. apply in_flat_map in H. destruct H as [[p fs] [Hc H]]. apply in_map_iff in H.
    destruct H as [q [E Hq]]. simpl in Hq. rewrite map_id_eq in Hq.
    exists p, fs, q. split; [exact Hc | split; [symmetry; exact E | left; exact Hq]].
  - assert (Hnil : pass w cls query (fun f => f) (candidates w form pos) = []).
    { destruct (pass w cls query (fun f => f) (candidates w form pos)); [reflexivity | discriminate]. }
    destruct (wn_normalizer w) eqn:Enz.
    + unfold pass in H at 1. apply in_flat_map in H. destruct H as [[p fs] [Hc H]]. apply in_map_iff in H.
      destruct H as [q [E Hq]]. simpl in Hq. rewrite Enz in Hq.
      exists p, fs, q. split; [exact Hc | split; [symmetry; exact E | right; tauto]].
    + rewrite Hnil in H. destruct H.
Qed.

Section Search.
Variable d : db.

(* ------------------------------------------------------------------ Q2: every result has a matching form *)
(* [matched w fs f]: the form row f matches the candidate forms fs in the first pass, or — only when
   the first pass found nothing and a normalizer is active — the normalized candidates *)
Definition matched (w : Wordnet) (first_pass_empty : Prop) (fs : list str) (f : form_row) : Prop :=
  form_matches fs (wn_normalizer w) (wn_search_all_forms w) f
  \/ (first_pass_empty /\ wn_normalizer w = true
      /\ form_matches (map (normalize w) fs) (wn_normalizer w) (wn_search_all_forms w) f).

Definition words_query (w : Wordnet) :=
  fun forms pos normalized => find_entries d None forms pos (wn_lexicon_ids w) normalized (wn_search_all_forms w).
Definition senses_query (w : Wordnet) :=
  fun forms pos normalized => find_senses d None forms pos (wn_lexicon_ids w) normalized (wn_search_all_forms w).
Definition synsets_query (w : Wordnet) (ili : option str) :=
  fun forms pos normalized => find_synsets d None forms pos ili (wn_lexicon_ids w) normalized (wn_search_all_forms w).

Lemma entry_cond_parts : forall id forms pos ids norm saf e,
  entry_cond d id forms pos ids norm saf e = true ->
  (truthy pos = true -> Some (en_pos e) = pos)
  /\ (forms <> [] -> exists f, In f (t_forms d) /\ fm_entry_rowid f = en_rowid e /\ form_matches forms norm saf f)
  /\ (ids <> [] -> In (en_lexicon_rowid e) ids)
  /\ (truthy id = true -> Some (en_id e) = id).
Proof.
  intros id forms pos ids norm saf e H. unfold entry_cond in H.
  repeat (apply andb_true_iff in H; destruct H as [H ?]). repeat split.
  - intro T. rewrite T in H1. apply ostr_eqb_eq. exact H1.
  - intro Hne. apply nonempty_true in Hne. rewrite Hne in H2. apply z_in_In in H2.
    apply matching_entry_rowids_In in H2. exact H2.
  - intro Hne. apply nonempty_true in Hne. rewrite Hne in H0. apply z_in_In. exact H0.
  - intro T. rewrite T in H. apply ostr_eqb_eq. exact H.
Qed.

Theorem words_have_matching_form : forall w form pos x,
  In x (Wordnet_words d w (Some form) pos) ->
  exists p fs, In (p, fs) (candidates w form pos)
    /\ (truthy p = true -> Some (wd_pos x) = p)
    /\ (fs = [] \/ exists f, In f (t_forms d) /\ fm_entry_rowid f = wd__id x
          /\ matched w (pass w mk_Word (words_query w) (fun f => f) (candidates w form pos) = []) fs f).
Proof.
  intros w form pos x H. unfold Wordnet_words in H. apply find_helper_form_In in H.
  destruct H as [p [fs [q [Hc [-> Hq]]]]]. exists p, fs. split; [exact Hc|].
  destruct Hq as [Hq|[Hnil [Hnz Hq]]]; apply find_entries_sound in Hq;
    destruct Hq as [[e [_ [[_ [Wp [_ Wr]]] Hcond]]] _]; apply entry_cond_parts in Hcond;
    destruct Hcond as [Hpos [Hform _]]; simpl; rewrite Wp, Wr; (split; [exact Hpos|]).
  - destruct fs as [|f0 fs']; [left; reflexivity | right].
    destruct Hform as [f [Hf [Ef Hm]]]; [discriminate|]. exists f. split; [exact Hf|]. split; [exact Ef | left; exact Hm].
  - destruct fs as [|f0 fs']; [left; reflexivity | right].
    destruct Hform as [f [Hf [Ef Hm]]]; [simpl; discriminate|]. exists f. split; [exact Hf|]. split; [exact Ef|].
    right. split; [exact Hnil | split; [exact Hnz | exact Hm]].
Qed.

Lemma sense_cond_parts : forall id forms pos ids norm saf s e,
  sense_cond d id forms pos ids norm saf s e = true ->
  (truthy pos = true -> Some (en_pos e) = pos)
  /\ (forms <> [] -> exists f, In f (t_forms d) /\ fm_entry_rowid f = se_entry_rowid s /\ form_matches forms norm saf f)
  /\ (ids <> [] -> In (se_lexicon_rowid s) ids)
  /\ (truthy id = true -> Some (se_id s) = id).
Proof.
  intros id forms pos ids norm saf s e H. unfold sense_cond in H.
  repeat (apply andb_true_iff in H; destruct H as [H ?]). repeat split.
  - intro T. rewrite T in H1. apply ostr_eqb_eq. exact H1.
  - intro Hne. apply nonempty_true in Hne. rewrite Hne in H2. apply z_in_In in H2.
    apply matching_entry_rowids_In in H2. exact H2.
  - intro Hne. apply nonempty_true in Hne. rewrite Hne in H0. apply z_in_In. exact H0.
  - intro T. rewrite T in H. apply ostr_eqb_eq. exact H.
Qed.

(* for senses the form belongs to the sense's entry, and the pos filter is on that entry *)
Theorem senses_have_matching_form : forall w form pos x,
  In x (Wordnet_senses d w (Some form) pos) ->
  exists p fs s e, In (p, fs) (candidates w form pos)
    /\ In s (t_senses d) /\ se_rowid s = sn__id x
    /\ find_by en_rowid (se_entry_rowid s) (t_entries d) = Some e
    /\ (truthy p = true -> Some (en_pos e) = p)
    /\ (fs = [] \/ exists f, In f (t_forms d) /\ fm_entry_rowid f = se_entry_rowid s
          /\ matched w (pass w mk_Sense (senses_query w) (fun f => f) (candidates w form pos) = []) fs f).
Proof.
  intros w form pos x H. unfold Wordnet_senses in H. apply find_helper_form_In in H.
  destruct H as [p [fs [q [Hc [-> Hq]]]]]. exists p, fs.
  destruct Hq as [Hq|[Hnil [Hnz Hq]]]; apply find_senses_iff in Hq;
    destruct Hq as [s [e [ss [Hs [Esc Hcond]]]]]; apply sense_columns_Some in Esc;
    destruct Esc as [Ee [_ ->]]; apply sense_cond_parts in Hcond; destruct Hcond as [Hpos [Hform _]];
    exists s, e; simpl; (split; [exact Hc|]); (split; [exact Hs|]); (split; [reflexivity|]);
    (split; [exact Ee|]); (split; [exact Hpos|]).
  - destruct fs as [|f0 fs']; [left; reflexivity | right].
    destruct Hform as [f [Hf [Ef Hm]]]; [discriminate|]. exists f. split; [exact Hf|]. split; [exact Ef | left; exact Hm].
  - destruct fs as [|f0 fs']; [left; reflexivity | right].
    destruct Hform as [f [Hf [Ef Hm]]]; [simpl; discriminate|]. exists f. split; [exact Hf|]. split; [exact Ef|].
    right. split; [exact Hnil | split; [exact Hnz | exact Hm]].
Qed.

Lemma sel_cond_inv : forall (ids : list Z) l,
  (if nonempty ids then z_in l ids else true) = true -> ids = [] \/ In l ids.
Proof.
  intros ids l H. destruct ids as [|i ids']; [left; reflexivity | right]. simpl in H. apply z_in_In. exact H.
Qed.

(* for synsets the form belongs to the entry of a sense of the synset, and that sense is one of the selected lexicons
   (F22); the pos filter is on the synset *)
Theorem synsets_have_matching_form : forall w form pos ili x,
  In x (Wordnet_synsets d w (Some form) pos ili) ->
  exists p fs ss, In (p, fs) (candidates w form pos)
    /\ In ss (t_synsets d) /\ sy_rowid ss = ss__id x
    /\ (truthy p = true -> sy_pos ss = p)
    /\ (fs = [] \/ exists f _s, In f (t_forms d) /\ In _s (t_senses d)
          /\ se_entry_rowid _s = fm_entry_rowid f
          /\ (wn_lexicon_ids w = [] \/ In (se_lexicon_rowid _s) (wn_lexicon_ids w))
          /\ find_by sy_rowid (se_synset_rowid _s) (t_synsets d) = Some ss
          /\ matched w (pass w mk_Synset (synsets_query w ili) (fun f => f) (candidates w form pos) = []) fs f).
Proof.
  intros w form pos ili x H. unfold Wordnet_synsets in H. apply find_helper_form_In in H.
  destruct H as [p [fs [q [Hc [-> Hq]]]]]. exists p, fs.
  assert (Hpos : forall ss ids, synset_conditions d None p ili ids ss = true -> truthy p = true -> sy_pos ss = p).
  { intros ss ids Hcond T. unfold synset_conditions in Hcond.
    repeat (apply andb_true_iff in Hcond; destruct Hcond as [Hcond ?]). rewrite T in H1.
    apply ostr_eqb_eq. exact H1. }
  destruct Hq as [Hq|[Hnil [Hnz Hq]]]; apply find_synsets_iff in Hq;
    destruct Hq as [ss [Hss [-> [Hcond Hform]]]]; exists ss; simpl;
    (split; [exact Hc|]); (split; [exact Hss|]); (split; [reflexivity|]);
    (split; [exact (Hpos ss _ Hcond)|]).
  - destruct fs as [|f0 fs']; [left; reflexivity | right].
    destruct Hform as [f [_s [Hf [Hs [Es [El Ess]]]]]]; [discriminate|]. apply matching_forms_sound in Hf.
    apply sel_cond_inv in El.
    exists f, _s. repeat split; try tauto. left. tauto.
  - destruct fs as [|f0 fs']; [left; reflexivity | right].
    destruct Hform as [f [_s [Hf [Hs [Es [El Ess]]]]]]; [simpl; discriminate|]. apply matching_forms_sound in Hf.
    apply sel_cond_inv in El.
    exists f, _s. repeat split; try tauto. right. tauto.
Qed.

(* ------------------------------------------------------------------ Q4: completeness without a lemmatizer *)
Definition in_selection (w : Wordnet) (lexid : Z) : Prop :=
  wn_lexicon_ids w = [] \/ In lexid (wn_lexicon_ids w).
Definition pos_allows (pos : option str) (p : option str) : Prop := truthy pos = true -> p = pos.

Lemma in_selection_cond : forall w l,
  in_selection w l -> (if nonempty (wn_lexicon_ids w) then z_in l (wn_lexicon_ids w) else true) = true.
Proof.
  intros w l [H|H].
  - rewrite H. reflexivity.
  - destruct (nonempty (wn_lexicon_ids w)); [apply z_in_In; exact H | reflexivity].
Qed.

Lemma pos_allows_cond : forall pos p,
  pos_allows pos p -> (if truthy pos then ostr_eqb p pos else true) = true.
Proof.
  intros pos p H. destruct (truthy pos) eqn:T; [|reflexivity]. apply ostr_eqb_eq. apply H. exact T.
Qed.

Lemma exact_form_matches : forall query norm saf f,
  fm_form f = query -> (saf = true \/ fm_rank f = Some 0) -> form_matches [query] norm saf f.
Proof. intros query norm saf f E Hr. split; [left; left; symmetry; exact E | exact Hr]. Qed.

Theorem words_complete : forall w query pos e f,
  db_ok d = true -> wn_lemmatizer w = None ->
  In e (t_entries d) -> in_selection w (en_lexicon_rowid e) -> pos_allows pos (Some (en_pos e)) ->
  In f (t_forms d) -> fm_entry_rowid f = en_rowid e -> fm_form f = query ->
  (wn_search_all_forms w = true \/ fm_rank f = Some 0) ->
  exists x, In x (Wordnet_words d w (Some query) pos) /\ wd__id x = en_rowid e.
Proof.
  intros w query pos e f Hok Hlem He Hsel Hpos Hf Ef Eq Hr.
  assert (Hcond : entry_cond d None [query] pos (wn_lexicon_ids w) (wn_normalizer w) (wn_search_all_forms w) e = true).
  { unfold entry_cond. simpl truthy. simpl nonempty. cbv iota.
    rewrite (pos_allows_cond _ _ Hpos), (in_selection_cond _ _ Hsel). rewrite !andb_true_r. simpl.
    apply z_in_In. unfold matching_entry_rowids. apply in_map_iff. exists f. split; [exact Ef|].
    apply matching_forms_complete; [exact (ok_forms d Hok) | exact Hf | apply exact_form_matches; assumption]. }
  destruct (find_entries_complete d None [query] pos (wn_lexicon_ids w) (wn_normalizer w) (wn_search_all_forms w) e f He Hcond Hf Ef)
    as [q [Hq [[_ [_ [_ Wr]]] _]]].
  assert (Hfirst : In (mk_Word w q) (pass w mk_Word (words_query w) (fun f0 => f0) (candidates w query pos))).
  { rewrite candidates_no_lemmatizer by exact Hlem. unfold pass. simpl. rewrite app_nil_r.
    apply in_map. exact Hq. }
  unfold Wordnet_words. fold (words_query w). rewrite find_helper_first_pass.
  - destruct (dedup_complete _ Word_key_eqb (fun a => Z.eqb_refl _) _ _ Hfirst) as [x [Hx Ex]].
    exists x. split; [exact Hx|]. unfold Word_key_eqb in Ex. apply Z.eqb_eq in Ex. simpl in Ex. rewrite <- Ex. exact Wr.
  - intro C. rewrite C in Hfirst. destruct Hfirst.
Qed.

Theorem senses_complete : forall w query pos s e ss f,
  db_ok d = true -> wn_lemmatizer w = None ->
  In s (t_senses d) -> in_selection w (se_lexicon_rowid s) ->
  find_by en_rowid (se_entry_rowid s) (t_entries d) = Some e ->
  find_by sy_rowid (se_synset_rowid s) (t_synsets d) = Some ss ->
  pos_allows pos (Some (en_pos e)) ->
  In f (t_forms d) -> fm_entry_rowid f = se_entry_rowid s -> fm_form f = query ->
  (wn_search_all_forms w = true \/ fm_rank f = Some 0) ->
  exists x, In x (Wordnet_senses d w (Some query) pos) /\ sn__id x = se_rowid s.
Proof.
  intros w query pos s e ss f Hok Hlem Hs Hsel Ee Ess Hpos Hf Ef Eq Hr.
  set (q := {| qs_id := se_id s; qs_entry_id := en_id e; qs_synset_id := sy_id ss;
               qs_lexid := se_lexicon_rowid s; qs_rowid := se_rowid s |}).
  assert (Esc : sense_columns d s = Some (q, e, ss)).
  { unfold sense_columns. rewrite Ee, Ess. reflexivity. }
  assert (Hcond : sense_cond d None [query] pos (wn_lexicon_ids w) (wn_normalizer w) (wn_search_all_forms w) s e = true).
  { unfold sense_cond. simpl truthy. simpl nonempty. cbv iota.
    rewrite (pos_allows_cond _ _ Hpos), (in_selection_cond _ _ Hsel). rewrite !andb_true_r. simpl.
    apply z_in_In. unfold matching_entry_rowids. apply in_map_iff. exists f. split; [exact Ef|].
    apply matching_forms_complete; [exact (ok_forms d Hok) | exact Hf | apply exact_form_matches; assumption]. }
  assert (Hq : In q (senses_query w [query] pos (wn_normalizer w))).
  { unfold senses_query. apply find_senses_iff. exists s, e, ss. tauto. }
  assert (Hfirst : In (mk_Sense w q) (pass w mk_Sense (senses_query w) (fun f0 => f0) (candidates w query pos))).
  { rewrite candidates_no_lemmatizer by exact Hlem. unfold pass. simpl. rewrite app_nil_r.
    apply in_map. exact Hq. }
  unfold Wordnet_senses. fold (senses_query w). rewrite find_helper_first_pass.
  - destruct (dedup_complete _ Sense_key_eqb (fun a => Z.eqb_refl _) _ _ Hfirst) as [x [Hx Ex]].
    exists x. split; [exact Hx|]. unfold Sense_key_eqb in Ex. apply Z.eqb_eq in Ex. simpl in Ex. rewrite <- Ex. reflexivity.
  - intro C. rewrite C in Hfirst. destruct Hfirst.
Qed.

Lemma Synset_key_eqb_refl : forall a, Synset_key_eqb a a = true.
Proof.
  intro a. unfold Synset_key_eqb. rewrite !Z.eqb_refl, (proj2 (ostr_eqb_eq _ _) eq_refl). reflexivity.
Qed.

Theorem synsets_complete : forall w query pos ss _s f,
  db_ok d = true -> wn_lemmatizer w = None ->
  In ss (t_synsets d) -> in_selection w (sy_lexicon_rowid ss) -> pos_allows pos (sy_pos ss) ->
  In _s (t_senses d) -> in_selection w (se_lexicon_rowid _s) ->
  find_by sy_rowid (se_synset_rowid _s) (t_synsets d) = Some ss ->
  In f (t_forms d) -> fm_entry_rowid f = se_entry_rowid _s -> fm_form f = query ->
  (wn_search_all_forms w = true \/ fm_rank f = Some 0) ->
  exists x, In x (Wordnet_synsets d w (Some query) pos None) /\ ss__id x = sy_rowid ss.
Proof.
  intros w query pos ss _s f Hok Hlem Hss Hsel Hpos Hs Hsels Ess Hf Ef Eq Hr.
  assert (Hcond : synset_conditions d None pos None (wn_lexicon_ids w) ss = true).
  { unfold synset_conditions. simpl truthy. cbv iota.
    rewrite (pos_allows_cond _ _ Hpos), (in_selection_cond _ _ Hsel). reflexivity. }
  assert (Hq : In (synset_columns d ss) (synsets_query w None [query] pos (wn_normalizer w))).
  { unfold synsets_query. apply find_synsets_iff. exists ss. split; [exact Hss|]. split; [reflexivity|].
    split; [exact Hcond|]. intros _. exists f, _s. split; [|split; [exact Hs | split; [symmetry; exact Ef | split; [exact (in_selection_cond _ _ Hsels) | exact Ess]]]].
    apply matching_forms_complete; [exact (ok_forms d Hok) | exact Hf | apply exact_form_matches; assumption]. }
  assert (Hfirst : In (mk_Synset w (synset_columns d ss))
                      (pass w mk_Synset (synsets_query w None) (fun f0 => f0) (candidates w query pos))).
  { rewrite candidates_no_lemmatizer by exact Hlem. unfold pass. simpl. rewrite app_nil_r.
    apply in_map. exact Hq. }
  unfold Wordnet_synsets. fold (synsets_query w None). rewrite find_helper_first_pass.
  - destruct (dedup_complete _ Synset_key_eqb Synset_key_eqb_refl _ _ Hfirst) as [x [Hx Ex]].
    exists x. split; [exact Hx|]. unfold Synset_key_eqb in Ex.
    repeat (apply andb_true_iff in Ex; destruct Ex as [Ex ?]). apply Z.eqb_eq in H. simpl in H. rewrite <- H. reflexivity.
  - intro C. rewrite C in Hfirst. destruct Hfirst.
Qed.

End Search.
