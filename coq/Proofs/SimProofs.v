(* Proofs/SimProofs.v — the similarity metrics (C14/C15): ranges and fixed points of the
   documented formulas over Q, symmetry of every metric, the documented meaning of the
   "parts" each formula is evaluated on, and the error cases. *)
From Coq Require Import ZArith QArith List Bool Lia Lqa Sorted.
Import ListNotations.
Require Import WnV.Base.Sx WnV.Model.Taxonomy WnV.Model.Similarity WnV.Proofs.TaxSpec
        WnV.Proofs.TaxPaths WnV.Proofs.TaxReach WnV.Proofs.TaxAssembly.

(* ---------- formulas over Q ---------- *)

(* a quotient of integers with positive denominator, as a normal fraction *)
Lemma qdiv_pos : forall n m, (0 < m)%Z ->
    exists p, m = Zpos p /\ inject_Z n / inject_Z m == n # p.
Proof.
  intros n m Hm. destruct m as [|p|p]; try lia. exists p. split; auto.
  unfold Qdiv, Qinv, inject_Z, Qeq, Qmult. simpl. lia.
Qed.

Lemma path_q_some : forall d, exists p,
    Z.of_nat (S d) = Zpos p /\ path_q (Some d) == 1 # p.
Proof.
  intros d. destruct (qdiv_pos 1 (Z.of_nat (S d))) as (p & Hp & Heq); [lia|].
  exists p. split; auto.
Qed.

Theorem path_q_range : forall d, 0 <= path_q d /\ path_q d <= 1.
Proof.
  intros [d|].
  - destruct (path_q_some d) as (p & Hp & Heq). rewrite Heq.
    unfold Qle. simpl. lia.
  - simpl. unfold Qle. simpl. lia.
Qed.

Theorem path_q_one_iff : forall d, path_q d == 1 <-> d = Some 0%nat.
Proof.
  intros [d|].
  - destruct (path_q_some d) as (p & Hp & Heq). rewrite Heq.
    unfold Qeq. simpl. split.
    + intros H. f_equal. lia.
    + intros H. inversion H; subst. simpl in Hp. lia.
  - simpl. unfold Qeq. simpl. split; [lia|discriminate].
Qed.

Theorem path_q_zero_iff : forall d, path_q d == 0 <-> d = None.
Proof.
  intros [d|].
  - destruct (path_q_some d) as (p & Hp & Heq). rewrite Heq.
    unfold Qeq. simpl. split; [lia|discriminate].
  - simpl. split; auto. intros _. reflexivity.
Qed.

Lemma wup_q_frac : forall i j k, (0 < k)%nat -> exists p,
    Z.of_nat (i + j + 2 * k) = Zpos p /\ wup_q (i, j, k) == Z.of_nat (2 * k) # p.
Proof.
  intros i j k Hk.
  destruct (qdiv_pos (Z.of_nat (2 * k)) (Z.of_nat (i + j + 2 * k))) as (p & Hp & Heq); [lia|].
  exists p. split; auto.
Qed.

Theorem wup_q_range : forall i j k, (0 < k)%nat -> 0 < wup_q (i, j, k) /\ wup_q (i, j, k) <= 1.
Proof.
  intros i j k Hk. destruct (wup_q_frac i j k Hk) as (p & Hp & Heq). rewrite Heq.
  unfold Qlt, Qle. cbn [Qnum Qden]. lia.
Qed.

Theorem wup_q_one_iff : forall i j k, (0 < k)%nat -> (wup_q (i, j, k) == 1 <-> (i = 0 /\ j = 0)%nat).
Proof.
  intros i j k Hk. destruct (wup_q_frac i j k Hk) as (p & Hp & Heq). rewrite Heq.
  unfold Qeq. cbn [Qnum Qden]. lia.
Qed.

Theorem wup_q_sym : forall i j k, wup_q (i, j, k) == wup_q (j, i, k).
Proof.
  intros i j k. unfold wup_q. rewrite (Nat.add_comm i j). reflexivity.
Qed.

(* lch: the logarithm's argument never is smaller than for the synset with itself *)
Theorem lch_arg_self_minimal : forall d maxd, (0 < maxd)%Z ->
    lch_arg_q (1%nat, (2 * maxd)%Z) <= lch_arg_q (S d, (2 * maxd)%Z).
Proof.
  intros d maxd Hm. unfold lch_arg_q. cbn [fst snd].
  destruct (qdiv_pos (Z.of_nat 1) (2 * maxd)) as (p & Hp & Heq); [lia|].
  destruct (qdiv_pos (Z.of_nat (S d)) (2 * maxd)) as (p' & Hp' & Heq'); [lia|].
  rewrite Heq, Heq'. assert (p' = p) as -> by congruence.
  unfold Qle. cbn [Qnum Qden]. nia.
Qed.

(* ---------- generic helpers ---------- *)

(* the fold of argmax_first: the result is one of the elements and none beats it *)
Lemma argmax_fold : forall (T F : Type) (gt : F -> F -> bool) (key : T -> F),
    (forall x, gt x x = false) ->
    (forall x y z, gt x y = true -> gt y z = true -> gt x z = true) ->
    (forall x y z, gt x y = false -> gt y z = false -> gt x z = false) ->
    forall (l : list T) (seen : list T) (best : T),
      In best seen -> (forall y, In y seen -> gt (key y) (key best) = false) ->
      let m := fold_left (fun best y => if gt (key y) (key best) then y else best) l best in
      In m (seen ++ l) /\ (forall y, In y (seen ++ l) -> gt (key y) (key m) = false).
Proof.
  intros T F gt key Hirr Htr Hneg l.
  induction l as [|x l IH]; intros seen best Hin Hmax.
  - simpl. rewrite app_nil_r. auto.
  - cbn [fold_left]. cbv zeta.
    replace (seen ++ x :: l) with ((seen ++ [x]) ++ l) by (rewrite <- app_assoc; reflexivity).
    apply IH.
    + rewrite in_app_iff. destruct (gt (key x) (key best)); simpl; auto.
    + intros y Hy. apply in_app_iff in Hy.
      destruct (gt (key x) (key best)) eqn:Hxb.
      * assert (gt (key best) (key x) = false) as Hbx.
        { destruct (gt (key best) (key x)) eqn:Hbx; auto.
          rewrite <- (Hirr (key x)). symmetry. apply (Htr _ _ _ Hxb Hbx). }
        destruct Hy as [Hy|[<-|[]]]; [|apply Hirr].
        apply (Hneg _ (key best)); auto.
      * destruct Hy as [Hy|[<-|[]]]; auto.
Qed.

Section WithKey.
  Variable F : Type.
  Variable f : node -> option F.

  Lemma with_key_In : forall l kv x v,
      with_key F f l = Some kv -> (In (x, v) kv <-> (In x l /\ f x = Some v)).
  Proof.
    intros l. induction l as [|y l IH]; intros kv x v H; simpl in H.
    - inversion H; subst. simpl. tauto.
    - destruct (f y) as [w|] eqn:Hy; [|discriminate].
      destruct (with_key F f l) as [r|] eqn:Hr; [|discriminate].
      inversion H; subst. clear H. simpl. rewrite (IH r x v eq_refl). split.
      + intros [He|[Hin Hf]]; [inversion He; subst; auto|auto].
      + intros [[->|Hin] Hf]; [left; congruence|right; auto].
  Qed.
  Lemma with_key_total : forall l kv x,
      with_key F f l = Some kv -> In x l -> exists v, f x = Some v.
  Proof.
    intros l. induction l as [|y l IH]; intros kv x H Hx; simpl in H.
    - destruct Hx.
    - destruct (f y) as [w|] eqn:Hy; [|discriminate].
      destruct (with_key F f l) as [r|] eqn:Hr; [|discriminate].
      destruct Hx as [<-|Hx]; [eauto|]. apply (IH r x eq_refl Hx).
  Qed.
End WithKey.

Lemma with_key_ext : forall (F : Type) (f g : node -> option F) (l : list node),
    (forall x, f x = g x) -> with_key F f l = with_key F g l.
Proof.
  intros F f g l H. induction l as [|y l IH]; simpl; auto. rewrite H, IH. reflexivity.
Qed.

Lemma common_hypernyms_comm : forall hyp fuel a b sr,
    common_hypernyms hyp fuel a b sr = common_hypernyms hyp fuel b a sr.
Proof.
  intros hyp fuel a b sr. unfold common_hypernyms.
  destruct (hypernym_paths_gen hyp fuel a sr true) as [pa|];
    destruct (hypernym_paths_gen hyp fuel b sr true) as [pb|]; auto.
  rewrite (sorted_common_sym hyp pa pb). reflexivity.
Qed.

Section SimProofs.
  Variable hyp : node -> list node.
  Variable cls : node -> Z.

  Lemma compatible_refl : forall a, compatible cls a a = true.
  Proof. intros a. unfold compatible. apply Z.eqb_refl. Qed.

  Lemma compatible_sym : forall a b, compatible cls a b = compatible cls b a.
  Proof. intros a b. unfold compatible. apply Z.eqb_sym. Qed.

  Lemma incompatible : forall a b, cls a <> cls b -> negb (compatible cls a b) = true.
  Proof. intros a b H. unfold compatible. apply Z.eqb_neq in H. rewrite H. reflexivity. Qed.

  Lemma spl_self : forall fuel a sr, shortest_path_len hyp fuel a a sr = Some (Some 0%nat).
  Proof. intros fuel a sr. unfold shortest_path_len. rewrite shp_eq. reflexivity. Qed.

  Lemma lch_self : forall fuel a sr, lowest_common_hypernyms hyp fuel a a sr = Some [a].
  Proof. intros fuel a sr. unfold lowest_common_hypernyms. rewrite shp_eq. reflexivity. Qed.

  Lemma dist_or_err_Val : forall fuel a b sr d,
      dist_or_err hyp fuel a b sr = Val d <-> shortest_path_len hyp fuel a b sr = Some (Some d).
  Proof.
    intros fuel a b sr d. unfold dist_or_err.
    destruct (shortest_path_len hyp fuel a b sr) as [[n|]|]; split; intros H;
      try discriminate; inversion H; auto.
  Qed.

  (* ---- path ---- *)
  Lemma path_parts_Val : forall fuel a b sr r,
      path_parts hyp cls fuel a b sr = Val r ->
      compatible cls a b = true /\ shortest_path_len hyp fuel a b sr = Some r.
  Proof.
    intros fuel a b sr r H. unfold path_parts in H.
    destruct (compatible cls a b); simpl in H; [|discriminate].
    destruct (shortest_path_len hyp fuel a b sr) as [r0|]; [|discriminate].
    inversion H. auto.
  Qed.

  Theorem path_parts_sym : forall V fuel a b sr r r',
      graph_ok hyp V -> In a V -> In b V -> sr = false ->
      path_parts hyp cls fuel a b sr = Val r -> path_parts hyp cls fuel b a sr = Val r' -> r = r'.
  Proof.
    intros V fuel a b sr r r' HG Ha Hb -> H H'.
    apply path_parts_Val in H. apply path_parts_Val in H'.
    destruct H as [_ H]. destruct H' as [_ H'].
    apply (shortest_path_len_sym hyp V fuel a b r r' HG Ha Hb H H').
  Qed.

  Theorem path_parts_self : forall fuel a sr,
      path_parts hyp cls fuel a a sr = Val (Some 0%nat).
  Proof.
    intros fuel a sr. unfold path_parts. rewrite compatible_refl, spl_self. reflexivity.
  Qed.

  (* path similarity is 1 exactly for identical synsets *)
  Theorem path_parts_zero_iff_same : forall V fuel a b,
      graph_ok hyp V -> In a V -> In b V ->
      (path_parts hyp cls fuel a b false = Val (Some 0%nat) <-> (a = b)).
  Proof.
    intros V fuel a b HG Ha Hb. split.
    - intros H. apply path_parts_Val in H. destruct H as [_ H].
      pose proof (shortest_path_len_spec hyp V fuel a b _ HG Ha Hb H) as Hs.
      destruct Hs as [(c & da & db & Hda & Hdb & Hn) _].
      assert (da = 0%nat) as -> by lia. assert (db = 0%nat) as -> by lia.
      destruct Hda as [(p & _ & Hlp & Hp0) _]. destruct Hdb as [(q & _ & Hlq & Hq0) _].
      destruct p; [|discriminate]. destruct q; [|discriminate].
      simpl in Hlp, Hlq. congruence.
    - intros <-. apply path_parts_self.
  Qed.

  Theorem incompatible_pos_error : forall fuel a b sr maxd,
      cls a <> cls b ->
      path_parts hyp cls fuel a b sr = WnError
      /\ wup_parts hyp cls fuel a b sr = WnError
      /\ lch_parts hyp cls fuel a b maxd sr = WnError.
  Proof.
    intros fuel a b sr maxd H. unfold path_parts, wup_parts, lch_parts.
    rewrite (incompatible a b H). auto.
  Qed.

  (* ---- wup ---- *)
  Theorem wup_parts_spec : forall fuel a b sr i j k,
      wup_parts hyp cls fuel a b sr = Val (i, j, k) ->
      exists lcs ls md, lowest_common_hypernyms hyp fuel a b sr = Some (lcs :: ls)
        /\ shortest_path_len hyp fuel a lcs sr = Some (Some i)
        /\ shortest_path_len hyp fuel b lcs sr = Some (Some j)
        /\ max_depth hyp fuel lcs false = Some md /\ k = S md.
  Proof.
    intros fuel a b sr i j k H. unfold wup_parts in H.
    destruct (negb (compatible cls a b)); [discriminate|].
    destruct (lowest_common_hypernyms hyp fuel a b sr) as [[|lcs ls]|]; try discriminate.
    destruct (dist_or_err hyp fuel a lcs sr) as [i0| | |] eqn:Hi; try discriminate.
    destruct (dist_or_err hyp fuel b lcs sr) as [j0| | |] eqn:Hj; try discriminate.
    destruct (max_depth hyp fuel lcs false) as [md|] eqn:Hm; try discriminate.
    inversion H; subst. apply dist_or_err_Val in Hi. apply dist_or_err_Val in Hj.
    exists lcs, ls, md. auto.
  Qed.

  Theorem wup_parts_sym : forall V fuel a b i j k i' j' k',
      graph_ok hyp V -> In a V -> In b V ->
      wup_parts hyp cls fuel a b false = Val (i, j, k) ->
      wup_parts hyp cls fuel b a false = Val (i', j', k') ->
      (i', j', k') = (j, i, k).
  Proof.
    intros V fuel a b i j k i' j' k' HG Ha Hb H H'.
    apply wup_parts_spec in H. apply wup_parts_spec in H'.
    destruct H as (lcs & ls & md & Hl & Hi & Hj & Hm & ->).
    destruct H' as (lcs' & ls' & md' & Hl' & Hi' & Hj' & Hm' & ->).
    pose proof (lowest_common_hypernyms_sym hyp V fuel a b _ _ HG Ha Hb Hl Hl') as Heq.
    inversion Heq; subst. congruence.
  Qed.

  Theorem wup_parts_self : forall fuel a md,
      max_depth hyp fuel a false = Some md ->
      wup_parts hyp cls fuel a a false = Val (0%nat, 0%nat, S md).
  Proof.
    intros fuel a md Hm. unfold wup_parts, dist_or_err.
    rewrite compatible_refl, lch_self, spl_self, Hm. reflexivity.
  Qed.

  Theorem wup_no_common_error : forall fuel a b sr,
      cls a = cls b -> lowest_common_hypernyms hyp fuel a b sr = Some [] ->
      wup_parts hyp cls fuel a b sr = WnError.
  Proof.
    intros fuel a b sr _ H. unfold wup_parts. rewrite H.
    destruct (negb (compatible cls a b)); reflexivity.
  Qed.

  (* ---- lch ---- *)
  Theorem lch_parts_spec : forall fuel a b maxd sr p q,
      lch_parts hyp cls fuel a b maxd sr = Val (p, q) ->
      (0 < maxd)%Z /\ q = (2 * maxd)%Z /\ exists d, p = S d /\ shortest_path_len hyp fuel a b sr = Some (Some d).
  Proof.
    intros fuel a b maxd sr p q H. unfold lch_parts in H.
    destruct (negb (compatible cls a b)); [discriminate|].
    destruct (dist_or_err hyp fuel a b sr) as [d| | |] eqn:Hd; try discriminate.
    destruct (Z.leb maxd 0) eqn:Hm; [discriminate|].
    apply Z.leb_gt in Hm. apply dist_or_err_Val in Hd. inversion H; subst.
    split; [lia|]. split; [reflexivity|]. exists d. auto.
  Qed.

  Theorem lch_parts_sym : forall V fuel a b maxd r r',
      graph_ok hyp V -> In a V -> In b V ->
      lch_parts hyp cls fuel a b maxd false = Val r -> lch_parts hyp cls fuel b a maxd false = Val r' -> r = r'.
  Proof.
    intros V fuel a b maxd [p q] [p' q'] HG Ha Hb H H'.
    apply lch_parts_spec in H. apply lch_parts_spec in H'.
    destruct H as (_ & -> & d & -> & Hd). destruct H' as (_ & -> & d' & -> & Hd').
    pose proof (shortest_path_len_sym hyp V fuel a b _ _ HG Ha Hb Hd Hd') as Heq.
    inversion Heq. reflexivity.
  Qed.

  Theorem lch_no_path_error : forall fuel a b maxd sr,
      shortest_path_len hyp fuel a b sr = Some None -> lch_parts hyp cls fuel a b maxd sr = WnError.
  Proof.
    intros fuel a b maxd sr H. unfold lch_parts, dist_or_err. rewrite H.
    destruct (negb (compatible cls a b)); reflexivity.
  Qed.
  (* ---- IC based: generic in the value type F with a comparison gt ---- *)
  Section IC.
    Variable F : Type.
    Variable gt : F -> F -> bool.
    Variable wt icv : node -> option F.
    (* gt is a strict total order's "greater than" on the values that occur *)
    Hypothesis gt_irrefl : forall x, gt x x = false.
    Hypothesis gt_trans : forall x y z, gt x y = true -> gt y z = true -> gt x z = true.
    Hypothesis gt_total_neg : forall x y z, gt x y = false -> gt y z = false -> gt x z = false.

    (* argmax_first returns an element of the list that no other element beats, and the first such *)
    Theorem argmax_first_spec : forall (T : Type) (key : T -> F) (l : list T) (m : T),
        argmax_first gt key l = Some m ->
        In m l /\ (forall y, In y l -> gt (key y) (key m) = false).
    Proof.
      intros T key [|x l] m H; simpl in H; [discriminate|].
      inversion H as [Hm]. clear H.
      apply (argmax_fold T F gt key gt_irrefl gt_trans gt_total_neg l [x] x).
      - simpl; auto.
      - intros y [<-|[]]. apply gt_irrefl.
    Qed.

    Lemma res_choice_Val : forall fuel a b c v,
        res_choice hyp cls fuel F gt icv a b = Val (c, v) ->
        exists cs kv, common_hypernyms hyp fuel a b false = Some cs
                      /\ with_key F icv cs = Some kv
                      /\ argmax_first gt snd kv = Some (c, v).
    Proof.
      intros fuel a b c v H. unfold res_choice in H.
      destruct (negb (compatible cls a b)); [discriminate|].
      destruct (common_hypernyms hyp fuel a b false) as [cs|]; [|discriminate].
      exists cs.
      assert (match with_key F icv cs with
              | Some kv => match argmax_first gt snd kv with Some c0 => Val c0 | None => WnError end
              | None => KeyErr
              end = Val (c, v)) as H0 by (destruct cs; [discriminate|exact H]).
      destruct (with_key F icv cs) as [kv|]; [|discriminate].
      exists kv. destruct (argmax_first gt snd kv) as [c0|]; [|discriminate].
      inversion H0. auto.
    Qed.

    (* res = the information content of a common subsumer of maximal information content *)
    Theorem res_choice_spec : forall V fuel a b c v,
        graph_ok hyp V -> In a V -> In b V ->
        res_choice hyp cls fuel F gt icv a b = Val (c, v) ->
        reach hyp a c /\ reach hyp b c /\ icv c = Some v
        /\ (forall c' v', reach hyp a c' -> reach hyp b c' -> icv c' = Some v' -> gt v' v = false).
    Proof.
      intros V fuel a b c v HG Ha Hb H.
      destruct (res_choice_Val _ _ _ _ _ H) as (cs & kv & Hcs & Hkv & Hmax).
      destruct (common_hypernyms_spec hyp V fuel a b cs HG Ha Hb Hcs) as [_ Hin].
      destruct (argmax_first_spec _ snd kv (c, v) Hmax) as [Hm Hbest].
      apply (with_key_In F icv cs kv c v Hkv) in Hm. destruct Hm as [Hc Hv].
      apply Hin in Hc. destruct Hc as [Hra Hrb].
      split; auto. split; auto. split; auto.
      intros c' v' Hra' Hrb' Hv'.
      apply (Hbest (c', v')). apply (with_key_In F icv cs kv c' v' Hkv).
      split; auto. apply Hin. auto.
    Qed.

    (* and it is the same value whichever synset comes first *)
    Theorem res_choice_sym : forall V fuel a b c v c' v',
        graph_ok hyp V -> In a V -> In b V ->
        res_choice hyp cls fuel F gt icv a b = Val (c, v) ->
        res_choice hyp cls fuel F gt icv b a = Val (c', v') -> (c, v) = (c', v').
    Proof.
      intros V fuel a b c v c' v' _ _ _ H H'.
      destruct (res_choice_Val _ _ _ _ _ H) as (cs & kv & Hcs & Hkv & Hmax).
      destruct (res_choice_Val _ _ _ _ _ H') as (cs' & kv' & Hcs' & Hkv' & Hmax').
      rewrite common_hypernyms_comm in Hcs'. congruence.
    Qed.

    (* the weight table of the first synset's class: defined exactly on that class *)
    Lemma wt_for_Some : forall a c w,
        wt_for cls F wt a c = Some w <-> (cls c = cls a /\ wt c = Some w).
    Proof.
      intros a c w. unfold wt_for. destruct (Z.eqb (cls c) (cls a)) eqn:He.
      - apply Z.eqb_eq in He. split; [intros Hw; split; assumption|intros [_ Hw]; exact Hw].
      - apply Z.eqb_neq in He. split; [discriminate|intros [Hc _]; contradiction].
    Qed.

    Lemma wt_for_class : forall a b c, cls a = cls b ->
        wt_for cls F wt a c = wt_for cls F wt b c.
    Proof. intros a b c H. unfold wt_for. rewrite H. reflexivity. Qed.

    Lemma mil_Val : forall fuel a b c0,
        most_informative_lcs hyp cls fuel F gt wt a b = Val c0 ->
        exists ls kv c, lowest_common_hypernyms hyp fuel a b false = Some ls
                        /\ with_key F (wt_for cls F wt a) ls = Some kv
                        /\ argmax_first gt snd kv = Some c /\ c0 = fst c.
    Proof.
      intros fuel a b c0 H. unfold most_informative_lcs in H.
      destruct (lowest_common_hypernyms hyp fuel a b false) as [ls|]; [|discriminate].
      exists ls.
      assert (match with_key F (wt_for cls F wt a) ls with
              | Some kv => match argmax_first gt snd kv with Some c => Val (fst c) | None => WnError end
              | None => KeyErr
              end = Val c0) as H0 by (destruct ls; [discriminate|exact H]).
      destruct (with_key F (wt_for cls F wt a) ls) as [kv|]; [|discriminate].
      exists kv. destruct (argmax_first gt snd kv) as [c|]; [|discriminate].
      exists c. inversion H0. auto.
    Qed.

    (* jcn / lin use the lowest common hypernym of highest weight; all the lowest common
       hypernyms are of the first synset's class (otherwise the lookup is a KeyError) *)
    Theorem most_informative_lcs_spec : forall fuel a b c0,
        most_informative_lcs hyp cls fuel F gt wt a b = Val c0 ->
        exists ls w0, lowest_common_hypernyms hyp fuel a b false = Some ls /\ In c0 ls /\ wt c0 = Some w0
          /\ (forall c, In c ls -> cls c = cls a)
          /\ (forall c w, In c ls -> wt c = Some w -> gt w w0 = false).
    Proof.
      intros fuel a b c0 H.
      destruct (mil_Val _ _ _ _ H) as (ls & kv & [c1 w0] & Hls & Hkv & Hmax & ->).
      destruct (argmax_first_spec _ snd kv (c1, w0) Hmax) as [Hm Hbest].
      apply (with_key_In F _ ls kv c1 w0 Hkv) in Hm. destruct Hm as [Hc Hw].
      apply wt_for_Some in Hw. destruct Hw as [_ Hw].
      assert (forall c, In c ls -> cls c = cls a) as Hcls.
      { intros c Hc'. destruct (with_key_total F _ ls kv c Hkv Hc') as [w Hw'].
        apply wt_for_Some in Hw'. destruct Hw' as [Hcc _]. exact Hcc. }
      exists ls, w0. cbn [fst]. split; auto. split; auto. split; auto. split; auto.
      intros c w Hc' Hw'. apply (Hbest (c, w)).
      apply (with_key_In F _ ls kv c w Hkv). split; auto.
      apply wt_for_Some. auto.
    Qed.

    Lemma mil_sym : forall V fuel a b c0 c0',
        graph_ok hyp V -> In a V -> In b V -> cls a = cls b ->
        most_informative_lcs hyp cls fuel F gt wt a b = Val c0 ->
        most_informative_lcs hyp cls fuel F gt wt b a = Val c0' -> c0 = c0'.
    Proof.
      intros V fuel a b c0 c0' HG Ha Hb Hcls H H'.
      destruct (mil_Val _ _ _ _ H) as (ls & kv & c & Hls & Hkv & Hmax & ->).
      destruct (mil_Val _ _ _ _ H') as (ls' & kv' & c' & Hls' & Hkv' & Hmax' & ->).
      pose proof (lowest_common_hypernyms_sym hyp V fuel a b _ _ HG Ha Hb Hls Hls') as Heq.
      subst ls'.
      rewrite (with_key_ext F _ _ ls (fun x => wt_for_class a b x Hcls)) in Hkv.
      congruence.
    Qed.

    Lemma compatible_class : forall a b, negb (compatible cls a b) = false -> cls a = cls b.
    Proof.
      intros a b H. apply negb_false_iff in H. unfold compatible in H. apply Z.eqb_eq. auto.
    Qed.

    Theorem jcn_parts_sym : forall V fuel a b x y z x' y' z',
        graph_ok hyp V -> In a V -> In b V ->
        jcn_parts hyp cls fuel F gt wt icv a b = Val (x, y, z) ->
        jcn_parts hyp cls fuel F gt wt icv b a = Val (x', y', z') -> (x', y', z') = (y, x, z).
    Proof.
      intros V fuel a b x y z x' y' z' HG Ha Hb H H'. unfold jcn_parts in H, H'.
      destruct (negb (compatible cls a b)) eqn:Hcomp; [discriminate|].
      apply compatible_class in Hcomp.
      destruct (negb (compatible cls b a)); [discriminate|].
      destruct (icv a) as [ia|]; [|discriminate].
      destruct (icv b) as [ib|]; [|discriminate].
      destruct (most_informative_lcs hyp cls fuel F gt wt a b) as [c0| | |] eqn:Hc; try discriminate.
      destruct (most_informative_lcs hyp cls fuel F gt wt b a) as [c0'| | |] eqn:Hc'; try discriminate.
      assert (c0 = c0') as <- by (apply (mil_sym V fuel a b c0 c0' HG Ha Hb Hcomp Hc Hc')).
      destruct (icv c0) as [i0|]; [|discriminate]. congruence.
    Qed.

    Theorem lin_parts_sym : forall V fuel a b x y z x' y' z',
        graph_ok hyp V -> In a V -> In b V ->
        lin_parts hyp cls fuel F gt wt icv a b = Val (x, y, z) ->
        lin_parts hyp cls fuel F gt wt icv b a = Val (x', y', z') -> (x', y', z') = (y, x, z).
    Proof.
      intros V fuel a b x y z x' y' z' HG Ha Hb H H'. unfold lin_parts in H, H'.
      destruct (negb (compatible cls a b)) eqn:Hcomp; [discriminate|].
      apply compatible_class in Hcomp.
      destruct (negb (compatible cls b a)); [discriminate|].
      destruct (most_informative_lcs hyp cls fuel F gt wt a b) as [c0| | |] eqn:Hc; try discriminate.
      destruct (most_informative_lcs hyp cls fuel F gt wt b a) as [c0'| | |] eqn:Hc'; try discriminate.
      assert (c0 = c0') as <- by (apply (mil_sym V fuel a b c0 c0' HG Ha Hb Hcomp Hc Hc')).
      destruct (icv a) as [ia|]; [|discriminate].
      destruct (icv b) as [ib|]; [|discriminate].
      destruct (icv c0) as [i0|]; [|discriminate]. congruence.
    Qed.

    Theorem ic_no_common_error : forall fuel a b,
        cls a = cls b -> lowest_common_hypernyms hyp fuel a b false = Some [] ->
        most_informative_lcs hyp cls fuel F gt wt a b = WnError.
    Proof.
      intros fuel a b _ H. unfold most_informative_lcs. rewrite H. reflexivity.
    Qed.
  End IC.
End SimProofs.

Print Assumptions path_q_range.
Print Assumptions path_q_one_iff.
Print Assumptions path_q_zero_iff.
Print Assumptions wup_q_range.
Print Assumptions wup_q_one_iff.
Print Assumptions wup_q_sym.
Print Assumptions lch_arg_self_minimal.
Print Assumptions path_parts_sym.
Print Assumptions path_parts_self.
Print Assumptions path_parts_zero_iff_same.
Print Assumptions incompatible_pos_error.
Print Assumptions wup_parts_spec.
Print Assumptions wup_parts_sym.
Print Assumptions wup_parts_self.
Print Assumptions wup_no_common_error.
Print Assumptions lch_parts_spec.
Print Assumptions lch_parts_sym.
Print Assumptions lch_no_path_error.
Print Assumptions argmax_first_spec.
Print Assumptions res_choice_spec.
Print Assumptions res_choice_sym.
Print Assumptions most_informative_lcs_spec.
Print Assumptions jcn_parts_sym.
Print Assumptions lin_parts_sym.
Print Assumptions ic_no_common_error.
