(* Proofs/PermInv.v — C16 at the level of the taxonomy model: the taxonomy
   functions depend on the hypernym relation as a SET, not on the order in
   which [hyp x] happens to list the hypernyms of x.

   [hyp_eqv hyp hyp'] : for every x, [hyp x] and [hyp' x] have the same members.

   Results (every one closed under the global context):
   (I1) hypernym_paths: same SET of paths always; a PERMUTATION when both
        successor functions list no hypernym twice (needed: with hyp x = [1;1],
        hyp' x = [1] the path lists have different lengths, Example below).
   (I2) min_depth / max_depth equal (no NoDup hypothesis needed).
   (I3) common_hypernyms equal as lists.
   (I4) shortest_path_len equal, lowest_common_hypernyms equal as lists;
        shortest_path itself is NOT invariant (witness below): what is
        invariant is its length and its turning point (the common hypernym
        through which it goes, with its depth), and both versions are made of
        shortest chains a -> c and b -> c.  The path is equal when the two
        listings agree pointwise, e.g. under single inheritance.
   (I5) taxonomy_depth equal — on every graph, cyclic or not; the acyclic
        statement asked for is a corollary.  (The dependence on the order of
        the SYNSET LIST on cyclic graphs is finding F12, cf.
        Properties/C13.v, C13_taxonomy_depth_refuted; Example below.)
   (I6) roots equal.
   Each equality comes in two forms: for two arbitrary fuels on which both
   sides return Some ("_eqv"), and, since running out of fuel does not depend on
   the listing order either, as an unconditional equality of the two option
   values at the same fuel ("_eqv_fuel").  On a finite closed graph with the
   fuel of run_taxonomy both sides are Some ("_closed"). *)
From Coq Require Import ZArith List Bool Lia Permutation Sorted.
Import ListNotations.
Require Import WnV.Base.Sx WnV.Model.Taxonomy WnV.Proofs.TaxSpec WnV.Proofs.TaxPaths WnV.Proofs.TaxReach WnV.Proofs.TaxAssembly.

Definition hyp_eqv (hyp hyp' : node -> list node) : Prop :=
  forall x, forall y, In y (hyp x) <-> In y (hyp' x).

Lemma hyp_eqv_refl : forall hyp, hyp_eqv hyp hyp.
Proof. intros hyp x y. tauto. Qed.

Lemma hyp_eqv_sym : forall hyp hyp', hyp_eqv hyp hyp' -> hyp_eqv hyp' hyp.
Proof. intros hyp hyp' E x y. symmetry. apply E. Qed.

Lemma hyp_eqv_trans : forall h1 h2 h3, hyp_eqv h1 h2 -> hyp_eqv h2 h3 -> hyp_eqv h1 h3.
Proof. intros h1 h2 h3 E1 E2 x y. rewrite (E1 x y). apply E2. Qed.

(* ---------- lists as sets ---------- *)

Definition seteq {T : Type} (l l' : list T) : Prop := forall x, In x l <-> In x l'.

Lemma seteq_refl : forall T (l : list T), seteq l l.
Proof. intros T l x. tauto. Qed.

Lemma seteq_sym : forall T (l l' : list T), seteq l l' -> seteq l' l.
Proof. intros T l l' H x. symmetry. apply H. Qed.

Lemma seteq_nil_l : forall T (l : list T), seteq [] l -> l = [].
Proof.
  intros T l H. destruct l as [|a l]; auto. exfalso. apply (H a). simpl; auto.
Qed.

Lemma seteq_nil_r : forall T (l : list T), seteq l [] -> l = [].
Proof. intros T l H. apply seteq_nil_l. apply seteq_sym. exact H. Qed.

Lemma seteq_map : forall T U (f : T -> U) (l l' : list T),
    seteq l l' -> seteq (map f l) (map f l').
Proof.
  intros T U f l l' H y. rewrite !in_map_iff. split.
  - intros (x & Hx & Hin). exists x. split; auto. apply H. auto.
  - intros (x & Hx & Hin). exists x. split; auto. apply H. auto.
Qed.

Lemma seteq_concat : forall T (l l' : list (list T)),
    seteq l l' -> seteq (concat l) (concat l').
Proof.
  intros T l l' H y. rewrite !in_concat. split.
  - intros (p & Hp & Hy). exists p. split; auto. apply H. auto.
  - intros (p & Hp & Hy). exists p. split; auto. apply H. auto.
Qed.

Lemma seteq_app : forall T (l1 l1' l2 l2' : list T),
    seteq l1 l1' -> seteq l2 l2' -> seteq (l1 ++ l2) (l1' ++ l2').
Proof.
  intros T l1 l1' l2 l2' H1 H2 y. rewrite !in_app_iff, (H1 y), (H2 y). tauto.
Qed.

Lemma Permutation_seteq : forall T (l l' : list T), Permutation l l' -> seteq l l'.
Proof.
  intros T l l' H x. split.
  - apply Permutation_in. exact H.
  - apply Permutation_in. apply Permutation_sym. exact H.
Qed.

Lemma list_max_seteq : forall l l', seteq l l' -> list_max l = list_max l'.
Proof.
  intros l l' H. destruct l as [|a l].
  - rewrite (seteq_nil_l _ _ H). reflexivity.
  - destruct l' as [|a' l']; [exfalso; apply (H a); simpl; auto|].
    destruct (list_max_spec (a :: l)) as [Hin Hle]; [discriminate|].
    destruct (list_max_spec (a' :: l')) as [Hin' Hle']; [discriminate|].
    apply Nat.le_antisymm.
    + apply Hle'. apply H. exact Hin.
    + apply Hle. apply H. exact Hin'.
Qed.

Lemma list_min_seteq : forall l l', seteq l l' -> list_min l = list_min l'.
Proof.
  intros l l' H. destruct l as [|a l].
  - rewrite (seteq_nil_l _ _ H). reflexivity.
  - destruct l' as [|a' l']; [exfalso; apply (H a); simpl; auto|].
    destruct (list_min_spec (a :: l)) as [Hin Hle]; [discriminate|].
    destruct (list_min_spec (a' :: l')) as [Hin' Hle']; [discriminate|].
    apply Nat.le_antisymm.
    + apply Hle. apply H. exact Hin'.
    + apply Hle'. apply H. exact Hin.
Qed.

Lemma forallb_seteq : forall (P P' : node -> bool) (l l' : list node),
    seteq l l' -> (forall x, P x = P' x) -> forallb P l = forallb P' l'.
Proof.
  intros P P' l l' H HP.
  destruct (forallb P l) eqn:H1, (forallb P' l') eqn:H2; auto.
  - rewrite forallb_forall in H1.
    assert (forallb P' l' = true) as H3.
    { apply forallb_forall. intros x Hx. rewrite <- HP. apply H1. apply H. exact Hx. }
    congruence.
  - rewrite forallb_forall in H2.
    assert (forallb P l = true) as H3.
    { apply forallb_forall. intros x Hx. rewrite HP. apply H2. apply H. exact Hx. }
    congruence.
Qed.

Lemma nmem_seteq : forall x l l', seteq l l' -> nmem x l = nmem x l'.
Proof.
  intros x l l' H.
  destruct (nmem x l) eqn:H1, (nmem x l') eqn:H2; auto.
  - apply nmem_In in H1. apply H in H1. apply nmem_In in H1. congruence.
  - apply nmem_In in H2. apply H in H2. apply nmem_In in H2. congruence.
Qed.

(* option values related componentwise *)
Definition orel {T : Type} (R : T -> T -> Prop) (o o' : option T) : Prop :=
  match o, o' with
  | Some v, Some v' => R v v'
  | None, None => True
  | _, _ => False
  end.

Lemma orel_eq : forall T (o o' : option T), orel eq o o' -> o = o'.
Proof.
  intros T o o' H. destruct o as [v|], o' as [v'|]; simpl in H; try contradiction; congruence.
Qed.

Lemma orel_intro : forall T (R : T -> T -> Prop) (o o' : option T),
    (o <> None -> o' <> None) -> (o' <> None -> o <> None) ->
    (forall v v', o = Some v -> o' = Some v' -> R v v') -> orel R o o'.
Proof.
  intros T R o o' H1 H2 H3. destruct o as [v|], o' as [v'|]; simpl; auto.
  - apply H1; [discriminate|reflexivity].
  - apply H2; [discriminate|reflexivity].
Qed.

(* ---------- the specification vocabulary only mentions membership ---------- *)

Lemma chain_eqv : forall hyp hyp' x p, hyp_eqv hyp hyp' -> chain hyp x p -> chain hyp' x p.
Proof.
  intros hyp hyp' x p E H. induction H as [x|x t p Ht Hc IH]; constructor; auto.
  apply E. exact Ht.
Qed.

Lemma maximal_simple_eqv : forall hyp hyp' x p, hyp_eqv hyp hyp' ->
    (maximal_simple hyp x p <-> maximal_simple hyp' x p).
Proof.
  assert (forall hyp hyp' x p, hyp_eqv hyp hyp' ->
             maximal_simple hyp x p -> maximal_simple hyp' x p) as Hone.
  { intros hyp hyp' x p E (Hc & Hnd & Hl). split; [|split].
    - apply (chain_eqv hyp hyp'); auto.
    - exact Hnd.
    - intros t Ht. apply Hl. apply E. exact Ht. }
  intros hyp hyp' x p E. split.
  - apply Hone. exact E.
  - apply Hone. apply hyp_eqv_sym. exact E.
Qed.

Lemma closed_eqv : forall hyp hyp' V, hyp_eqv hyp hyp' -> closed hyp V -> closed hyp' V.
Proof. intros hyp hyp' V E H x t Ht. apply (H x). apply E. exact Ht. Qed.

Lemma graph_ok_eqv : forall hyp hyp' V, hyp_eqv hyp hyp' -> graph_ok hyp V -> graph_ok hyp' V.
Proof. intros hyp hyp' V E [Hc Hr]. split; auto. apply (closed_eqv hyp hyp'); auto. Qed.

Lemma acyclic_eqv : forall hyp hyp', hyp_eqv hyp hyp' -> acyclic hyp -> acyclic hyp'.
Proof.
  intros hyp hyp' E H x p Hc. apply H. apply (chain_eqv hyp' hyp); auto.
  apply hyp_eqv_sym. exact E.
Qed.

Lemma reach_eqv : forall hyp hyp' x y, hyp_eqv hyp hyp' -> (reach hyp x y <-> reach hyp' x y).
Proof.
  intros hyp hyp' x y E. split.
  - intros (p & Hc & Hl). exists p. split; auto. apply (chain_eqv hyp hyp'); auto.
  - intros (p & Hc & Hl). exists p. split; auto. apply (chain_eqv hyp' hyp); auto.
    apply hyp_eqv_sym. exact E.
Qed.

Lemma is_dist_eqv : forall hyp hyp' x y n, hyp_eqv hyp hyp' ->
    is_dist hyp x y n -> is_dist hyp' x y n.
Proof.
  intros hyp hyp' x y n E [(p & Hc & Hl & Hn) Hmin]. split.
  - exists p. split; [apply (chain_eqv hyp hyp'); auto|]. auto.
  - intros q Hq Hlq. apply Hmin; auto. apply (chain_eqv hyp' hyp); auto.
    apply hyp_eqv_sym. exact E.
Qed.

(* ---------- the path enumeration: same set of paths ---------- *)

Lemma relation_paths_seteq : forall hyp hyp' f f' x ps ps', hyp_eqv hyp hyp' ->
    relation_paths hyp f x = Some ps -> relation_paths hyp' f' x = Some ps' -> seteq ps ps'.
Proof.
  intros hyp hyp' f f' x ps ps' E H H' p.
  rewrite (relation_paths_spec hyp f x ps H p), (relation_paths_spec hyp' f' x ps' H' p).
  rewrite (maximal_simple_eqv hyp hyp' x p E). tauto.
Qed.

Lemma relation_paths_perm : forall hyp hyp' f f' x ps ps', hyp_eqv hyp hyp' ->
    (forall y, NoDup (hyp y)) -> (forall y, NoDup (hyp' y)) ->
    relation_paths hyp f x = Some ps -> relation_paths hyp' f' x = Some ps' ->
    Permutation ps ps'.
Proof.
  intros hyp hyp' f f' x ps ps' E N N' H H'. apply NoDup_Permutation.
  - apply (relation_paths_NoDup hyp f x ps N H).
  - apply (relation_paths_NoDup hyp' f' x ps' N' H').
  - apply (relation_paths_seteq hyp hyp' f f' x); auto.
Qed.

(* what _hypernym_paths does after relation_paths *)
Definition or_default {T : Type} (d : list T) (g : T -> T) (l : list T) : list T :=
  match l with [] => d | _ => map g l end.

Definition post_paths (x : node) (sr self : bool) (paths : list (list node)) : list (list node) :=
  let paths := if self then or_default [[x]] (cons x) paths else paths in
  if sr && negb (Z.eqb x root)
  then or_default [[root]] (fun p => p ++ [root]) paths else paths.

Definition base_paths (hyp : node -> list node) (f : nat) (x : node) : option (list (list node)) :=
  if Z.eqb x root then Some [] else relation_paths hyp f x.

Lemma hypernym_paths_gen_post : forall hyp f x sr self,
    hypernym_paths_gen hyp f x sr self = option_map (post_paths x sr self) (base_paths hyp f x).
Proof.
  intros hyp f x sr self. unfold hypernym_paths_gen, base_paths.
  destruct (if Z.eqb x root then Some [] else relation_paths hyp f x) as [paths|]; reflexivity.
Qed.

Lemma or_default_seteq : forall T (d : list T) (g : T -> T) (l l' : list T),
    seteq l l' -> seteq (or_default d g l) (or_default d g l').
Proof.
  intros T d g l l' H. destruct l as [|a l].
  - rewrite (seteq_nil_l _ _ H). apply seteq_refl.
  - destruct l' as [|a' l']; [exfalso; apply (H a); simpl; auto|].
    apply (seteq_map _ _ g _ _ H).
Qed.

Lemma or_default_perm : forall T (d : list T) (g : T -> T) (l l' : list T),
    Permutation l l' -> Permutation (or_default d g l) (or_default d g l').
Proof.
  intros T d g l l' H. destruct l as [|a l].
  - apply Permutation_nil in H. subst l'. apply Permutation_refl.
  - destruct l' as [|a' l'].
    + apply Permutation_sym in H. apply Permutation_nil in H. discriminate.
    + apply (Permutation_map g H).
Qed.

Lemma post_paths_seteq : forall x sr self l l',
    seteq l l' -> seteq (post_paths x sr self l) (post_paths x sr self l').
Proof.
  intros x sr self l l' H. unfold post_paths.
  destruct self, (sr && negb (Z.eqb x root)); auto using or_default_seteq.
Qed.

Lemma post_paths_perm : forall x sr self l l',
    Permutation l l' -> Permutation (post_paths x sr self l) (post_paths x sr self l').
Proof.
  intros x sr self l l' H. unfold post_paths.
  destruct self, (sr && negb (Z.eqb x root)); auto using or_default_perm.
Qed.

Lemma hypernym_paths_gen_seteq : forall hyp hyp' f f' x sr self ps ps', hyp_eqv hyp hyp' ->
    hypernym_paths_gen hyp f x sr self = Some ps ->
    hypernym_paths_gen hyp' f' x sr self = Some ps' -> seteq ps ps'.
Proof.
  intros hyp hyp' f f' x sr self ps ps' E H H'.
  rewrite hypernym_paths_gen_post in H, H'. unfold base_paths in H, H'.
  destruct (Z.eqb x root).
  - simpl in H, H'. inversion H; inversion H'; subst. apply seteq_refl.
  - destruct (relation_paths hyp f x) as [l|] eqn:Hl; [|discriminate].
    destruct (relation_paths hyp' f' x) as [l'|] eqn:Hl'; [|discriminate].
    simpl in H, H'. inversion H; inversion H'; subst.
    apply post_paths_seteq. apply (relation_paths_seteq hyp hyp' f f' x); auto.
Qed.

Lemma hypernym_paths_gen_perm : forall hyp hyp' f f' x sr self ps ps', hyp_eqv hyp hyp' ->
    (forall y, NoDup (hyp y)) -> (forall y, NoDup (hyp' y)) ->
    hypernym_paths_gen hyp f x sr self = Some ps ->
    hypernym_paths_gen hyp' f' x sr self = Some ps' -> Permutation ps ps'.
Proof.
  intros hyp hyp' f f' x sr self ps ps' E N N' H H'.
  rewrite hypernym_paths_gen_post in H, H'. unfold base_paths in H, H'.
  destruct (Z.eqb x root).
  - simpl in H, H'. inversion H; inversion H'; subst. apply Permutation_refl.
  - destruct (relation_paths hyp f x) as [l|] eqn:Hl; [|discriminate].
    destruct (relation_paths hyp' f' x) as [l'|] eqn:Hl'; [|discriminate].
    simpl in H, H'. inversion H; inversion H'; subst.
    apply post_paths_perm. apply (relation_paths_perm hyp hyp' f f' x); auto.
Qed.

(* ---------- running out of fuel does not depend on the listing order ---------- *)

Lemma step_defined : forall (g g' : node -> option (list (list node))) l l',
    (forall t, In t l' -> In t l) ->
    (forall t, In t l -> g t <> None -> g' t <> None) ->
    step g l <> None -> step g' l' <> None.
Proof.
  intros g g' l l' Hincl Hg Hs. apply step_not_None. intros t Ht.
  apply Hg; [apply Hincl; exact Ht|].
  destruct (step g l) as [ps|] eqn:Hps; [|contradiction].
  destruct (step_Some_inv g l ps t Hps (Hincl t Ht)) as [qs Hqs].
  rewrite Hqs. discriminate.
Qed.

Lemma paths_from_defined : forall hyp hyp', hyp_eqv hyp hyp' -> forall f vis x,
    paths_from hyp f vis x <> None -> paths_from hyp' f vis x <> None.
Proof.
  intros hyp hyp' E f. induction f as [|f IH]; intros vis x H.
  - exfalso. apply H. reflexivity.
  - rewrite paths_from_S in H. rewrite paths_from_S.
    assert (seteq (filter (fun t => negb (nmem t vis)) (hyp x))
                  (filter (fun t => negb (nmem t vis)) (hyp' x))) as Hse.
    { intros t. rewrite !unvisited_In, (E x t). tauto. }
    destruct (filter (fun t => negb (nmem t vis)) (hyp x)) as [|a l] eqn:Hf;
      destruct (filter (fun t => negb (nmem t vis)) (hyp' x)) as [|a' l'] eqn:Hf'.
    + discriminate.
    + apply seteq_nil_l in Hse. discriminate.
    + discriminate.
    + refine (step_defined _ _ (a :: l) (a' :: l') _ _ H).
      * intros t Ht. apply Hse. exact Ht.
      * intros t _ Ht. apply IH. exact Ht.
Qed.

Lemma relation_paths_defined : forall hyp hyp', hyp_eqv hyp hyp' -> forall f x,
    relation_paths hyp f x <> None -> relation_paths hyp' f x <> None.
Proof.
  intros hyp hyp' E f x H. rewrite relation_paths_step in H. rewrite relation_paths_step.
  refine (step_defined _ _ _ _ _ _ H).
  - intros t Ht. apply in_rev in Ht. apply other_In in Ht.
    apply in_rev. rewrite rev_involutive. apply other_In.
    destruct Ht as [Ht Hne]. split; auto. apply E. exact Ht.
  - intros t _ Ht. apply (paths_from_defined hyp hyp' E). exact Ht.
Qed.

Lemma hypernym_paths_gen_defined : forall hyp hyp', hyp_eqv hyp hyp' -> forall f x sr self,
    hypernym_paths_gen hyp f x sr self <> None -> hypernym_paths_gen hyp' f x sr self <> None.
Proof.
  intros hyp hyp' E f x sr self H.
  rewrite hypernym_paths_gen_post in H. rewrite hypernym_paths_gen_post.
  unfold base_paths in *. destruct (Z.eqb x root).
  - discriminate.
  - pose proof (relation_paths_defined hyp hyp' E f x) as Hd.
    destruct (relation_paths hyp f x) as [l|]; [|exfalso; apply H; reflexivity].
    destruct (relation_paths hyp' f x) as [l'|]; [discriminate|].
    exfalso. apply Hd; [discriminate|reflexivity].
Qed.

(* the central fact: at the same fuel the two enumerations are both out of fuel
   or list the same set of paths *)
Lemma hypernym_paths_gen_rel : forall hyp hyp' f x sr self, hyp_eqv hyp hyp' ->
    orel seteq (hypernym_paths_gen hyp f x sr self) (hypernym_paths_gen hyp' f x sr self).
Proof.
  intros hyp hyp' f x sr self E. apply orel_intro.
  - apply (hypernym_paths_gen_defined hyp hyp' E).
  - apply (hypernym_paths_gen_defined hyp' hyp (hyp_eqv_sym _ _ E)).
  - intros v v' H H'. apply (hypernym_paths_gen_seteq hyp hyp' f f x sr self); auto.
Qed.

(* ---------- the functions computed from the paths ---------- *)

Lemma sort_common_seteq : forall pa pb pa' pb', seteq pa pa' -> seteq pb pb' ->
    sort_nodes (common_of pa pb) = sort_nodes (common_of pa' pb').
Proof.
  intros pa pb pa' pb' Ha Hb. apply sorted_unique.
  - apply sort_nodes_StronglySorted.
  - apply sort_nodes_StronglySorted.
  - apply sort_nodes_NoDup. apply nodup_keep_NoDup.
  - apply sort_nodes_NoDup. apply nodup_keep_NoDup.
  - intros z. rewrite !sort_nodes_In, !common_of_In.
    rewrite (seteq_concat _ _ _ Ha z), (seteq_concat _ _ _ Hb z). tauto.
Qed.

Lemma depth_in_seteq : forall c pa pa', seteq pa pa' -> depth_in c pa = depth_in c pa'.
Proof.
  intros c pa pa' H. unfold depth_in. apply list_max_seteq. apply seteq_map. exact H.
Qed.

(* best_prefix takes the FIRST shortest prefix, so the prefix itself depends on the
   order of the paths; whether there is one, and its length, do not *)
Lemma best_prefix_seteq : forall c pa pa', seteq pa pa' ->
    orel (fun b b' => length b = length b') (best_prefix c pa) (best_prefix c pa').
Proof.
  intros c pa pa' H.
  pose proof (best_prefix_inv c pa) as I1. pose proof (best_prefix_inv c pa') as I2.
  destruct (best_prefix c pa) as [b|], (best_prefix c pa') as [b'|]; unfold bp_inv in *; simpl.
  - destruct I1 as (p1 & p2 & Hin & Hn & -> & Hmin).
    destruct I2 as (q1 & q2 & Hin' & Hn' & -> & Hmin').
    rewrite !app_length. simpl.
    assert (length q1 <= length p1) as L1.
    { apply (Hmin' (p1 ++ c :: p2)); [apply H; exact Hin|apply index_of_app; exact Hn]. }
    assert (length p1 <= length q1) as L2.
    { apply (Hmin (q1 ++ c :: q2)); [apply H; exact Hin'|apply index_of_app; exact Hn']. }
    lia.
  - destruct I1 as (p1 & p2 & Hin & _). apply (I2 (p1 ++ c :: p2)).
    + apply H. exact Hin.
    + rewrite in_app_iff. simpl. auto.
  - destruct I2 as (q1 & q2 & Hin' & _). apply (I1 (q1 ++ c :: q2)).
    + apply H. exact Hin'.
    + rewrite in_app_iff. simpl. auto.
  - exact I.
Qed.

(* the order-independent part of an entry of the path map: the common hypernym,
   its depth, and the LENGTH of the path through it *)
Definition skel (e : node * nat * list node) : node * nat * nat := (fst e, length (snd e)).

Lemma length_tl : forall T (l : list T), length (tl l) = length l - 1.
Proof. intros T l. destruct l; simpl; lia. Qed.

Lemma sp_entry_skel : forall pa pb pa' pb' c, seteq pa pa' -> seteq pb pb' ->
    map skel (sp_entry pa pb c) = map skel (sp_entry pa' pb' c).
Proof.
  intros pa pb pa' pb' c Ha Hb. unfold sp_entry.
  pose proof (best_prefix_seteq c pa pa' Ha) as Ba.
  pose proof (best_prefix_seteq c pb pb' Hb) as Bb.
  destruct (best_prefix c pa) as [sa|], (best_prefix c pa') as [sa'|];
    simpl in Ba; try contradiction;
    destruct (best_prefix c pb) as [sb|], (best_prefix c pb') as [sb'|];
    simpl in Bb; try contradiction; try reflexivity.
  simpl. unfold skel. simpl.
  rewrite (depth_in_seteq c pa pa' Ha), (depth_in_seteq c pb pb' Hb).
  rewrite !app_length, !length_tl, !rev_length, Ba, Bb. reflexivity.
Qed.

Lemma shp_pure_skel : forall pa pb pa' pb', seteq pa pa' -> seteq pb pb' ->
    map skel (flat_map (sp_entry pa pb) (sort_nodes (common_of pa pb)))
    = map skel (flat_map (sp_entry pa' pb') (sort_nodes (common_of pa' pb'))).
Proof.
  intros pa pb pa' pb' Ha Hb. rewrite !map_flat_map.
  rewrite (sort_common_seteq pa pb pa' pb' Ha Hb).
  apply flat_map_ext_all. intros c. apply sp_entry_skel; auto.
Qed.

Lemma shortest_hyp_paths_unfold : forall hyp f a b sr,
    shortest_hyp_paths hyp f a b sr =
    if Z.eqb a b then Some [(a, 0, [])]
    else match hypernym_paths_gen hyp f a sr true, hypernym_paths_gen hyp f b sr true with
         | Some pa, Some pb =>
             Some (flat_map (sp_entry pa pb) (sort_nodes (common_of pa pb)))
         | _, _ => None
         end.
Proof. reflexivity. Qed.

Definition skel_eq (pm pm' : list (node * nat * list node)) : Prop := map skel pm = map skel pm'.

Lemma shortest_hyp_paths_skel : forall hyp hyp' f f' a b sr pm pm', hyp_eqv hyp hyp' ->
    shortest_hyp_paths hyp f a b sr = Some pm -> shortest_hyp_paths hyp' f' a b sr = Some pm' ->
    skel_eq pm pm'.
Proof.
  intros hyp hyp' f f' a b sr pm pm' E H H'. rewrite shortest_hyp_paths_unfold in H, H'.
  destruct (Z.eqb a b).
  - inversion H; inversion H'; subst. reflexivity.
  - destruct (hypernym_paths_gen hyp f a sr true) as [pa|] eqn:Hpa; [|discriminate].
    destruct (hypernym_paths_gen hyp f b sr true) as [pb|] eqn:Hpb; [|discriminate].
    destruct (hypernym_paths_gen hyp' f' a sr true) as [pa'|] eqn:Hpa'; [|discriminate].
    destruct (hypernym_paths_gen hyp' f' b sr true) as [pb'|] eqn:Hpb'; [|discriminate].
    inversion H; inversion H'; subst. apply shp_pure_skel.
    + apply (hypernym_paths_gen_seteq hyp hyp' f f' a sr true); auto.
    + apply (hypernym_paths_gen_seteq hyp hyp' f f' b sr true); auto.
Qed.

Lemma shortest_hyp_paths_rel : forall hyp hyp' f a b sr, hyp_eqv hyp hyp' ->
    orel skel_eq (shortest_hyp_paths hyp f a b sr) (shortest_hyp_paths hyp' f a b sr).
Proof.
  intros hyp hyp' f a b sr E. rewrite !shortest_hyp_paths_unfold.
  destruct (Z.eqb a b); [reflexivity|].
  pose proof (hypernym_paths_gen_rel hyp hyp' f a sr true E) as Ra.
  pose proof (hypernym_paths_gen_rel hyp hyp' f b sr true E) as Rb.
  destruct (hypernym_paths_gen hyp f a sr true) as [pa|],
           (hypernym_paths_gen hyp' f a sr true) as [pa'|]; simpl in Ra; try contradiction;
    destruct (hypernym_paths_gen hyp f b sr true) as [pb|],
             (hypernym_paths_gen hyp' f b sr true) as [pb'|]; simpl in Rb; try contradiction;
    simpl; auto.
  apply shp_pure_skel; auto.
Qed.

(* the three results read off the path map, as functions of the map *)
Definition spl_of (pm : list (node * nat * list node)) : option nat :=
  match pm with
  | [] => None
  | _ => Some (list_min (map (fun e => length (snd e)) pm) - 1)
  end.

Lemma shortest_path_len_of : forall hyp f a b sr,
    shortest_path_len hyp f a b sr = option_map spl_of (shortest_hyp_paths hyp f a b sr).
Proof.
  intros hyp f a b sr. unfold shortest_path_len.
  destruct (shortest_hyp_paths hyp f a b sr) as [[|e pm]|]; reflexivity.
Qed.

Lemma spl_of_skel : forall pm pm', skel_eq pm pm' -> spl_of pm = spl_of pm'.
Proof.
  intros pm pm' H. unfold skel_eq in H.
  assert (forall l : list (node * nat * list node),
             map (fun e => length (snd e)) l = map snd (map skel l)) as Hm.
  { intros l. rewrite map_map. apply map_ext. intros e. reflexivity. }
  destruct pm as [|e pm], pm' as [|e' pm']; try discriminate; auto.
  unfold spl_of. rewrite !Hm, H. reflexivity.
Qed.

Lemma lowest_of_skel : forall pm pm', skel_eq pm pm' ->
    lowest_of (map fst pm) = lowest_of (map fst pm').
Proof.
  intros pm pm' H. unfold skel_eq in H.
  assert (forall l : list (node * nat * list node), map fst l = map fst (map skel l)) as Hm.
  { intros l. rewrite map_map. apply map_ext. intros e. reflexivity. }
  rewrite !Hm, H. reflexivity.
Qed.

(* min(pathmap, key=len): the first entry of minimal path length *)
Definition sp_pick (best e' : node * nat * list node) : node * nat * list node :=
  if Nat.ltb (length (snd e')) (length (snd best)) then e' else best.

Definition sp_choice (pm : list (node * nat * list node)) : option (node * nat * list node) :=
  match pm with
  | [] => None
  | e :: pm' => Some (fold_left sp_pick pm' e)
  end.

Lemma shortest_path_choice : forall hyp f a b sr,
    shortest_path hyp f a b sr =
    option_map (fun pm => option_map (fun e => tl (snd e)) (sp_choice pm))
               (shortest_hyp_paths hyp f a b sr).
Proof.
  intros hyp f a b sr. unfold shortest_path.
  destruct (shortest_hyp_paths hyp f a b sr) as [[|e pm]|]; reflexivity.
Qed.

Lemma sp_choice_In : forall pm e, sp_choice pm = Some e -> In e pm.
Proof.
  intros pm e H. destruct pm as [|e0 pm']; [discriminate|]. simpl in H. inversion H.
  destruct (argmin_fold _ (fun e : node * nat * list node => length (snd e)) pm' e0) as [Hin _].
  exact Hin.
Qed.

Lemma sp_pick_fold_skel : forall pm pm' e e',
    skel e = skel e' -> skel_eq pm pm' ->
    skel (fold_left sp_pick pm e) = skel (fold_left sp_pick pm' e').
Proof.
  intros pm. induction pm as [|x pm IH]; intros pm' e e' He H; unfold skel_eq in H.
  - destruct pm' as [|x' pm']; [|discriminate]. exact He.
  - destruct pm' as [|x' pm']; [discriminate|]. simpl in H.
    injection H as Hx L1 H. simpl. apply IH; [|exact H].
    unfold sp_pick.
    assert (length (snd e) = length (snd e')) as L2 by (apply (f_equal snd) in He; exact He).
    rewrite L1, L2. destruct (Nat.ltb (length (snd x')) (length (snd e'))); auto.
    unfold skel. rewrite Hx, L1. reflexivity.
Qed.

Lemma sp_choice_skel : forall pm pm', skel_eq pm pm' ->
    orel (fun e e' => skel e = skel e') (sp_choice pm) (sp_choice pm').
Proof.
  intros pm pm' H. pose proof H as H0. unfold skel_eq in H0.
  destruct pm as [|e pm], pm' as [|e' pm']; try discriminate; simpl; auto.
  simpl in H0. injection H0 as He Le H0. apply sp_pick_fold_skel; auto.
  unfold skel. rewrite He, Le. reflexivity.
Qed.

(* ---------- the invariance theorems, two fuels, both sides Some ---------- *)

Lemma min_depth_unfold : forall hyp f x sr,
    min_depth hyp f x sr =
    option_map (fun ps => list_min (map (@length _) ps)) (hypernym_paths_gen hyp f x sr false).
Proof. reflexivity. Qed.

Lemma max_depth_unfold : forall hyp f x sr,
    max_depth hyp f x sr =
    option_map (fun ps => list_max (map (@length _) ps)) (hypernym_paths_gen hyp f x sr false).
Proof. reflexivity. Qed.

Lemma lengths_seteq : forall ps ps' : list (list node), seteq ps ps' ->
    list_min (map (@length _) ps) = list_min (map (@length _) ps')
    /\ list_max (map (@length _) ps) = list_max (map (@length _) ps').
Proof.
  intros ps ps' H. split.
  - apply list_min_seteq. apply seteq_map. exact H.
  - apply list_max_seteq. apply seteq_map. exact H.
Qed.

Lemma roots_seteq : forall hyp hyp' syn, hyp_eqv hyp hyp' -> roots hyp syn = roots hyp' syn.
Proof.
  intros hyp hyp' syn E. unfold roots. apply filter_ext. intros s.
  pose proof (E s) as Hs. fold (seteq (hyp s) (hyp' s)) in Hs.
  destruct (hyp s) as [|t l] eqn:H1.
  - rewrite (seteq_nil_l _ _ Hs). reflexivity.
  - destruct (hyp' s) as [|t' l']; [|reflexivity].
    apply seteq_nil_r in Hs. discriminate.
Qed.

Lemma taxonomy_depth_loop_eqv2 : forall hyp hyp' f f', hyp_eqv hyp hyp' ->
    forall syn seen seen' depth d d', seteq seen seen' ->
      taxonomy_depth_loop hyp f syn seen depth = Some d ->
      taxonomy_depth_loop hyp' f' syn seen' depth = Some d' -> d = d'.
Proof.
  intros hyp hyp' f f' E syn.
  induction syn as [|ss rest IH]; intros seen seen' depth d d' Hs H H'.
  - simpl in H, H'. congruence.
  - simpl in H, H'.
    rewrite (forallb_seteq (fun h => nmem h seen) (fun h => nmem h seen') (hyp ss) (hyp' ss)
               (E ss) (fun h => nmem_seteq h seen seen' Hs)) in H.
    destruct (forallb (fun h => nmem h seen') (hyp' ss)).
    + apply (IH seen seen' depth d d' Hs H H').
    + unfold hypernym_paths in H, H'.
      destruct (hypernym_paths_gen hyp f ss false false) as [ps|] eqn:Hp; [|discriminate].
      destruct (hypernym_paths_gen hyp' f' ss false false) as [ps'|] eqn:Hp'; [|discriminate].
      pose proof (hypernym_paths_gen_seteq hyp hyp' f f' ss false false ps ps' E Hp Hp') as Hse.
      destruct ps as [|p0 ps1].
      * rewrite (seteq_nil_l _ _ Hse) in H'. apply (IH seen seen' depth d d' Hs H H').
      * destruct ps' as [|p0' ps1']; [apply seteq_nil_r in Hse; discriminate|].
        destruct (lengths_seteq _ _ Hse) as [_ Hmax]. rewrite Hmax in H.
        refine (IH _ _ _ d d' _ H H').
        apply seteq_app; [apply seteq_concat; exact Hse|exact Hs].
Qed.

Lemma taxonomy_depth_loop_rel : forall hyp hyp' f, hyp_eqv hyp hyp' ->
    forall syn seen seen' depth, seteq seen seen' ->
      taxonomy_depth_loop hyp f syn seen depth = taxonomy_depth_loop hyp' f syn seen' depth.
Proof.
  intros hyp hyp' f E syn.
  induction syn as [|ss rest IH]; intros seen seen' depth Hs.
  - reflexivity.
  - simpl.
    rewrite (forallb_seteq (fun h => nmem h seen) (fun h => nmem h seen') (hyp ss) (hyp' ss)
               (E ss) (fun h => nmem_seteq h seen seen' Hs)).
    destruct (forallb (fun h => nmem h seen') (hyp' ss)).
    + apply IH. exact Hs.
    + unfold hypernym_paths.
      pose proof (hypernym_paths_gen_rel hyp hyp' f ss false false E) as R.
      destruct (hypernym_paths_gen hyp f ss false false) as [ps|],
               (hypernym_paths_gen hyp' f ss false false) as [ps'|];
        simpl in R; try contradiction; auto.
      destruct ps as [|p0 ps1].
      * rewrite (seteq_nil_l _ _ R). apply IH. exact Hs.
      * destruct ps' as [|p0' ps1']; [apply seteq_nil_r in R; discriminate|].
        destruct (lengths_seteq _ _ R) as [_ Hmax]. rewrite Hmax.
        apply IH. apply seteq_app; [apply seteq_concat; exact R|exact Hs].
Qed.

(* one entry of the path map, geometrically (no simulated root) *)
Lemma sp_choice_decomp : forall hyp V f a b pm e,
    graph_ok hyp V -> In a V -> In b V -> a <> b ->
    shortest_hyp_paths hyp f a b false = Some pm -> sp_choice pm = Some e ->
    exists ua ub,
      snd e = (a :: ua) ++ tl (rev (b :: ub))
      /\ chain hyp a ua /\ last ua a = fst (fst e) /\ is_dist hyp a (fst (fst e)) (length ua)
      /\ chain hyp b ub /\ last ub b = fst (fst e) /\ is_dist hyp b (fst (fst e)) (length ub).
Proof.
  intros hyp V f a b pm e HG Ha Hb Hab Hpm He.
  destruct (shp_entries hyp V f a b pm HG Ha Hb Hab Hpm) as (pa & pb & _ & _ & Hgood & _).
  destruct (Hgood e (sp_choice_In pm e He))
    as (c & ua & ub & Hua & Hla & Hda & Hub & Hlb & Hdb & ->).
  exists ua, ub. simpl. repeat (split; [assumption || reflexivity|]). assumption.
Qed.

(* ====================================================================== *)
(* The theorems                                                            *)
(* ====================================================================== *)

(* ---------- (I1) hypernym_paths ---------- *)

(* the same SET of paths, whatever the multiplicities in hyp x *)
Theorem hypernym_paths_seteq : forall hyp hyp' f f' x sr ps ps', hyp_eqv hyp hyp' ->
    hypernym_paths hyp f x sr = Some ps -> hypernym_paths hyp' f' x sr = Some ps' ->
    forall p, In p ps <-> In p ps'.
Proof.
  intros hyp hyp' f f' x sr ps ps' E H H'.
  apply (hypernym_paths_gen_seteq hyp hyp' f f' x sr false ps ps' E H H').
Qed.

(* a permutation, when no hypernym is listed twice *)
Theorem hypernym_paths_perm : forall hyp hyp' f f' x sr ps ps', hyp_eqv hyp hyp' ->
    (forall y, NoDup (hyp y)) -> (forall y, NoDup (hyp' y)) ->
    hypernym_paths hyp f x sr = Some ps -> hypernym_paths hyp' f' x sr = Some ps' ->
    Permutation ps ps'.
Proof.
  intros hyp hyp' f f' x sr ps ps' E N N' H H'.
  apply (hypernym_paths_gen_perm hyp hyp' f f' x sr false ps ps' E N N' H H').
Qed.

(* the variant with the synset itself in front (what common_hypernyms etc. use) *)
Theorem hypernym_paths_gen_perm_all : forall hyp hyp' f f' x sr self ps ps', hyp_eqv hyp hyp' ->
    (forall y, NoDup (hyp y)) -> (forall y, NoDup (hyp' y)) ->
    hypernym_paths_gen hyp f x sr self = Some ps ->
    hypernym_paths_gen hyp' f' x sr self = Some ps' ->
    Permutation ps ps'.
Proof. exact hypernym_paths_gen_perm. Qed.

(* running out of fuel does not depend on the order *)
Theorem hypernym_paths_defined_eqv : forall hyp hyp' f x sr, hyp_eqv hyp hyp' ->
    (hypernym_paths hyp f x sr = None <-> hypernym_paths hyp' f x sr = None).
Proof.
  intros hyp hyp' f x sr E. unfold hypernym_paths.
  pose proof (hypernym_paths_gen_rel hyp hyp' f x sr false E) as R.
  destruct (hypernym_paths_gen hyp f x sr false), (hypernym_paths_gen hyp' f x sr false);
    simpl in R; try contradiction; split; auto; discriminate.
Qed.

(* on a finite closed graph, with the fuel of run_taxonomy, both sides are Some *)
Theorem hypernym_paths_perm_closed : forall hyp hyp' V x sr, hyp_eqv hyp hyp' ->
    (forall y, NoDup (hyp y)) -> (forall y, NoDup (hyp' y)) ->
    closed hyp V -> In x V ->
    exists ps ps',
      hypernym_paths hyp (S (S (length V))) x sr = Some ps
      /\ hypernym_paths hyp' (S (S (length V))) x sr = Some ps'
      /\ Permutation ps ps'.
Proof.
  intros hyp hyp' V x sr E N N' HV Hx.
  pose proof (hypernym_paths_gen_terminates hyp V x sr false HV Hx) as T.
  pose proof (hypernym_paths_gen_terminates hyp' V x sr false (closed_eqv hyp hyp' V E HV) Hx) as T'.
  unfold hypernym_paths.
  destruct (hypernym_paths_gen hyp (S (S (length V))) x sr false) as [ps|] eqn:H;
    [|contradiction].
  destruct (hypernym_paths_gen hyp' (S (S (length V))) x sr false) as [ps'|] eqn:H';
    [|contradiction].
  exists ps, ps'. split; auto. split; auto.
  apply (hypernym_paths_gen_perm hyp hyp' _ _ x sr false ps ps' E N N' H H').
Qed.

(* without the NoDup hypotheses the two lists need not have the same length *)
Example hypernym_paths_perm_needs_NoDup :
  let hyp := hyp_of [(1, [2; 2])]%Z in
  let hyp' := hyp_of [(1, [2])]%Z in
  hyp_eqv hyp hyp'
  /\ hypernym_paths hyp 5 1%Z false = Some [[2]; [2]]%Z
  /\ hypernym_paths hyp' 5 1%Z false = Some [[2]]%Z.
Proof.
  split; [|vm_compute; split; reflexivity].
  intros x y. unfold hyp_of. cbn [find fst snd].
  destruct (Z.eqb 1 x); simpl; tauto.
Qed.

(* ---------- (I2) min_depth, max_depth ---------- *)

Theorem min_depth_eqv : forall hyp hyp' f f' x sr m m', hyp_eqv hyp hyp' ->
    min_depth hyp f x sr = Some m -> min_depth hyp' f' x sr = Some m' -> m = m'.
Proof.
  intros hyp hyp' f f' x sr m m' E H H'. rewrite min_depth_unfold in H, H'.
  destruct (hypernym_paths_gen hyp f x sr false) as [ps|] eqn:Hp; [|discriminate].
  destruct (hypernym_paths_gen hyp' f' x sr false) as [ps'|] eqn:Hp'; [|discriminate].
  simpl in H, H'. inversion H; inversion H'; subst.
  apply lengths_seteq. apply (hypernym_paths_gen_seteq hyp hyp' f f' x sr false); auto.
Qed.

Theorem max_depth_eqv : forall hyp hyp' f f' x sr m m', hyp_eqv hyp hyp' ->
    max_depth hyp f x sr = Some m -> max_depth hyp' f' x sr = Some m' -> m = m'.
Proof.
  intros hyp hyp' f f' x sr m m' E H H'. rewrite max_depth_unfold in H, H'.
  destruct (hypernym_paths_gen hyp f x sr false) as [ps|] eqn:Hp; [|discriminate].
  destruct (hypernym_paths_gen hyp' f' x sr false) as [ps'|] eqn:Hp'; [|discriminate].
  simpl in H, H'. inversion H; inversion H'; subst.
  apply lengths_seteq. apply (hypernym_paths_gen_seteq hyp hyp' f f' x sr false); auto.
Qed.

Theorem min_depth_eqv_fuel : forall hyp hyp' f x sr, hyp_eqv hyp hyp' ->
    min_depth hyp f x sr = min_depth hyp' f x sr.
Proof.
  intros hyp hyp' f x sr E. rewrite !min_depth_unfold.
  pose proof (hypernym_paths_gen_rel hyp hyp' f x sr false E) as R.
  destruct (hypernym_paths_gen hyp f x sr false), (hypernym_paths_gen hyp' f x sr false);
    simpl in R; try contradiction; auto.
  simpl. f_equal. apply lengths_seteq. exact R.
Qed.

Theorem max_depth_eqv_fuel : forall hyp hyp' f x sr, hyp_eqv hyp hyp' ->
    max_depth hyp f x sr = max_depth hyp' f x sr.
Proof.
  intros hyp hyp' f x sr E. rewrite !max_depth_unfold.
  pose proof (hypernym_paths_gen_rel hyp hyp' f x sr false E) as R.
  destruct (hypernym_paths_gen hyp f x sr false), (hypernym_paths_gen hyp' f x sr false);
    simpl in R; try contradiction; auto.
  simpl. f_equal. apply lengths_seteq. exact R.
Qed.

(* ---------- (I3) common_hypernyms ---------- *)

Theorem common_hypernyms_eqv : forall hyp hyp' f f' a b sr cs cs', hyp_eqv hyp hyp' ->
    common_hypernyms hyp f a b sr = Some cs -> common_hypernyms hyp' f' a b sr = Some cs' ->
    cs = cs'.
Proof.
  intros hyp hyp' f f' a b sr cs cs' E H H'. unfold common_hypernyms in H, H'.
  destruct (hypernym_paths_gen hyp f a sr true) as [pa|] eqn:Hpa; [|discriminate].
  destruct (hypernym_paths_gen hyp f b sr true) as [pb|] eqn:Hpb; [|discriminate].
  destruct (hypernym_paths_gen hyp' f' a sr true) as [pa'|] eqn:Hpa'; [|discriminate].
  destruct (hypernym_paths_gen hyp' f' b sr true) as [pb'|] eqn:Hpb'; [|discriminate].
  inversion H; inversion H'; subst. apply sort_common_seteq.
  - apply (hypernym_paths_gen_seteq hyp hyp' f f' a sr true); auto.
  - apply (hypernym_paths_gen_seteq hyp hyp' f f' b sr true); auto.
Qed.

Theorem common_hypernyms_eqv_fuel : forall hyp hyp' f a b sr, hyp_eqv hyp hyp' ->
    common_hypernyms hyp f a b sr = common_hypernyms hyp' f a b sr.
Proof.
  intros hyp hyp' f a b sr E. unfold common_hypernyms.
  pose proof (hypernym_paths_gen_rel hyp hyp' f a sr true E) as Ra.
  pose proof (hypernym_paths_gen_rel hyp hyp' f b sr true E) as Rb.
  destruct (hypernym_paths_gen hyp f a sr true) as [pa|],
           (hypernym_paths_gen hyp' f a sr true) as [pa'|]; simpl in Ra; try contradiction;
    destruct (hypernym_paths_gen hyp f b sr true) as [pb|],
             (hypernym_paths_gen hyp' f b sr true) as [pb'|]; simpl in Rb; try contradiction;
    auto.
  f_equal. apply sort_common_seteq; auto.
Qed.

(* ---------- (I4) shortest_path_len, lowest_common_hypernyms, shortest_path ---------- *)

Theorem shortest_path_len_eqv : forall hyp hyp' f f' a b sr r r', hyp_eqv hyp hyp' ->
    shortest_path_len hyp f a b sr = Some r -> shortest_path_len hyp' f' a b sr = Some r' ->
    r = r'.
Proof.
  intros hyp hyp' f f' a b sr r r' E H H'. rewrite shortest_path_len_of in H, H'.
  destruct (shortest_hyp_paths hyp f a b sr) as [pm|] eqn:Hpm; [|discriminate].
  destruct (shortest_hyp_paths hyp' f' a b sr) as [pm'|] eqn:Hpm'; [|discriminate].
  simpl in H, H'. inversion H; inversion H'; subst.
  apply spl_of_skel. apply (shortest_hyp_paths_skel hyp hyp' f f' a b sr); auto.
Qed.

Theorem shortest_path_len_eqv_fuel : forall hyp hyp' f a b sr, hyp_eqv hyp hyp' ->
    shortest_path_len hyp f a b sr = shortest_path_len hyp' f a b sr.
Proof.
  intros hyp hyp' f a b sr E. rewrite !shortest_path_len_of.
  pose proof (shortest_hyp_paths_rel hyp hyp' f a b sr E) as R.
  destruct (shortest_hyp_paths hyp f a b sr), (shortest_hyp_paths hyp' f a b sr);
    simpl in R; try contradiction; auto.
  simpl. f_equal. apply spl_of_skel. exact R.
Qed.

Theorem lowest_common_hypernyms_eqv : forall hyp hyp' f f' a b sr ls ls', hyp_eqv hyp hyp' ->
    lowest_common_hypernyms hyp f a b sr = Some ls ->
    lowest_common_hypernyms hyp' f' a b sr = Some ls' -> ls = ls'.
Proof.
  intros hyp hyp' f f' a b sr ls ls' E H H'.
  rewrite lowest_common_hypernyms_lowest_of in H, H'.
  destruct (shortest_hyp_paths hyp f a b sr) as [pm|] eqn:Hpm; [|discriminate].
  destruct (shortest_hyp_paths hyp' f' a b sr) as [pm'|] eqn:Hpm'; [|discriminate].
  simpl in H, H'. inversion H; inversion H'; subst.
  apply lowest_of_skel. apply (shortest_hyp_paths_skel hyp hyp' f f' a b sr); auto.
Qed.

Theorem lowest_common_hypernyms_eqv_fuel : forall hyp hyp' f a b sr, hyp_eqv hyp hyp' ->
    lowest_common_hypernyms hyp f a b sr = lowest_common_hypernyms hyp' f a b sr.
Proof.
  intros hyp hyp' f a b sr E. rewrite !lowest_common_hypernyms_lowest_of.
  pose proof (shortest_hyp_paths_rel hyp hyp' f a b sr E) as R.
  destruct (shortest_hyp_paths hyp f a b sr), (shortest_hyp_paths hyp' f a b sr);
    simpl in R; try contradiction; auto.
  simpl. f_equal. apply lowest_of_skel. exact R.
Qed.

(* shortest_path itself is NOT invariant: in the diamond 10 -> {1, 2} -> 3 the
   path from 10 to 3 goes through whichever of 1, 2 the enumeration meets first *)
Example shortest_path_not_invariant :
  let hyp := hyp_of [(10, [1; 2]); (1, [3]); (2, [3])]%Z in
  let hyp' := hyp_of [(10, [2; 1]); (1, [3]); (2, [3])]%Z in
  hyp_eqv hyp hyp'
  /\ (forall y, NoDup (hyp y)) /\ (forall y, NoDup (hyp' y))
  /\ closed hyp [10; 1; 2; 3]%Z
  /\ shortest_path hyp 6 10%Z 3%Z false = Some (Some [2; 3]%Z)
  /\ shortest_path hyp' 6 10%Z 3%Z false = Some (Some [1; 3]%Z)
  /\ shortest_path hyp 6 3%Z 10%Z false = Some (Some [2; 10]%Z)
  /\ shortest_path hyp' 6 3%Z 10%Z false = Some (Some [1; 10]%Z).
Proof.
  split; [|split; [|split; [|split]]].
  - intros x y. unfold hyp_of. cbn [find fst snd].
    destruct (Z.eqb 10 x); [simpl; tauto|].
    destruct (Z.eqb 1 x); [simpl; tauto|].
    destruct (Z.eqb 2 x); simpl; tauto.
  - intros y. unfold hyp_of. cbn [find fst snd].
    destruct (Z.eqb 10 y); [repeat constructor; simpl; intuition discriminate|].
    destruct (Z.eqb 1 y); [repeat constructor; simpl; intuition discriminate|].
    destruct (Z.eqb 2 y); repeat constructor; simpl; intuition discriminate.
  - intros y. unfold hyp_of. cbn [find fst snd].
    destruct (Z.eqb 10 y); [repeat constructor; simpl; intuition discriminate|].
    destruct (Z.eqb 1 y); [repeat constructor; simpl; intuition discriminate|].
    destruct (Z.eqb 2 y); repeat constructor; simpl; intuition discriminate.
  - intros x t. unfold hyp_of. cbn [find fst snd].
    destruct (Z.eqb 10 x); [simpl; intuition auto|].
    destruct (Z.eqb 1 x); [simpl; intuition auto|].
    destruct (Z.eqb 2 x); simpl; intuition auto.
  - vm_compute. repeat split; reflexivity.
Qed.

(* what IS invariant about shortest_path: whether there is one, and its length *)
Theorem shortest_path_length_eqv : forall hyp hyp' f f' a b sr r r', hyp_eqv hyp hyp' ->
    shortest_path hyp f a b sr = Some r -> shortest_path hyp' f' a b sr = Some r' ->
    orel (fun p p' : list node => length p = length p') r r'.
Proof.
  intros hyp hyp' f f' a b sr r r' E H H'. rewrite shortest_path_choice in H, H'.
  destruct (shortest_hyp_paths hyp f a b sr) as [pm|] eqn:Hpm; [|discriminate].
  destruct (shortest_hyp_paths hyp' f' a b sr) as [pm'|] eqn:Hpm'; [|discriminate].
  simpl in H, H'. inversion H; inversion H'; subst.
  pose proof (sp_choice_skel pm pm' (shortest_hyp_paths_skel hyp hyp' f f' a b sr pm pm' E Hpm Hpm'))
    as R.
  destruct (sp_choice pm) as [e|], (sp_choice pm') as [e'|]; simpl in R; try contradiction;
    simpl; auto.
  rewrite !length_tl. apply (f_equal snd) in R. simpl in R. rewrite R. reflexivity.
Qed.

Theorem shortest_path_length_eqv_fuel : forall hyp hyp' f a b sr, hyp_eqv hyp hyp' ->
    orel (orel (fun p p' : list node => length p = length p'))
         (shortest_path hyp f a b sr) (shortest_path hyp' f a b sr).
Proof.
  intros hyp hyp' f a b sr E. rewrite !shortest_path_choice.
  pose proof (shortest_hyp_paths_rel hyp hyp' f a b sr E) as R.
  destruct (shortest_hyp_paths hyp f a b sr) as [pm|],
           (shortest_hyp_paths hyp' f a b sr) as [pm'|]; simpl in R; try contradiction;
    simpl; auto.
  pose proof (sp_choice_skel pm pm' R) as R2.
  destruct (sp_choice pm) as [e|], (sp_choice pm') as [e'|]; simpl in R2; try contradiction;
    simpl; auto.
  rewrite !length_tl. apply (f_equal snd) in R2. simpl in R2. rewrite R2. reflexivity.
Qed.

(* ... and the entry of the path map it is read from has the same common hypernym c
   (the turning point of the path), the same depth of c and the same path length:
   [shortest_path] is [tl (snd e)] for the entry e chosen by [sp_choice] *)
Theorem shortest_path_choice_eqv : forall hyp hyp' f f' a b sr pm pm' e e', hyp_eqv hyp hyp' ->
    shortest_hyp_paths hyp f a b sr = Some pm -> shortest_hyp_paths hyp' f' a b sr = Some pm' ->
    sp_choice pm = Some e -> sp_choice pm' = Some e' ->
    shortest_path hyp f a b sr = Some (Some (tl (snd e)))
    /\ shortest_path hyp' f' a b sr = Some (Some (tl (snd e')))
    /\ fst (fst e) = fst (fst e') /\ snd (fst e) = snd (fst e')
    /\ length (snd e) = length (snd e').
Proof.
  intros hyp hyp' f f' a b sr pm pm' e e' E Hpm Hpm' He He'.
  rewrite !shortest_path_choice, Hpm, Hpm'. simpl. rewrite He, He'. simpl.
  split; auto. split; auto.
  pose proof (sp_choice_skel pm pm' (shortest_hyp_paths_skel hyp hyp' f f' a b sr pm pm' E Hpm Hpm'))
    as R.
  rewrite He, He' in R. simpl in R. unfold skel in R. injection R as R1 R2.
  rewrite R1, R2. auto.
Qed.

(* geometrically, without the simulated root: both versions of the shortest path
   climb from a along a shortest chain to the SAME common hypernym c and descend
   along a reversed shortest chain from b; only the choice among the shortest
   chains a -> c and b -> c can differ *)
Theorem shortest_path_turning_point : forall hyp hyp' V f f' a b p p', hyp_eqv hyp hyp' ->
    graph_ok hyp V -> In a V -> In b V ->
    shortest_path hyp f a b false = Some (Some p) ->
    shortest_path hyp' f' a b false = Some (Some p') ->
    exists c ua ub ua' ub',
      p = ua ++ tl (rev (b :: ub)) /\ p' = ua' ++ tl (rev (b :: ub'))
      /\ chain hyp a ua /\ last ua a = c /\ chain hyp a ua' /\ last ua' a = c
      /\ chain hyp b ub /\ last ub b = c /\ chain hyp b ub' /\ last ub' b = c
      /\ is_dist hyp a c (length ua) /\ length ua' = length ua
      /\ is_dist hyp b c (length ub) /\ length ub' = length ub.
Proof.
  intros hyp hyp' V f f' a b p p' E HG Ha Hb H H'.
  pose proof (hyp_eqv_sym _ _ E) as E'.
  destruct (Z.eq_dec a b) as [Hab|Hab].
  - subst b. unfold shortest_path in H, H'. rewrite shp_eq in H, H'. simpl in H, H'.
    inversion H; inversion H'; subst.
    exists a, [], [], [], []. simpl.
    do 2 (split; [reflexivity|]).
    do 4 (split; [constructor|]; split; [reflexivity|]).
    split; [apply is_dist_self|]. split; [reflexivity|]. split; [apply is_dist_self|reflexivity].
  - rewrite shortest_path_choice in H, H'.
    destruct (shortest_hyp_paths hyp f a b false) as [pm|] eqn:Hpm; [|discriminate].
    destruct (shortest_hyp_paths hyp' f' a b false) as [pm'|] eqn:Hpm'; [|discriminate].
    simpl in H, H'.
    destruct (sp_choice pm) as [e|] eqn:He; [|discriminate].
    destruct (sp_choice pm') as [e'|] eqn:He'; [|discriminate].
    simpl in H, H'. inversion H; inversion H'; subst. clear H H'.
    destruct (shortest_path_choice_eqv hyp hyp' f f' a b false pm pm' e e' E Hpm Hpm' He He')
      as (_ & _ & Hc & _ & _).
    destruct (sp_choice_decomp hyp V f a b pm e HG Ha Hb Hab Hpm He)
      as (ua & ub & Hs & Hua & Hla & Hda & Hub & Hlb & Hdb).
    destruct (sp_choice_decomp hyp' V f' a b pm' e' (graph_ok_eqv hyp hyp' V E HG) Ha Hb Hab Hpm' He')
      as (ua' & ub' & Hs' & Hua' & Hla' & Hda' & Hub' & Hlb' & Hdb').
    rewrite <- Hc in Hla', Hda', Hlb', Hdb'.
    apply (is_dist_eqv hyp' hyp _ _ _ E') in Hda'. apply (is_dist_eqv hyp' hyp _ _ _ E') in Hdb'.
    apply (chain_eqv hyp' hyp _ _ E') in Hua'. apply (chain_eqv hyp' hyp _ _ E') in Hub'.
    exists (fst (fst e)), ua, ub, ua', ub'.
    rewrite Hs, Hs'. simpl.
    repeat (split; [assumption || reflexivity|]).
    split; [apply (dist_unique hyp _ _ _ _ Hda' Hda)|].
    split; [assumption|]. apply (dist_unique hyp _ _ _ _ Hdb' Hdb).
Qed.

(* when is the path itself equal?  Certainly when the two successor functions list
   the hypernyms in the same order (stated pointwise: no functional extensionality),
   e.g. under single inheritance, where a set of hypernyms has only one listing *)
Lemma paths_from_ext : forall hyp hyp', (forall x, hyp x = hyp' x) -> forall f vis x,
    paths_from hyp f vis x = paths_from hyp' f vis x.
Proof.
  intros hyp hyp' H f. induction f as [|f IH]; intros vis x; [reflexivity|].
  rewrite !paths_from_S. rewrite <- (H x).
  destruct (filter (fun t => negb (nmem t vis)) (hyp x)) as [|a l]; [reflexivity|].
  unfold step. f_equal. f_equal. apply map_ext. intros t. rewrite IH. reflexivity.
Qed.

Lemma hypernym_paths_gen_ext : forall hyp hyp', (forall x, hyp x = hyp' x) -> forall f x sr self,
    hypernym_paths_gen hyp f x sr self = hypernym_paths_gen hyp' f x sr self.
Proof.
  intros hyp hyp' H f x sr self. unfold hypernym_paths_gen.
  replace (relation_paths hyp' f x) with (relation_paths hyp f x); [reflexivity|].
  rewrite !relation_paths_step. rewrite <- (H x). unfold step. f_equal. f_equal.
  apply map_ext. intros t. rewrite (paths_from_ext hyp hyp' H). reflexivity.
Qed.

Theorem shortest_path_ext : forall hyp hyp' f a b sr, (forall x, hyp x = hyp' x) ->
    shortest_path hyp f a b sr = shortest_path hyp' f a b sr.
Proof.
  intros hyp hyp' f a b sr H. unfold shortest_path, shortest_hyp_paths.
  rewrite !(hypernym_paths_gen_ext hyp hyp' H). reflexivity.
Qed.

Theorem shortest_path_eqv_single_inheritance : forall hyp hyp' f a b sr, hyp_eqv hyp hyp' ->
    (forall x, length (hyp x) <= 1) -> (forall x, length (hyp' x) <= 1) ->
    shortest_path hyp f a b sr = shortest_path hyp' f a b sr.
Proof.
  intros hyp hyp' f a b sr E L L'. apply shortest_path_ext. intros x.
  pose proof (E x) as Hs. fold (seteq (hyp x) (hyp' x)) in Hs.
  specialize (L x). specialize (L' x).
  destruct (hyp x) as [|t [|t2 l]]; simpl in L; [| |lia].
  - symmetry. apply seteq_nil_l. exact Hs.
  - destruct (hyp' x) as [|t' [|t2' l']]; simpl in L'; [| |lia].
    + apply seteq_nil_r in Hs. discriminate.
    + destruct (Hs t) as [Ht _]. destruct Ht as [Ht|[]]; [left; reflexivity|]. subst t'. reflexivity.
Qed.

(* ---------- (I5) taxonomy_depth ---------- *)

(* invariant on every graph, cyclic or not *)
Theorem taxonomy_depth_eqv : forall hyp hyp' f f' syn d d', hyp_eqv hyp hyp' ->
    taxonomy_depth hyp f syn = Some d -> taxonomy_depth hyp' f' syn = Some d' -> d = d'.
Proof.
  intros hyp hyp' f f' syn d d' E H H'. unfold taxonomy_depth in H, H'.
  apply (taxonomy_depth_loop_eqv2 hyp hyp' f f' E syn [] [] 0 d d' (seteq_refl _ _) H H').
Qed.

Theorem taxonomy_depth_eqv_fuel : forall hyp hyp' f syn, hyp_eqv hyp hyp' ->
    taxonomy_depth hyp f syn = taxonomy_depth hyp' f syn.
Proof.
  intros hyp hyp' f syn E. unfold taxonomy_depth.
  apply (taxonomy_depth_loop_rel hyp hyp' f E syn [] [] 0 (seteq_refl _ _)).
Qed.

(* the statement asked for: on acyclic graphs both values are the length of the
   longest hypernym chain from a synset of the list — for either successor function *)
Theorem taxonomy_depth_eqv_acyclic : forall hyp hyp' V f f' syn d d', hyp_eqv hyp hyp' ->
    graph_ok hyp V -> incl syn V -> acyclic hyp ->
    taxonomy_depth hyp f syn = Some d -> taxonomy_depth hyp' f' syn = Some d' ->
    d = d'
    /\ (forall x p, In x syn -> maximal_simple hyp x p -> length p <= d)
    /\ (forall x p, In x syn -> maximal_simple hyp' x p -> length p <= d)
    /\ (d = 0 \/ exists x p, In x syn /\ maximal_simple hyp x p /\ maximal_simple hyp' x p
                             /\ length p = d).
Proof.
  intros hyp hyp' V f f' syn d d' E HG Hincl Hac H H'.
  destruct (taxonomy_depth_acyclic hyp V f syn d HG Hincl Hac H) as [Hall Hatt].
  split; [apply (taxonomy_depth_eqv hyp hyp' f f' syn d d' E H H')|].
  split; [exact Hall|]. split.
  - intros x p Hx HM. apply (Hall x p Hx). apply (maximal_simple_eqv hyp hyp' x p E). exact HM.
  - destruct Hatt as [H0|(x & p & Hx & HM & Hl)]; [left; exact H0|].
    right. exists x, p. split; auto. split; auto. split; auto.
    apply (maximal_simple_eqv hyp hyp' x p E). exact HM.
Qed.

(* finding F12 (Properties/C13.v, C13_taxonomy_depth_refuted): on a CYCLIC graph the
   value depends on the order of the synset list — same graph, same set of synsets *)
Example taxonomy_depth_synset_order_cyclic :
  let hyp := hyp_of [(1, [2; 3]); (2, [1]); (3, [4]); (5, [2])]%Z in
  taxonomy_depth hyp 10 [1; 2; 3; 4; 5]%Z = Some 3
  /\ taxonomy_depth hyp 10 [5; 1; 2; 3; 4]%Z = Some 4.
Proof. vm_compute. split; reflexivity. Qed.

(* ---------- (I6) roots ---------- *)

Theorem roots_eqv : forall hyp hyp' syn, hyp_eqv hyp hyp' -> roots hyp syn = roots hyp' syn.
Proof. exact roots_seteq. Qed.

(* ---------- everything at once on a finite closed graph, fuel of run_taxonomy ---------- *)

Theorem taxonomy_order_independent : forall hyp hyp' V a b sr syn, hyp_eqv hyp hyp' ->
    closed hyp V -> In a V -> In b V ->
    let F := S (S (length V)) in
    (exists ps ps', hypernym_paths hyp F a sr = Some ps /\ hypernym_paths hyp' F a sr = Some ps'
                    /\ (forall p, In p ps <-> In p ps')
                    /\ ((forall y, NoDup (hyp y)) -> (forall y, NoDup (hyp' y)) -> Permutation ps ps'))
    /\ min_depth hyp F a sr = min_depth hyp' F a sr /\ min_depth hyp F a sr <> None
    /\ max_depth hyp F a sr = max_depth hyp' F a sr /\ max_depth hyp F a sr <> None
    /\ common_hypernyms hyp F a b sr = common_hypernyms hyp' F a b sr
    /\ common_hypernyms hyp F a b sr <> None
    /\ shortest_path_len hyp F a b sr = shortest_path_len hyp' F a b sr
    /\ shortest_path_len hyp F a b sr <> None
    /\ lowest_common_hypernyms hyp F a b sr = lowest_common_hypernyms hyp' F a b sr
    /\ lowest_common_hypernyms hyp F a b sr <> None
    /\ orel (orel (fun p p' : list node => length p = length p'))
            (shortest_path hyp F a b sr) (shortest_path hyp' F a b sr)
    /\ shortest_path hyp F a b sr <> None
    /\ taxonomy_depth hyp F syn = taxonomy_depth hyp' F syn
    /\ roots hyp syn = roots hyp' syn.
Proof.
  intros hyp hyp' V a b sr syn E HV Ha Hb F.
  pose proof (closed_eqv hyp hyp' V E HV) as HV'.
  destruct (taxonomy_functions_terminate hyp V a b sr HV Ha Hb) as (T1 & T2 & T3 & T4).
  pose proof (hypernym_paths_gen_terminates hyp V a sr false HV Ha) as Tp.
  pose proof (hypernym_paths_gen_terminates hyp' V a sr false HV' Ha) as Tp'.
  fold F in T1, T2, T3, T4, Tp, Tp'.
  split.
  { unfold hypernym_paths.
    destruct (hypernym_paths_gen hyp F a sr false) as [ps|] eqn:H; [|contradiction].
    destruct (hypernym_paths_gen hyp' F a sr false) as [ps'|] eqn:H'; [|contradiction].
    exists ps, ps'. split; auto. split; auto. split.
    - apply (hypernym_paths_gen_seteq hyp hyp' F F a sr false ps ps' E H H').
    - intros N N'. apply (hypernym_paths_gen_perm hyp hyp' F F a sr false ps ps' E N N' H H'). }
  split; [apply min_depth_eqv_fuel; exact E|].
  split.
  { rewrite min_depth_unfold. destruct (hypernym_paths_gen hyp F a sr false); [discriminate|contradiction]. }
  split; [apply max_depth_eqv_fuel; exact E|].
  split.
  { rewrite max_depth_unfold. destruct (hypernym_paths_gen hyp F a sr false); [discriminate|contradiction]. }
  split; [apply common_hypernyms_eqv_fuel; exact E|]. split; [exact T1|].
  split; [apply shortest_path_len_eqv_fuel; exact E|]. split; [exact T2|].
  split; [apply lowest_common_hypernyms_eqv_fuel; exact E|]. split; [exact T4|].
  split; [apply shortest_path_length_eqv_fuel; exact E|]. split; [exact T3|].
  split; [apply taxonomy_depth_eqv_fuel; exact E|].
  apply roots_eqv. exact E.
Qed.

Print Assumptions hypernym_paths_seteq.
Print Assumptions hypernym_paths_perm.
Print Assumptions hypernym_paths_gen_perm_all.
Print Assumptions hypernym_paths_defined_eqv.
Print Assumptions hypernym_paths_perm_closed.
Print Assumptions hypernym_paths_perm_needs_NoDup.
Print Assumptions min_depth_eqv.
Print Assumptions max_depth_eqv.
Print Assumptions min_depth_eqv_fuel.
Print Assumptions max_depth_eqv_fuel.
Print Assumptions common_hypernyms_eqv.
Print Assumptions common_hypernyms_eqv_fuel.
Print Assumptions shortest_path_len_eqv.
Print Assumptions shortest_path_len_eqv_fuel.
Print Assumptions lowest_common_hypernyms_eqv.
Print Assumptions lowest_common_hypernyms_eqv_fuel.
Print Assumptions shortest_path_not_invariant.
Print Assumptions shortest_path_length_eqv.
Print Assumptions shortest_path_length_eqv_fuel.
Print Assumptions shortest_path_choice_eqv.
Print Assumptions shortest_path_turning_point.
Print Assumptions shortest_path_ext.
Print Assumptions shortest_path_eqv_single_inheritance.
Print Assumptions taxonomy_depth_eqv.
Print Assumptions taxonomy_depth_eqv_fuel.
Print Assumptions taxonomy_depth_eqv_acyclic.
Print Assumptions taxonomy_depth_synset_order_cyclic.
Print Assumptions roots_eqv.
Print Assumptions taxonomy_order_independent.
