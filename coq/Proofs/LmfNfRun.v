(* Proofs/LmfNfRun.v — executable form of the hypothesis of the round-trip theorems, for the correspondence check:
   the harness sends resources that the real wn.lmf.load returned for files the real wn.lmf.dump wrote, and this function
   says whether they are in the normal form [nf_resource] the theorems of Proofs/LmfRoundTrip.v are stated for.
   L [Sz version; val resource] -> A 1 (in normal form) | A 0 *)
From Coq Require Import String.
From Coq Require Import ZArith List Bool.
Import ListNotations.
Require Import WnV.Base.Sx WnV.Model.Val WnV.Model.XmlText WnV.Model.Lmf WnV.Proofs.LmfRoundTrip.
Local Open Scope Z_scope.

Definition run_nf (x : sx) : sx :=
  let version := sx_str (sx_nth 0 x) in
  A (if supported version && nf_resource version (val_of_sx (sx_nth 1 x)) then 1 else 0).
