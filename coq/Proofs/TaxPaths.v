(* Proofs/TaxPaths.v — what the path enumerations of Model/Taxonomy.v compute:
   paths_from / relation_paths / hypernym_paths enumerate exactly the maximal
   simple hypernym chains, terminate with fuel > |V|, list no path twice, do not
   depend on the fuel, and min/max depth are the extreme path lengths. *)
From Coq Require Import ZArith List Bool Lia.
Import ListNotations.
Require Import WnV.Base.Sx WnV.Model.Taxonomy WnV.Proofs.TaxSpec.

(* ---------- generic helpers ---------- *)

Lemma nmem_In : forall t vis, nmem t vis = true <-> In t vis.
Proof.
  intros t vis. unfold nmem. rewrite existsb_exists. split.
  - intros [y [Hy He]]. apply Z.eqb_eq in He. subst; auto.
  - intros H. exists t. split; auto. apply Z.eqb_refl.
Qed.

Lemma unvisited_In : forall vis l t,
    In t (filter (fun t => negb (nmem t vis)) l) <-> In t l /\ ~ In t vis.
Proof.
  intros vis l t. rewrite filter_In. split.
  - intros [H1 H2]. split; auto. intros H3. apply nmem_In in H3.
    rewrite H3 in H2. discriminate.
  - intros [H1 H2]. split; auto. destruct (nmem t vis) eqn:Hm; auto.
    exfalso. apply H2. apply nmem_In. auto.
Qed.

Lemma other_In : forall x l t,
    In t (filter (fun t => negb (Z.eqb t x)) l) <-> In t l /\ t <> x.
Proof.
  intros x l t. rewrite filter_In. split.
  - intros [H1 H2]. split; auto. intros H3. apply Z.eqb_eq in H3.
    rewrite H3 in H2. discriminate.
  - intros [H1 H2]. split; auto. apply Z.eqb_neq in H2. rewrite H2. reflexivity.
Qed.

Lemma sequence_Some : forall T (l : list (option T)) r,
    sequence l = Some r <-> l = map Some r.
Proof.
  intros T l. induction l as [|o l IH]; intros r; simpl.
  - split.
    + intros H. inversion H. reflexivity.
    + intros H. destruct r as [|a r]; [reflexivity|discriminate].
  - destruct o as [a|].
    + destruct (sequence l) as [r'|] eqn:Hs.
      * split.
        -- intros H. inversion H. simpl. f_equal. apply IH. reflexivity.
        -- intros H. destruct r as [|b r]; [discriminate|]. simpl in H.
           inversion H. subst. f_equal. f_equal.
           assert (Some r' = Some r) as He by (apply IH; reflexivity).
           inversion He. reflexivity.
      * split; [discriminate|].
        intros H. destruct r as [|b r]; [discriminate|]. simpl in H.
        inversion H. subst.
        assert (None = Some r) as He by (apply IH; reflexivity). discriminate.
    + split; [discriminate|]. intros H. destruct r; discriminate.
Qed.

Lemma last_cons : forall (p : list node) t x, last (t :: p) x = last p t.
Proof.
  intros p. induction p as [|b p IH]; intros t x.
  - reflexivity.
  - change (last (t :: b :: p) x) with (last (b :: p) x).
    rewrite (IH b x). rewrite (IH b t). reflexivity.
Qed.

Lemma NoDup_app_intro : forall T (l1 l2 : list T),
    NoDup l1 -> NoDup l2 -> (forall a, In a l1 -> ~ In a l2) -> NoDup (l1 ++ l2).
Proof.
  intros T l1 l2 H1 H2 H. induction l1 as [|a l1 IH]; simpl; auto.
  inversion H1 as [|a' l' Ha Hl]; subst. constructor.
  - rewrite in_app_iff. intros [Hin|Hin]; [contradiction|].
    apply (H a); simpl; auto.
  - apply IH; auto. intros b Hb. apply H. simpl; auto.
Qed.

Lemma NoDup_map_cons : forall T (a : T) (l : list (list T)),
    NoDup l -> NoDup (map (cons a) l).
Proof.
  intros T a l H. induction H as [|q l Hq Hl IH]; simpl; constructor; auto.
  rewrite in_map_iff. intros [q' [He Hin]]. inversion He; subst. contradiction.
Qed.

(* one level of the enumeration: for every t of l, the paths g t, each prefixed by t *)
Definition step (g : node -> option (list (list node))) (l : list node)
  : option (list (list node)) :=
  option_map (@concat _) (sequence (map (fun t => option_map (map (cons t)) (g t)) l)).

Lemma step_cons_inv : forall g a l ps,
    step g (a :: l) = Some ps ->
    exists qa r, g a = Some qa /\ step g l = Some r /\ ps = map (cons a) qa ++ r.
Proof.
  intros g a l ps. unfold step. simpl.
  destruct (g a) as [qa|]; simpl; [|discriminate].
  destruct (sequence (map (fun t => option_map (map (cons t)) (g t)) l)) as [rr|];
    simpl; [|discriminate].
  intros H. inversion H. exists qa, (concat rr). auto.
Qed.

Lemma step_cons : forall g a l qa r,
    g a = Some qa -> step g l = Some r ->
    step g (a :: l) = Some (map (cons a) qa ++ r).
Proof.
  intros g a l qa r Ha. unfold step. simpl. rewrite Ha. simpl.
  destruct (sequence (map (fun t => option_map (map (cons t)) (g t)) l)) as [rr|];
    simpl; [|discriminate].
  intros H. inversion H. reflexivity.
Qed.

Lemma step_Some_inv : forall g l ps t,
    step g l = Some ps -> In t l -> exists qs, g t = Some qs.
Proof.
  intros g l. induction l as [|a l IH]; intros ps t H Hin.
  - destruct Hin.
  - apply step_cons_inv in H. destruct H as (qa & r & Ha & Hr & _).
    destruct Hin as [<-|Hin]; eauto.
Qed.

Lemma step_In : forall g l ps, step g l = Some ps ->
    forall p, In p ps <->
              exists t qs p', In t l /\ g t = Some qs /\ In p' qs /\ p = t :: p'.
Proof.
  intros g l. induction l as [|a l IH]; intros ps H p.
  - unfold step in H. simpl in H. inversion H. split.
    + intros [].
    + intros (t & qs & p' & [] & _).
  - apply step_cons_inv in H. destruct H as (qa & r & Ha & Hr & ->).
    rewrite in_app_iff, in_map_iff, (IH r Hr p). split.
    + intros [(p' & <- & Hp')|(t & qs & p' & Ht & Hg & Hp' & ->)].
      * exists a, qa, p'. simpl; auto.
      * exists t, qs, p'. simpl; auto.
    + intros (t & qs & p' & [<-|Ht] & Hg & Hp' & ->).
      * left. exists p'. rewrite Hg in Ha. inversion Ha; subst. auto.
      * right. exists t, qs, p'. auto.
Qed.

Lemma step_not_None : forall g l,
    (forall t, In t l -> g t <> None) -> step g l <> None.
Proof.
  intros g l. induction l as [|a l IH]; intros H.
  - discriminate.
  - destruct (g a) as [qa|] eqn:Ha.
    + destruct (step g l) as [r|] eqn:Hr.
      * rewrite (step_cons g a l qa r Ha Hr). discriminate.
      * exfalso. apply IH; auto. intros t Ht. apply H. simpl; auto.
    + exfalso. apply (H a); simpl; auto.
Qed.

Lemma step_det : forall g1 g2 l ps1 ps2,
    (forall t qs1 qs2, In t l -> g1 t = Some qs1 -> g2 t = Some qs2 -> qs1 = qs2) ->
    step g1 l = Some ps1 -> step g2 l = Some ps2 -> ps1 = ps2.
Proof.
  intros g1 g2 l. induction l as [|a l IH]; intros ps1 ps2 H H1 H2.
  - unfold step in H1, H2. simpl in H1, H2. congruence.
  - apply step_cons_inv in H1. destruct H1 as (qa1 & r1 & Ha1 & Hr1 & ->).
    apply step_cons_inv in H2. destruct H2 as (qa2 & r2 & Ha2 & Hr2 & ->).
    f_equal.
    + f_equal. apply (H a); simpl; auto.
    + apply IH; auto. intros t qs1 qs2 Ht. apply H. simpl; auto.
Qed.

Lemma step_nonempty : forall g l ps,
    l <> [] -> (forall t qs, In t l -> g t = Some qs -> qs <> []) ->
    step g l = Some ps -> ps <> [].
Proof.
  intros g l ps Hl H Hs. destruct l as [|a l]; [contradiction|].
  apply step_cons_inv in Hs. destruct Hs as (qa & r & Ha & Hr & ->).
  assert (qa <> []) as Hqa by (apply (H a); simpl; auto).
  destruct qa as [|q qa]; [contradiction|]. simpl. discriminate.
Qed.

Lemma step_NoDup : forall g l ps,
    NoDup l -> (forall t qs, In t l -> g t = Some qs -> NoDup qs) ->
    step g l = Some ps -> NoDup ps.
Proof.
  intros g l. induction l as [|a l IH]; intros ps Hl H Hs.
  - unfold step in Hs. simpl in Hs. inversion Hs. constructor.
  - inversion Hl as [|a' l' Hal Hl']; subst.
    apply step_cons_inv in Hs. destruct Hs as (qa & r & Ha & Hr & ->).
    apply NoDup_app_intro.
    + apply NoDup_map_cons. apply (H a); simpl; auto.
    + apply IH; auto. intros t qs Ht. apply H. simpl; auto.
    + intros p Hp Hpr. apply in_map_iff in Hp. destruct Hp as (p' & <- & Hp').
      apply (step_In g l r Hr) in Hpr.
      destruct Hpr as (t & qs & p'' & Ht & _ & _ & He). inversion He; subst.
      contradiction.
Qed.

(* list_min / list_max *)
Lemma fold_min_spec : forall l a,
    In (fold_left Nat.min l a) (a :: l)
    /\ (forall b, In b (a :: l) -> fold_left Nat.min l a <= b).
Proof.
  intros l. induction l as [|c l IH]; intros a.
  - simpl. split; auto. intros b [<-|[]]. lia.
  - change (fold_left Nat.min (c :: l) a) with (fold_left Nat.min l (Nat.min a c)).
    destruct (IH (Nat.min a c)) as [Hin Hle]. split.
    + destruct Hin as [He|Hin].
      * rewrite <- He. destruct (Nat.min_dec a c) as [Hm|Hm]; rewrite Hm; simpl; auto.
      * simpl; auto.
    + assert (fold_left Nat.min l (Nat.min a c) <= Nat.min a c) as Hm
          by (apply Hle; simpl; auto).
      intros b [<-|[<-|Hb]]; try lia. apply Hle. simpl; auto.
Qed.

Lemma fold_max_spec : forall l a,
    (fold_left Nat.max l a = a \/ In (fold_left Nat.max l a) l)
    /\ a <= fold_left Nat.max l a
    /\ (forall b, In b l -> b <= fold_left Nat.max l a).
Proof.
  intros l. induction l as [|c l IH]; intros a.
  - simpl. split; auto. split; auto. intros b [].
  - change (fold_left Nat.max (c :: l) a) with (fold_left Nat.max l (Nat.max a c)).
    destruct (IH (Nat.max a c)) as (Hin & Hge & Hle). split; [|split].
    + destruct Hin as [He|Hin].
      * rewrite He. destruct (Nat.max_dec a c) as [Hm|Hm]; rewrite Hm; simpl; auto.
      * simpl; auto.
    + lia.
    + intros b [<-|Hb]; [lia|]. apply Hle; auto.
Qed.

Lemma list_min_spec : forall l, l <> [] ->
    In (list_min l) l /\ (forall b, In b l -> list_min l <= b).
Proof.
  intros l Hl. destruct l as [|a l]; [contradiction|]. unfold list_min.
  apply fold_min_spec.
Qed.

Lemma list_max_spec : forall l, l <> [] ->
    In (list_max l) l /\ (forall b, In b l -> b <= list_max l).
Proof.
  intros l Hl. unfold list_max.
  destruct (fold_max_spec l 0) as (Hin & _ & Hle). split; auto.
  destruct Hin as [He|Hin]; auto.
  destruct l as [|c l]; [contradiction|].
  assert (c <= fold_left Nat.max (c :: l) 0) as Hc by (apply Hle; simpl; auto).
  rewrite He in *. left. lia.
Qed.

Section TaxPaths.
  Variable hyp : node -> list node.

  Lemma paths_from_S : forall f vis x,
      paths_from hyp (S f) vis x =
      match filter (fun t => negb (nmem t vis)) (hyp x) with
      | [] => Some [[]]
      | related => step (fun t => paths_from hyp f (t :: vis) t) related
      end.
  Proof. reflexivity. Qed.

  Lemma relation_paths_step : forall fuel x,
      relation_paths hyp fuel x =
      step (fun t => paths_from hyp fuel [t; x] t)
           (rev (filter (fun t => negb (Z.eqb t x)) (hyp x))).
  Proof. reflexivity. Qed.

  (* helper lemmas on paths_from that do not need the specification *)
  Lemma paths_from_nonempty : forall fuel vis x ps,
      paths_from hyp fuel vis x = Some ps -> ps <> [].
  Proof.
    intros fuel. induction fuel as [|f IH]; intros vis x ps H.
    - discriminate.
    - rewrite paths_from_S in H.
      destruct (filter (fun t => negb (nmem t vis)) (hyp x)) as [|a l] eqn:Hf.
      + inversion H. discriminate.
      + refine (step_nonempty _ _ _ _ _ H).
        * discriminate.
        * intros t qs _ Hg. apply (IH _ _ _ Hg).
  Qed.

  Lemma relation_paths_empty : forall fuel x,
      relation_paths hyp fuel x = Some [] -> forall t, In t (hyp x) -> t = x.
  Proof.
    intros fuel x H t Ht. rewrite relation_paths_step in H.
    destruct (Z.eq_dec t x) as [He|Hne]; auto. exfalso.
    assert (In t (rev (filter (fun t => negb (Z.eqb t x)) (hyp x)))) as Hin
        by (apply in_rev; rewrite rev_involutive; apply other_In; auto).
    refine (step_nonempty _ _ _ _ _ H eq_refl).
    - intros He. rewrite He in Hin. destruct Hin.
    - intros t' qs _ Hg. apply (paths_from_nonempty _ _ _ _ Hg).
  Qed.

  Lemma paths_from_NoDup : forall fuel vis x ps,
      (forall y, NoDup (hyp y)) ->
      paths_from hyp fuel vis x = Some ps -> NoDup ps.
  Proof.
    intros fuel. induction fuel as [|f IH]; intros vis x ps Hh H.
    - discriminate.
    - rewrite paths_from_S in H.
      destruct (filter (fun t => negb (nmem t vis)) (hyp x)) as [|a l] eqn:Hf.
      + inversion H. constructor; [intros []|constructor].
      + refine (step_NoDup _ _ _ _ _ H).
        * rewrite <- Hf. apply NoDup_filter. apply Hh.
        * intros t qs _ Hg. apply (IH _ _ _ Hh Hg).
  Qed.

  Lemma paths_from_fuel_irrelevant : forall f1 f2 vis x ps1 ps2,
      paths_from hyp f1 vis x = Some ps1 -> paths_from hyp f2 vis x = Some ps2 ->
      ps1 = ps2.
  Proof.
    intros f1. induction f1 as [|f1 IH]; intros f2 vis x ps1 ps2 H1 H2.
    - discriminate.
    - destruct f2 as [|f2]; [discriminate|].
      rewrite paths_from_S in H1, H2.
      destruct (filter (fun t => negb (nmem t vis)) (hyp x)) as [|a l] eqn:Hf.
      + congruence.
      + refine (step_det _ _ _ _ _ _ H1 H2).
        intros t qs1 qs2 _ Hg1 Hg2. apply (IH _ _ _ _ _ Hg1 Hg2).
  Qed.

  (* ---------- the requested theorems ---------- *)

  (* 1 *)
  Theorem paths_from_spec : forall fuel vis x ps,
      paths_from hyp fuel vis x = Some ps ->
      forall p, In p ps <-> MaxSimple hyp vis x p.
  Proof.
    intros fuel. induction fuel as [|f IH]; intros vis x ps H p.
    - discriminate.
    - rewrite paths_from_S in H.
      destruct (filter (fun t => negb (nmem t vis)) (hyp x)) as [|a l] eqn:Hf.
      + inversion H; subst. split.
        * intros [<-|[]]. apply ms_end. intros t Ht.
          destruct (nmem t vis) eqn:Hm; [apply nmem_In; auto|].
          exfalso. assert (In t []) as Hin; [|destruct Hin].
          rewrite <- Hf. apply unvisited_In. split; auto.
          rewrite <- nmem_In. congruence.
        * intros HM. inversion HM as [vis' x' Hend|vis' x' t p' Ht Hnv HM']; subst.
          -- left; auto.
          -- exfalso. assert (In t []) as Hin; [|destruct Hin].
             rewrite <- Hf. apply unvisited_In. auto.
      + rewrite (step_In _ _ _ H p). split.
        * intros (t & qs & p' & Ht & Hg & Hp' & ->).
          rewrite <- Hf in Ht. apply unvisited_In in Ht. destruct Ht as [Ht Hnv].
          apply ms_step; auto. apply (IH _ _ _ Hg). auto.
        * intros HM. inversion HM as [vis' x' Hend|vis' x' t p' Ht Hnv HM']; subst.
          -- exfalso. assert (In a (a :: l)) as Ha by (simpl; auto).
             rewrite <- Hf in Ha. apply unvisited_In in Ha. destruct Ha as [Ha Hna].
             apply Hna. apply Hend. auto.
          -- assert (In t (a :: l)) as Hin
                 by (rewrite <- Hf; apply unvisited_In; auto).
             destruct (step_Some_inv _ _ _ t H Hin) as [qs Hg].
             exists t, qs, p'. repeat split; auto. apply (IH _ _ _ Hg). auto.
  Qed.

  (* 2 *)
  Theorem MaxSimple_iff : forall vis x p,
      MaxSimple hyp vis x p <->
      (chain hyp x p /\ NoDup p /\ (forall y, In y p -> ~ In y vis)
       /\ (forall t, In t (hyp (last p x)) -> In t (p ++ vis))).
  Proof.
    intros vis x p. split.
    - intros HM. induction HM as [vis x Hend|vis x t p Ht Hnv HM IH].
      + split; [constructor|]. split; [constructor|]. split.
        * intros y [].
        * simpl. auto.
      + destruct IH as (Hc & Hnd & Hv & Hl).
        split; [constructor; auto|]. split; [|split].
        * constructor; auto. intros Hin. apply (Hv t Hin). simpl; auto.
        * intros y [<-|Hy]; auto. intros Hin. apply (Hv y Hy). simpl; auto.
        * intros u Hu. rewrite last_cons in Hu. specialize (Hl u Hu).
          rewrite in_app_iff in Hl. simpl in Hl. simpl. rewrite in_app_iff. tauto.
    - revert vis x. induction p as [|t p IH]; intros vis x (Hc & Hnd & Hv & Hl).
      + apply ms_end. simpl in Hl. auto.
      + inversion Hc as [|x' t' p' Ht Hc']; subst.
        inversion Hnd as [|t' p' Htp Hnd']; subst.
        apply ms_step; auto.
        * apply Hv. simpl; auto.
        * apply IH. split; auto. split; auto. split.
          -- intros y Hy [<-|Hin]; [contradiction|].
             apply (Hv y); simpl; auto.
          -- intros u Hu. rewrite last_cons in Hl. specialize (Hl u Hu).
             simpl in Hl. rewrite in_app_iff in Hl. rewrite in_app_iff. simpl. tauto.
  Qed.

  Lemma MaxSimple_maximal_simple : forall x t p,
      In t (hyp x) -> t <> x ->
      (MaxSimple hyp [t; x] t p <-> maximal_simple hyp x (t :: p)).
  Proof.
    intros x t p Ht Hne. rewrite MaxSimple_iff. unfold maximal_simple. split.
    - intros (Hc & Hnd & Hv & Hl). split; [constructor; auto|]. split.
      + constructor.
        * intros [He|Hin]; [auto|]. apply (Hv x Hin). simpl; auto.
        * constructor; auto. intros Hin. apply (Hv t Hin). simpl; auto.
      + intros u Hu. rewrite last_cons in Hu. specialize (Hl u Hu).
        rewrite in_app_iff in Hl. simpl in Hl. simpl. tauto.
    - intros (Hc & Hnd & Hl).
      inversion Hc as [|x' t' p' _ Hc']; subst.
      inversion Hnd as [|x' l' Hx Hnd']; subst.
      inversion Hnd' as [|t' l' Htp Hnd'']; subst.
      split; auto. split; auto. split.
      + intros y Hy [<-|[<-|[]]].
        * contradiction.
        * apply Hx. simpl; auto.
      + intros u Hu. rewrite last_cons in Hl. specialize (Hl u Hu).
        rewrite in_app_iff. simpl in Hl. simpl. tauto.
  Qed.

  (* 3 *)
  Theorem relation_paths_spec : forall fuel x ps,
      relation_paths hyp fuel x = Some ps ->
      forall p, In p ps <-> (p <> [] /\ maximal_simple hyp x p).
  Proof.
    intros fuel x ps H p. rewrite relation_paths_step in H.
    rewrite (step_In _ _ _ H p). split.
    - intros (t & qs & p' & Ht & Hg & Hp' & ->).
      apply in_rev in Ht. apply other_In in Ht. destruct Ht as [Ht Hne].
      split; [discriminate|]. apply MaxSimple_maximal_simple; auto.
      apply (paths_from_spec _ _ _ _ Hg). auto.
    - intros [Hne HM]. destruct p as [|t p']; [contradiction|].
      assert (In t (hyp x) /\ t <> x) as [Ht Htx].
      { destruct HM as (Hc & Hnd & _).
        inversion Hc as [|x' t' p'' Ht _]; subst.
        inversion Hnd as [|x' l' Hx _]; subst.
        split; auto. intros ->. apply Hx. simpl; auto. }
      assert (In t (rev (filter (fun t => negb (Z.eqb t x)) (hyp x)))) as Hin
          by (apply in_rev; rewrite rev_involutive; apply other_In; auto).
      destruct (step_Some_inv _ _ _ t H Hin) as [qs Hg].
      exists t, qs, p'. repeat split; auto.
      apply (paths_from_spec _ _ _ _ Hg).
      apply MaxSimple_maximal_simple; auto.
  Qed.

  (* 4 *)
  Theorem hypernym_paths_self_spec : forall fuel x ps, x <> root ->
      hypernym_paths_gen hyp fuel x false true = Some ps ->
      forall q, In q ps <-> exists p, q = x :: p /\ maximal_simple hyp x p.
  Proof.
    intros fuel x ps Hx H q. unfold hypernym_paths_gen in H.
    apply Z.eqb_neq in Hx. rewrite Hx in H.
    destruct (relation_paths hyp fuel x) as [paths|] eqn:Hr; [|discriminate].
    simpl in H. inversion H; subst. clear H.
    destruct paths as [|p0 paths'].
    - split.
      + intros [<-|[]]. exists []. split; auto.
        split; [constructor|]. split.
        * constructor; [intros []|constructor].
        * simpl. intros t Ht. left. symmetry.
          apply (relation_paths_empty _ _ Hr t Ht).
      + intros (p & -> & HM). destruct p as [|t p'].
        * left; auto.
        * exfalso. apply (relation_paths_spec _ _ _ Hr (t :: p')).
          split; [discriminate|auto].
    - rewrite in_map_iff. split.
      + intros (p & <- & Hp). exists p. split; auto.
        apply (relation_paths_spec _ _ _ Hr p). auto.
      + intros (p & -> & HM). exists p. split; auto.
        apply (relation_paths_spec _ _ _ Hr p). split; auto.
        intros ->.
        assert (In p0 (p0 :: paths')) as H0 by (simpl; auto).
        apply (relation_paths_spec _ _ _ Hr p0) in H0.
        destruct H0 as [Hne (Hc & Hnd & _)].
        destruct p0 as [|t p0']; [contradiction|].
        inversion Hc as [|x' t' p'' Ht _]; subst.
        inversion Hnd as [|x' l' Hxin _]; subst.
        destruct HM as (_ & _ & Hl). simpl in Hl.
        destruct (Hl t Ht) as [He|[]]. subst. apply Hxin. simpl; auto.
  Qed.

  (* 5 *)
  Theorem paths_from_terminates : forall V fuel vis x,
      closed hyp V -> NoDup vis -> incl vis V ->
      length V < fuel + length vis ->
      paths_from hyp fuel vis x <> None.
  Proof.
    intros V fuel. induction fuel as [|f IH]; intros vis x HV Hnd Hincl Hlen.
    - exfalso. pose proof (NoDup_incl_length Hnd Hincl) as Hle. simpl in Hlen. lia.
    - rewrite paths_from_S.
      destruct (filter (fun t => negb (nmem t vis)) (hyp x)) as [|a l] eqn:Hf.
      + discriminate.
      + apply step_not_None. intros t Ht. rewrite <- Hf in Ht.
        apply unvisited_In in Ht. destruct Ht as [Ht Hnv].
        apply IH; auto.
        * constructor; auto.
        * intros y [<-|Hy]; [apply (HV x); auto|apply Hincl; auto].
        * simpl. lia.
  Qed.

  Theorem relation_paths_terminates : forall V x,
      closed hyp V -> In x V ->
      relation_paths hyp (S (S (length V))) x <> None.
  Proof.
    intros V x HV Hx. rewrite relation_paths_step.
    apply step_not_None. intros t Ht. apply in_rev in Ht. apply other_In in Ht.
    destruct Ht as [Ht Hne]. apply (paths_from_terminates V); auto.
    - constructor; [intros [He|[]]; auto|]. constructor; [intros []|constructor].
    - intros y [<-|[<-|[]]]; auto. apply (HV x); auto.
    - simpl. lia.
  Qed.

  Theorem hypernym_paths_gen_terminates : forall V x sr self,
      closed hyp V -> In x V ->
      hypernym_paths_gen hyp (S (S (length V))) x sr self <> None.
  Proof.
    intros V x sr self HV Hx. unfold hypernym_paths_gen.
    destruct (Z.eqb x root).
    - discriminate.
    - pose proof (relation_paths_terminates V x HV Hx) as Hr.
      destruct (relation_paths hyp (S (S (length V))) x); [discriminate|].
      contradiction.
  Qed.

  (* 6 *)
  Theorem relation_paths_NoDup : forall fuel x ps,
      (forall y, NoDup (hyp y)) ->
      relation_paths hyp fuel x = Some ps -> NoDup ps.
  Proof.
    intros fuel x ps Hh H. rewrite relation_paths_step in H.
    refine (step_NoDup _ _ _ _ _ H).
    - apply NoDup_rev. apply NoDup_filter. apply Hh.
    - intros t qs _ Hg. apply (paths_from_NoDup _ _ _ _ Hh Hg).
  Qed.

  (* 7 *)
  Theorem relation_paths_fuel_irrelevant : forall f1 f2 x ps1 ps2,
      relation_paths hyp f1 x = Some ps1 -> relation_paths hyp f2 x = Some ps2 ->
      ps1 = ps2.
  Proof.
    intros f1 f2 x ps1 ps2 H1 H2. rewrite relation_paths_step in H1, H2.
    refine (step_det _ _ _ _ _ _ H1 H2).
    intros t qs1 qs2 _ Hg1 Hg2.
    apply (paths_from_fuel_irrelevant _ _ _ _ _ _ Hg1 Hg2).
  Qed.

  (* 8 *)
  Theorem min_depth_spec : forall fuel x ps m,
      hypernym_paths hyp fuel x false = Some ps -> min_depth hyp fuel x false = Some m ->
      (ps = [] -> m = 0)
      /\ (ps <> [] -> (exists p, In p ps /\ length p = m)
                      /\ (forall p, In p ps -> m <= length p)).
  Proof.
    intros fuel x ps m Hp Hm. unfold min_depth in Hm. rewrite Hp in Hm.
    simpl in Hm. inversion Hm; subst. clear Hm. split.
    - intros ->. reflexivity.
    - intros Hne.
      assert (map (@length node) ps <> []) as Hne'
          by (destruct ps; [contradiction|discriminate]).
      destruct (list_min_spec _ Hne') as [Hin Hle]. split.
      + apply in_map_iff in Hin. destruct Hin as (p & He & Hin). exists p. auto.
      + intros p Hpin. apply Hle. apply in_map. auto.
  Qed.

  Theorem max_depth_spec : forall fuel x ps m,
      hypernym_paths hyp fuel x false = Some ps -> max_depth hyp fuel x false = Some m ->
      (ps = [] -> m = 0)
      /\ (ps <> [] -> (exists p, In p ps /\ length p = m)
                      /\ (forall p, In p ps -> length p <= m)).
  Proof.
    intros fuel x ps m Hp Hm. unfold max_depth in Hm. rewrite Hp in Hm.
    simpl in Hm. inversion Hm; subst. clear Hm. split.
    - intros ->. reflexivity.
    - intros Hne.
      assert (map (@length node) ps <> []) as Hne'
          by (destruct ps; [contradiction|discriminate]).
      destruct (list_max_spec _ Hne') as [Hin Hle]. split.
      + apply in_map_iff in Hin. destruct Hin as (p & He & Hin). exists p. auto.
      + intros p Hpin. apply Hle. apply in_map. auto.
  Qed.

  (* 9 *)
  Theorem hypernym_paths_root_spec : forall fuel x ps, x <> root ->
      hypernym_paths hyp fuel x false = Some ps ->
      hypernym_paths hyp fuel x true =
        Some (match ps with [] => [[root]] | _ => map (fun p => p ++ [root]) ps end).
  Proof.
    intros fuel x ps Hx H. unfold hypernym_paths, hypernym_paths_gen in *.
    apply Z.eqb_neq in Hx. rewrite Hx in *.
    destruct (relation_paths hyp fuel x) as [paths|]; [|discriminate].
    simpl in *. inversion H; subst. reflexivity.
  Qed.
End TaxPaths.

Print Assumptions paths_from_spec.
Print Assumptions MaxSimple_iff.
Print Assumptions relation_paths_spec.
Print Assumptions hypernym_paths_self_spec.
Print Assumptions paths_from_terminates.
Print Assumptions relation_paths_terminates.
Print Assumptions hypernym_paths_gen_terminates.
Print Assumptions relation_paths_NoDup.
Print Assumptions relation_paths_fuel_irrelevant.
Print Assumptions min_depth_spec.
Print Assumptions max_depth_spec.
Print Assumptions hypernym_paths_root_spec.
