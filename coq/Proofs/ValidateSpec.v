(* Proofs/ValidateSpec.v — the documented condition of each validation check, written
   declaratively (no Counter, no dictionaries), in which C18's exactness theorems are stated. *)
From Coq Require Import String.
From Coq Require Import ZArith List Bool.
Import ListNotations.
Require Import WnV.Base.Sx WnV.Gen.Constants WnV.Gen.ValidateTable WnV.Model.Validate.
Local Open Scope Z_scope.

Definition keys (it : items) : list sx := map fst it.
(* number of occurrences *)
Definition occ (k : sx) (l : list sx) : nat := length (filter (sx_eqb k) l).

(* every place an identifier is declared: the lexicon, forms and frames with an id, entries, senses, synsets *)
Definition all_ids (lex : lexicon) : list sx :=
  [K (l_id lex)]
  ++ map K (filter truthy (flat_map e_form_ids (l_entries lex)))
  ++ map K (filter truthy (l_frame_ids lex))
  ++ map (fun e => K (e_id e)) (l_entries lex)
  ++ map (fun es => K (s_id (snd es))) (all_senses lex)
  ++ map (fun ss => K (ss_id ss)) (l_synsets lex).

Definition is_sense_id (lex : lexicon) (x : str) : Prop :=
  exists e s, In (e, s) (all_senses lex) /\ s_id s = x.
Definition is_synset_id (lex : lexicon) (x : str) : Prop :=
  exists ss, In ss (l_synsets lex) /\ ss_id ss = x.

(* the (source, type, target) triples W404 looks at: sense relations between senses, all synset relations *)
Definition regular (lex : lexicon) (a t b : str) : Prop :=
  (exists s r, In (s, r) (sense_relations lex) /\ s_id s = a /\ r_type r = t /\ r_target r = b
               /\ is_sense_id lex b)
  \/ (exists ss r, In (ss, r) (synset_relations lex) /\ ss_id ss = a /\ r_type r = t /\ r_target r = b).

(* all (source, type, target, dc:type) keys of W403, sense relations first *)
Definition all_rel_keys (lex : lexicon) : list sx :=
  map (fun sr => rel_key (s_id (fst sr)) (snd sr)) (sense_relations lex)
  ++ map (fun sr => rel_key (ss_id (fst sr)) (snd sr)) (synset_relations lex).
