(* Proofs/AddRemove.v — adding a lexicon and removing it again restores the content tables
   (property C05). *)
From Coq Require Import ZArith List Bool Lia.
Import ListNotations.
Require Import WnV.Base.Sx WnV.Gen.Schema WnV.Gen.Constants WnV.Model.Spec WnV.Model.Val.
Require Import WnV.Model.Rel WnV.Model.Add.
Require Import WnV.Proofs.AddProofs WnV.Proofs.AddContent.
From Coq Require Import String.
Import ListNotations.
Local Open Scope Z_scope.
Local Open Scope string_scope.

(* ====================================================================== *)
(* Part 1 — the structure of a table after a cascade                       *)
(* ====================================================================== *)
(* r' is r with some ON DELETE SET NULL cells nulled, each of which referred to a row of
   its parent table satisfying P *)
Inductive row_nulls (P : string -> Z -> Prop) (t : string) : row -> row -> Prop :=
| rn_refl : forall r, row_nulls P t r r
| rn_step : forall r1 r i c p pc cols fks uqs n,
    row_nulls P t r1 r ->
    In (t, cols, fks, uqs) schema -> In (c, p, pc, "SET NULL") fks -> i = col_index t c ->
    cell_at i r1 = CInt n -> P p n ->
    row_nulls P t (set_nth i CNull r1) r.
(* rows' is a sub-list of rows, in order, the kept rows possibly with nulled cells *)
Inductive tbl_sub (P : string -> Z -> Prop) (t : string) : table -> table -> Prop :=
| ts_nil : tbl_sub P t [] []
| ts_skip : forall r l' l, tbl_sub P t l' l -> tbl_sub P t l' (r :: l)
| ts_keep : forall r' r l' l, row_nulls P t r' r -> tbl_sub P t l' l -> tbl_sub P t (r' :: l') (r :: l).

Lemma row_nulls_trans : forall (P : string -> Z -> Prop) t a b c, row_nulls P t a b -> row_nulls P t b c -> row_nulls P t a c.
Proof.
  intros P t a b c H1 H2. induction H1 as [r|r1 r i c0 p pc cols fks uqs n H1 IH Hin Hfk Hi Hc HP].
  - exact H2.
  - eapply rn_step; try eassumption. apply IH. exact H2.
Qed.
Lemma tbl_sub_refl : forall (P : string -> Z -> Prop) t l, tbl_sub P t l l.
Proof. intros P t l. induction l; constructor; [apply rn_refl|assumption]. Qed.
Lemma tbl_sub_trans : forall (P : string -> Z -> Prop) t a b c, tbl_sub P t a b -> tbl_sub P t b c -> tbl_sub P t a c.
Proof.
  intros P t a b c H1 H2. revert a H1. induction H2 as [|r l' l H2 IH|r' r l' l Hr H2 IH]; intros a H1.
  - inversion H1. constructor.
  - apply ts_skip. apply IH. exact H1.
  - inversion H1 as [|r0 a' l0 H1'|r'' r0 a' l0 Hr' H1']; subst.
    + apply ts_skip. apply IH. exact H1'.
    + apply ts_keep; [eapply row_nulls_trans; eassumption|apply IH; exact H1'].
Qed.
Lemma tbl_sub_filter : forall (P : string -> Z -> Prop) t g l, tbl_sub P t (filter g l) l.
Proof.
  intros P t g l. induction l as [|a l IH]; simpl; [constructor|].
  destruct (g a); [apply ts_keep; [apply rn_refl|exact IH]|apply ts_skip; exact IH].
Qed.
Lemma tbl_sub_map : forall (P : string -> Z -> Prop) t g l, (forall r, row_nulls P t (g r) r) -> tbl_sub P t (map g l) l.
Proof.
  intros P t g l H. induction l as [|a l IH]; simpl; [constructor|]. apply ts_keep; [apply H|exact IH].
Qed.
Lemma row_nulls_rowid : forall (P : string -> Z -> Prop) t r' r, row_nulls P t r' r -> rowid_of r' = rowid_of r.
Proof.
  intros P t r' r H. induction H as [r|r1 r i c p pc cols fks uqs n H1 IH Hin Hfk Hi Hc HP]; [reflexivity|].
  rewrite rowid_of_set_nth; [exact IH|]. subst i. eapply referencing_col_nonzero.
  apply referencing_iff. exists cols, fks, uqs, pc. split; eassumption.
Qed.
Lemma row_nulls_le : forall (P : string -> Z -> Prop) t r' r, row_nulls P t r' r -> row_le t r' r.
Proof.
  intros P t r' r H. induction H as [r|r1 r i c p pc cols fks uqs n H1 IH Hin Hfk Hi Hc HP]; [apply row_le_refl|].
  eapply row_le_trans; [|exact IH]. split.
  - apply rowid_of_set_nth. subst i. eapply referencing_col_nonzero.
    apply referencing_iff. exists cols, fks, uqs, pc. split; eassumption.
  - intro j. destruct (Nat.eq_dec i j) as [<-|Hij].
    + right. split.
      * apply cell_at_set_nth_same. apply cell_at_lt. rewrite Hc. discriminate.
      * exists cols, fks, uqs, c, p, pc. repeat split; assumption.
    + left. apply cell_at_set_nth_other. exact Hij.
Qed.

(* the SET NULL action, structurally *)
Lemma null_ref_nulls : forall (P : string -> Z -> Prop) t i rids r c p pc cols fks uqs,
    In (t, cols, fks, uqs) schema -> In (c, p, pc, "SET NULL") fks -> i = col_index t c ->
    (forall n, In n rids -> P p n) ->
    row_nulls P t (null_ref i rids r) r.
Proof.
  intros P t i rids r c p pc cols fks uqs Hin Hfk Hi HP. unfold null_ref.
  destruct (refers i rids r) eqn:E; [|apply rn_refl].
  unfold refers in E. destruct (cell_at i r) as [|n|s|v] eqn:Ec; try discriminate.
  eapply rn_step; try eassumption; [apply rn_refl|]. apply HP. apply zmem_z_In. exact E.
Qed.

Definition StructSpec (f : nat) : Prop :=
  forall d lg t rids d' lg',
    delete_rows f (d, lg) t rids = Ok (d', lg') ->
    forall d0 P, cascade_closed d0 P -> shrink d0 d -> (forall n, In n rids -> P t n) ->
                 forall t0, tbl_sub P t0 (get_table d' t0) (get_table d t0).

Lemma struct_fold_spec : forall f, StructSpec f ->
    forall t rids refs st st',
      (forall child c a, In (child, c, a) refs -> In (child, c, a) (referencing t)) ->
      foldM (del_step f rids) refs st = Ok st' ->
      forall d0 P, cascade_closed d0 P -> shrink d0 (fst st) -> (forall n, In n rids -> P t n) ->
                   forall t0, tbl_sub P t0 (get_table (fst st') t0) (get_table (fst st) t0).
Proof.
  intros f IH t rids refs. induction refs as [|[[child c] a] refs IHr]; intros st st' Hs H d0 P Hc Hsh HP t0.
  - simpl in H. injection H as <-. apply tbl_sub_refl.
  - simpl in H. apply bind_ok in H. destruct H as [s1 [H1 H2]].
    pose proof (Hs _ _ _ (or_introl eq_refl)) as Href.
    destruct (del_step_spec f (delete_rows_spec f) t rids st child c a s1 Href H1) as [(m0 & _ & S01 & _ & _) _].
    assert (forall t1, tbl_sub P t1 (get_table (fst s1) t1) (get_table (fst st) t1)) as Hsub1.
    { intro t1. destruct st as [d lg]. destruct s1 as [d1 lg1]. cbn [fst snd] in *.
      unfold del_step in H1. destruct (String.eqb a "CASCADE") eqn:Ea.
      - apply String.eqb_eq in Ea. subst a.
        apply (IH _ _ _ _ _ _ H1 d0 P Hc Hsh).
        intros n Hn. apply in_map_iff in Hn. destruct Hn as [r1 [<- Hr1]].
        apply filter_In in Hr1. destruct Hr1 as [Hr1 Hrf].
        destruct (Hsh child r1 Hr1) as [r0 [Hr0 [L0 L1]]]. rewrite L0.
        unfold refers in Hrf. destruct (cell_at (col_index child c) r1) as [|m|s|v] eqn:Ec; try discriminate.
        apply zmem_z_In in Hrf. apply (Hc t m child c r0 (HP m Hrf) Href Hr0).
        destruct (L1 (col_index child c)) as [E|[E _]]; rewrite Ec in E; [symmetry; exact E|discriminate].
      - destruct (String.eqb a "SET NULL") eqn:Es.
        + apply String.eqb_eq in Es. subst a. injection H1 as <- <-.
          destruct (string_dec child t1) as [<-|Hne].
          * rewrite get_set_same. apply tbl_sub_map. intro r.
            apply referencing_iff in Href. destruct Href as (cols & fks & uqs & pc & Hin & Hfk).
            change (if refers (col_index child c) rids r then set_nth (col_index child c) CNull r else r)
              with (null_ref (col_index child c) rids r).
            eapply null_ref_nulls; try eassumption. reflexivity.
          * rewrite get_set_other by exact Hne. apply tbl_sub_refl.
        + injection H1 as <- <-. apply tbl_sub_refl. }
    eapply tbl_sub_trans; [|apply Hsub1].
    apply (IHr s1 st' (fun ch c0 a0 Hin => Hs ch c0 a0 (or_intror Hin)) H2 d0 P Hc); [|exact HP].
    eapply shrink_trans; eassumption.
Qed.

Lemma delete_rows_struct : forall f, StructSpec f.
Proof.
  induction f as [|f IH]; intros d lg t rids d' lg' H d0 P Hc Hsh HP t0; [discriminate|].
  rewrite delete_rows_S in H. destruct rids as [|x rids0].
  { injection H as <- <-. apply tbl_sub_refl. }
  set (rids := x :: rids0) in *.
  pose proof (struct_fold_spec f IH t rids _ _ _ (fun child c a Hin => Hin) H d0 P Hc) as Hf.
  cbn [fst] in Hf. eapply tbl_sub_trans; [apply Hf|].
  - eapply shrink_trans; [exact Hsh|apply shrink_filter].
  - exact HP.
  - destruct (string_dec t t0) as [<-|Hne].
    + rewrite get_set_same. apply tbl_sub_filter.
    + rewrite get_set_other by exact Hne. apply tbl_sub_refl.
Qed.

(* DELETE FROM t WHERE rowid = rid: every table is a sub-list of what it was; the nulled cells
   referred to rows in the cascade closure of the deleted row *)
Lemma delete_row_struct : forall fuel d t rid d',
    delete_row fuel d t rid = Ok d' ->
    forall t0, tbl_sub (doomed d (root1 t rid)) t0 (get_table d' t0) (get_table d t0).
Proof.
  intros fuel d t rid d' H t0. destruct (delete_row_inv _ _ _ _ _ H) as [->|[lg [H1 _]]]; [apply tbl_sub_refl|].
  apply (delete_rows_struct fuel _ _ _ _ _ _ H1 d (doomed d (root1 t rid)) (doomed_closed _ _) (shrink_refl d)).
  intros n [<-|[]]. apply doomed_root. split; reflexivity.
Qed.

(* a sub-list that keeps (by rowid) every row of [olds] and no row of [news] is [olds], row by row *)
Lemma tbl_sub_in : forall (P : string -> Z -> Prop) t l' l r',
    tbl_sub P t l' l -> In r' l' -> exists r, In r l /\ row_nulls P t r' r.
Proof.
  intros P t l' l r' H. induction H as [|r l' l H IH|r1 r l' l Hr H IH]; intro Hin.
  - destruct Hin.
  - destruct (IH Hin) as [x [Hx Hn]]. exists x. split; [right; exact Hx|exact Hn].
  - destruct Hin as [<-|Hin]; [exists r; split; [left; reflexivity|exact Hr]|].
    destruct (IH Hin) as [x [Hx Hn]]. exists x. split; [right; exact Hx|exact Hn].
Qed.
Lemma tbl_sub_none : forall (P : string -> Z -> Prop) t l' l,
    tbl_sub P t l' l -> (forall r, In r l -> ~ In (rowid_of r) (rowids l')) -> l' = [].
Proof.
  intros P t l' l H Hn. destruct l' as [|r' l'']; [reflexivity|]. exfalso.
  destruct (tbl_sub_in P t _ _ r' H (or_introl eq_refl)) as [r [Hr Hrn]].
  apply (Hn r Hr). rewrite <- (row_nulls_rowid _ _ _ _ Hrn). left. reflexivity.
Qed.
Lemma tbl_sub_exact : forall (P : string -> Z -> Prop) t olds news rows',
    tbl_sub P t rows' (olds ++ news)%list ->
    NoDup (rowids (olds ++ news)%list) ->
    (forall r, In r olds -> In (rowid_of r) (rowids rows')) ->
    (forall r, In r news -> ~ In (rowid_of r) (rowids rows')) ->
    Forall2 (row_nulls P t) rows' olds.
Proof.
  intros P t olds. induction olds as [|a olds IH]; intros news rows' Hsub Hnd Hk Hg.
  - simpl in Hsub. rewrite (tbl_sub_none P t _ _ Hsub Hg). constructor.
  - simpl in Hsub, Hnd. inversion Hnd as [|x xs Hnot Hnd']. subst.
    inversion Hsub as [|r l' l Hs|r' r l' l Hr Hs]; subst.
    + (* a would have been dropped: impossible, its rowid is kept and rowids are distinct *)
      exfalso. specialize (Hk a (or_introl eq_refl)). unfold rowids in Hk. apply in_map_iff in Hk.
      destruct Hk as [r' [E Hr']]. destruct (tbl_sub_in P t _ _ r' Hs Hr') as [r [Hr Hrn]].
      apply Hnot. rewrite <- E, (row_nulls_rowid _ _ _ _ Hrn). apply in_map. exact Hr.
    + constructor; [exact Hr|]. apply (IH news); [exact Hs|exact Hnd'| |].
      * intros r Hin. destruct (Hk r (or_intror Hin)) as [E|Hin']; [|exact Hin'].
        exfalso. apply Hnot. rewrite <- (row_nulls_rowid _ _ _ _ Hr), E. apply in_map.
        apply in_or_app. left. exact Hin.
      * intros r Hin Hc. apply (Hg r Hin). right. exact Hc.
Qed.

(* ====================================================================== *)
(* Part 2 — add keeps the rowids distinct and the NOT NULL / CHECK constraints *)
(* ====================================================================== *)
(* every stored row satisfies the NOT NULL and CHECK constraints of its table *)
Definition notnull_ok (d : db) : Prop :=
  forall t cols fks uqs, In (t, cols, fks, uqs) schema ->
  forall r, In r (get_table d t) -> row_checks_ok t (data_columns t) (tl r) = true.
Definition rowids_ok (d : db) : Prop :=
  forall t cols fks uqs, In (t, cols, fks, uqs) schema -> NoDup (rowids (get_table d t)).
Definition Wf (d : db) : Prop := rowids_ok d /\ notnull_ok d.

Lemma NoDup_app_snoc : forall {T} (l : list T) x, NoDup l -> ~ In x l -> NoDup (l ++ [x])%list.
Proof.
  intros T l x H Hx. induction H as [|a l Ha Hl IH]; simpl.
  - constructor; [intros []|constructor].
  - constructor.
    + intro Hin. apply in_app_or in Hin. destruct Hin as [Hin|[<-|[]]]; [contradiction|].
      apply Hx. left. reflexivity.
    + apply IH. intro Hin. apply Hx. right. exact Hin.
Qed.
Lemma NoDup_snoc_fresh : forall (rows : table) r,
    NoDup (rowids rows) -> (forall r0, In r0 rows -> rowid_of r0 < rowid_of r) ->
    NoDup (rowids (rows ++ [r])%list).
Proof.
  intros rows r Hnd Hf. unfold rowids. rewrite map_app. simpl.
  apply NoDup_app_snoc; [exact Hnd|]. intro Hin. apply in_map_iff in Hin. destruct Hin as [r0 [E Hr0]].
  specialize (Hf r0 Hr0). lia.
Qed.

Lemma Wf_snoc : forall d t vals,
    Wf d -> row_checks_ok t (data_columns t) (coerce_all (data_columns t) vals) = true ->
    Wf (set_table d t (get_table d t ++ [CInt (next_rowid (get_table d t))
                                          :: coerce_all (data_columns t) vals])%list).
Proof.
  intros d t vals [Hr Hn] Hc. split.
  - intros t0 cols0 fks0 uqs0 Hin0. destruct (string_dec t t0) as [<-|Hne];
      [|rewrite get_set_other by exact Hne; eapply Hr; exact Hin0].
    rewrite get_set_same. apply NoDup_snoc_fresh; [eapply Hr; exact Hin0|]. intros r0 Hr0. simpl.
    apply next_rowid_fresh. exact Hr0.
  - intros t0 cols fks uqs Hin r Hrin. destruct (string_dec t t0) as [<-|Hne].
    + rewrite get_set_same in Hrin. apply in_app_or in Hrin. destruct Hrin as [Hrin|[<-|[]]].
      * eapply Hn; eassumption.
      * simpl. exact Hc.
    + rewrite get_set_other in Hrin by exact Hne. eapply Hn; eassumption.
Qed.
Lemma try_insert_checks : forall d t vals d' rid,
    try_insert d t vals = Inserted d' rid ->
    row_checks_ok t (data_columns t) (coerce_all (data_columns t) vals) = true.
Proof.
  intros d t vals d' rid H. unfold try_insert in H. cbv zeta in H.
  destruct (row_checks_ok t (data_columns t) (coerce_all (data_columns t) vals)); [reflexivity|discriminate].
Qed.
Lemma Wf_insert : forall d t vals d', Wf d -> insert d t vals = Ok d' -> Wf d'.
Proof.
  intros d t vals d' Hw H. unfold insert in H. destruct (try_insert d t vals) as [d1 rid|] eqn:E; [|discriminate].
  injection H as <-. pose proof (try_insert_checks _ _ _ _ _ E) as Hc.
  destruct (try_insert_inv _ _ _ _ _ E) as [-> ->]. apply Wf_snoc; assumption.
Qed.
Lemma Wf_insert_rowid : forall d t vals d' rid, Wf d -> insert_rowid d t vals = Ok (d', rid) -> Wf d'.
Proof.
  intros d t vals d' rid Hw H. unfold insert_rowid in H.
  destruct (try_insert d t vals) as [d1 r1|] eqn:E; [|discriminate].
  injection H as <- <-. pose proof (try_insert_checks _ _ _ _ _ E) as Hc.
  destruct (try_insert_inv _ _ _ _ _ E) as [-> ->]. apply Wf_snoc; assumption.
Qed.
Lemma Wf_ioi : forall d t vals d', Wf d -> insert_or_ignore d t vals = d' -> Wf d'.
Proof.
  intros d t vals d' Hw <-. unfold insert_or_ignore.
  destruct (try_insert d t vals) as [d1 rid|] eqn:E; [|exact Hw].
  pose proof (try_insert_checks _ _ _ _ _ E) as Hc.
  destruct (try_insert_inv _ _ _ _ _ E) as [-> ->]. apply Wf_snoc; assumption.
Qed.

(* UPDATE: the result row by row *)
Lemma update_go_map : forall t p sets todo done res,
    update_go t p sets done todo = Ok res ->
    res = (rev done ++ map (fun r => if p r then apply_sets t sets r else r) todo)%list
    /\ forall r, In r todo -> p r = true ->
                 row_checks_ok t (data_columns t) (tl (apply_sets t sets r)) = true.
Proof.
  intros t p sets todo. induction todo as [|a todo IH]; intros done res H; simpl in H.
  - injection H as <-. split; [simpl; rewrite app_nil_r; reflexivity|intros r []].
  - destruct (p a) eqn:Ea.
    + destruct (row_checks_ok t (data_columns t) (tl (apply_sets t sets a))) eqn:Ec; [|discriminate].
      simpl in H. destruct (unique_conflict t (rev_append done todo) (apply_sets t sets a)); [discriminate|].
      destruct (IH _ _ H) as [-> Hc]. split; [simpl; rewrite Ea, <- app_assoc; reflexivity|].
      intros r [<-|Hr] Hp; [exact Ec|apply Hc; assumption].
    + destruct (IH _ _ H) as [-> Hc]. split; [simpl; rewrite Ea, <- app_assoc; reflexivity|].
      intros r [<-|Hr] Hp; [congruence|apply Hc; assumption].
Qed.
Lemma Wf_update_prov : forall d p c d',
    Wf d -> update d "lexicon_dependencies" p [("provider_rowid", c)] = Ok d' -> Wf d'.
Proof.
  intros d p c d' [Hr Hn] H. unfold update in H. apply bind_ok in H. destruct H as [rows [Hu H]].
  injection H as <-. apply update_go_map in Hu. destruct Hu as [-> Hc]. cbn [rev app].
  split.
  - intros t0 cols0 fks0 uqs0 Hin0. destruct (string_dec "lexicon_dependencies" t0) as [<-|Hne];
      [|rewrite get_set_other by exact Hne; eapply Hr; exact Hin0].
    rewrite get_set_same. unfold rowids. rewrite map_map.
    rewrite (map_ext _ rowid_of); [eapply Hr; exact Hin0|]. intro r. cbv beta. destruct (p r); [|reflexivity].
    rewrite apply_sets_prov. apply rowid_of_set_nth. vm_compute. discriminate.
  - intros t0 cols fks uqs Hin r Hrin. destruct (string_dec "lexicon_dependencies" t0) as [<-|Hne];
      [|rewrite get_set_other in Hrin by exact Hne; eapply Hn; eassumption].
    rewrite get_set_same in Hrin. apply in_map_iff in Hrin. destruct Hrin as [r0 [<- Hr0]].
    destruct (p r0) eqn:Ep; [apply Hc; assumption|eapply Hn; eassumption].
Qed.

Ltac wf_fact :=
  match goal with
  | Hp : Wf ?d, H : insert ?d _ _ = Ok ?d' |- _ =>
      assert (Wf d') by (eapply Wf_insert; [exact Hp|exact H]); clear H
  | Hp : Wf ?d, H : insert_rowid ?d _ _ = Ok (?d', _) |- _ =>
      assert (Wf d') by (eapply Wf_insert_rowid; [exact Hp|exact H]); clear H
  | Hp : Wf ?d, H : insert_or_ignore ?d _ _ = ?d' |- _ =>
      assert (Wf d') by (eapply Wf_ioi; [exact Hp|exact H]); clear H
  | Hp : Wf ?d, H : update ?d "lexicon_dependencies" _ [("provider_rowid", _)] = Ok ?d' |- _ =>
      assert (Wf d') by (eapply Wf_update_prov; [exact Hp|exact H]); clear H
  | Hp : Wf ?d, H : @foldM _ db _ _ ?d = Ok ?d' |- _ =>
      assert (Wf d')
        by (revert H; apply foldM_inv; [|exact Hp]; clear;
            let s := fresh "s" in let x := fresh "x" in let s' := fresh "s'" in
            let Hp' := fresh "Hp" in let Hs := fresh "Hs" in
            intros s x s' Hp' Hs; cbv beta in Hs; wf_all);
      clear H
  end
with wf_all := repeat mstep2; repeat wf_fact; assumption.

Lemma Wf_add_one_lexicon : forall nt L d d', Wf d -> add_one_lexicon nt L d = Ok d' -> Wf d'.
Proof.
  intros nt L d d' Hp H.
  unfold add_one_lexicon, _update_lookup_tables, _insert_lexicon, insert_lexicon_link, _insert_synsets,
    _insert_entries, _insert_forms, _insert_pronunciations, insert_pronunciation, _insert_tags, insert_tag,
    _insert_senses, _insert_adjpositions, _insert_counts, _insert_syntactic_behaviours,
    _insert_synset_relations, _insert_sense_relations, _insert_synset_definitions, _insert_examples in H.
  cbv zeta in H. wf_all.
Qed.

(* ====================================================================== *)
(* Part 3 — what the cascade from the new lexicons row reaches             *)
(* ====================================================================== *)
Lemma setnull_prov : setnull_col "lexicon_dependencies" prov_idx.
Proof.
  exists (table_columns "lexicon_dependencies"), (table_fkeys "lexicon_dependencies"),
    (table_uniques "lexicon_dependencies"), "provider_rowid", "lexicons", "rowid".
  split; [|split; [|reflexivity]].
  - vm_compute. do 3 right. left. reflexivity.
  - vm_compute. right. left. reflexivity.
Qed.

Lemma Forall2_len : forall {A B} (R : A -> B -> Prop) l l', Forall2 R l l' -> List.length l = List.length l'.
Proof. intros A B R l l' H. induction H; simpl; congruence. Qed.
(* the split of a table of d' given by db_ext: the old rows (updated in place) and the new rows *)
Lemma tbl_ext_new_rows : forall t d d',
    tbl_ext t (get_table d t) (get_table d' t) ->
    exists olds, get_table d' t = (olds ++ new_rows t d d')%list
                 /\ Forall2 (row_upd t) (get_table d t) olds
                 /\ forall r, In r (new_rows t d d') -> forall r0, In r0 (get_table d t) -> rowid_of r0 < rowid_of r.
Proof.
  intros t d d' (olds & news & E & F & Hf). exists olds.
  assert (new_rows t d d' = news) as ->.
  { unfold new_rows. rewrite E. rewrite (Forall2_len _ _ _ F). rewrite skipn_app, skipn_all, Nat.sub_diag. reflexivity. }
  repeat split; assumption.
Qed.

(* (A) no row that was already in d is reached *)
Lemma old_not_doomed : forall d d' lexid,
    db_ext d d' -> fk_ok d = true -> lexid = next_rowid (get_table d "lexicons") ->
    forall t n, doomed d' (roots_of [lexid]) t n -> ~ In n (rowids (get_table d t)).
Proof.
  intros d d' lexid Hext Hok Hlex t n Hd.
  induction Hd as [t n [-> [<-|[]]]|p m child c r _ IH Href Hr Hc].
  - intro Hin. unfold rowids in Hin. apply in_map_iff in Hin. destruct Hin as [r0 [E Hr0]].
    pose proof (next_rowid_fresh _ _ Hr0) as Hf. lia.
  - destruct (tbl_ext_new_rows child d d' (Hext child)) as (olds & E & F & Hfresh).
    rewrite E in Hr. apply in_app_or in Hr. destruct Hr as [Hr|Hr].
    + (* an old row: its CASCADE cell is the one it had in d, which refers to a row of d *)
      exfalso. destruct (Forall2_in_r _ _ _ _ F Hr) as [r0 [Hr0 Hupd]].
      assert (cell_at (col_index child c) r0 = CInt m) as Hc0.
      { destruct Hupd as [->|[-> [c1 ->]]]; [exact Hc|].
        rewrite cell_at_set_nth_other in Hc; [exact Hc|].
        intro E1. apply (cascade_not_setnull _ _ _ Href). rewrite <- E1. apply setnull_prov. }
      pose proof Href as Href'. apply referencing_iff in Href'.
      destruct Href' as (cols & fks & uqs & pc & Hin & Hfk).
      rewrite fk_ok_iff in Hok. specialize (Hok _ _ _ _ Hin _ _ _ _ Hfk r0 Hr0).
      unfold col in Hok. rewrite Hc0 in Hok. simpl in Hok. apply zmem_z_In in Hok. exact (IH Hok).
    + intro Hin. unfold rowids in Hin. apply in_map_iff in Hin. destruct Hin as [r0 [E0 Hr0]].
      specialize (Hfresh r Hr r0 Hr0). lia.
Qed.

(* (B) every row that the add appended is reached *)
Definition Doomed (d' : db) (lexid : Z) (t : string) (r : row) : Prop :=
  doomed d' (roots_of [lexid]) t (rowid_of r).

Lemma in_number_from_inv : forall vss n r,
    In r (number_from n vss) -> exists k0 vs, r = CInt k0 :: vs /\ In vs vss.
Proof.
  induction vss as [|x vss IH]; intros n r H; [destruct H|]. simpl in H. destruct H as [<-|H].
  - exists n, x. split; [reflexivity|left; reflexivity].
  - destruct (IH _ _ H) as (k0 & vs & E & Hin). exists k0, vs. split; [exact E|right; exact Hin].
Qed.
Lemma App_new_in : forall t d d' vss r,
    App t d d' vss -> In r (new_rows t d d') ->
    In r (get_table d' t) /\ exists k0 vs, r = CInt k0 :: vs /\ In vs vss.
Proof.
  intros t d d' vss r HA Hr. rewrite (App_new_rows _ _ _ _ HA) in Hr. split.
  - unfold App in HA. rewrite HA. apply in_or_app. right. exact Hr.
  - eapply in_number_from_inv. exact Hr.
Qed.
Lemma root_doomed : forall d' lexid, doomed d' (roots_of [lexid]) "lexicons" lexid.
Proof. intros. apply doomed_root. split; [reflexivity|left; reflexivity]. Qed.

(* rows carrying the new lexicon rowid in their lexicon_rowid column *)
Lemma new_rows_doomed_lex : forall t d d' lexid vss,
    App t d d' vss ->
    In (t, "lexicon_rowid", "CASCADE") (referencing "lexicons") ->
    (forall vs k0, In vs vss -> cell_at (col_index t "lexicon_rowid") (CInt k0 :: vs) = CInt lexid) ->
    forall r, In r (new_rows t d d') -> Doomed d' lexid t r.
Proof.
  intros t d d' lexid vss HA Href Hcell r Hr.
  destruct (App_new_in _ _ _ _ _ HA Hr) as [Hin (k0 & vs & -> & Hvs)].
  unfold Doomed. eapply doomed_step; [apply root_doomed|exact Href|exact Hin|]. apply Hcell. exact Hvs.
Qed.
Ltac ref_lex := rewrite references_to_lexicons; simpl; tauto.
Ltac in_concrete := vm_compute; repeat (first [left; reflexivity | right]).

Lemma B_entries : forall nt L d d', add_one_lexicon nt L d = Ok d' ->
    forall r, In r (new_rows "entries" d d') -> Doomed d' (next_rowid (get_table d "lexicons")) "entries" r.
Proof.
  intros nt L d d' H. eapply new_rows_doomed_lex; [eapply one_lexicon_entries; exact H|ref_lex|].
  intros vs k0 Hvs. apply in_map_iff in Hvs. destruct Hvs as [e [<- _]]. reflexivity.
Qed.
Lemma B_forms : forall nt L d d', add_one_lexicon nt L d = Ok d' ->
    forall r, In r (new_rows "forms" d d') -> Doomed d' (next_rowid (get_table d "lexicons")) "forms" r.
Proof.
  intros nt L d d' H. destruct (one_lexicon_forms _ _ _ _ H) as (lexid & extid & m & -> & _ & HA).
  eapply new_rows_doomed_lex; [exact HA|ref_lex|].
  intros vs k0 Hvs. apply in_flat_map in Hvs. destruct Hvs as [e [_ Hvs]]. unfold entry_form_rows in Hvs.
  apply in_app_or in Hvs. destruct Hvs as [Hvs|Hvs].
  - destruct (negb (_is_external e)); [|destruct Hvs]. destruct Hvs as [<-|[]]. reflexivity.
  - apply in_flat_map in Hvs. destruct Hvs as [[i f] [_ Hvs]]. cbn [snd] in Hvs.
    destruct (_is_external f); [destruct Hvs|]. destruct Hvs as [<-|[]]. reflexivity.
Qed.
Lemma B_synsets : forall nt L d d', add_one_lexicon nt L d = Ok d' ->
    forall r, In r (new_rows "synsets" d d') -> Doomed d' (next_rowid (get_table d "lexicons")) "synsets" r.
Proof.
  intros nt L d d' H. destruct (one_lexicon_synsets _ _ _ _ H) as [HA _]. cbv zeta in HA.
  eapply new_rows_doomed_lex; [exact HA|ref_lex|].
  intros vs k0 Hvs. apply in_map_iff in Hvs. destruct Hvs as [e [<- _]]. reflexivity.
Qed.
Lemma B_senses : forall nt L d d', add_one_lexicon nt L d = Ok d' ->
    forall r, In r (new_rows "senses" d d') -> Doomed d' (next_rowid (get_table d "lexicons")) "senses" r.
Proof.
  intros nt L d d' H. destruct (one_lexicon_senses _ _ _ _ H) as (lexid & extid & m & -> & _ & HA).
  eapply new_rows_doomed_lex; [exact HA|ref_lex|].
  intros vs k0 Hvs. apply in_flat_map in Hvs. destruct Hvs as [e [_ Hvs]]. unfold entry_sense_rows in Hvs.
  apply in_map_iff in Hvs. destruct Hvs as [[i s] [<- _]]. reflexivity.
Qed.

Lemma B_children : forall nt L d d', add_one_lexicon nt L d = Ok d' ->
    forall t, In t ["counts"; "sense_examples"; "synset_examples"; "definitions"; "synset_relations";
                    "sense_relations"; "sense_synset_relations"; "syntactic_behaviours"] ->
    forall r, In r (new_rows t d d') -> Doomed d' (next_rowid (get_table d "lexicons")) t r.
Proof.
  intros nt L d d' H t Ht.
  destruct (one_lexicon_children _ _ _ _ H)
    as (lexid & extid & m & sb & -> & _ & _ & Acnt & _ & Asex & Assx & Adef & Asr & Asn1 & Asn2 & Asb1 & _).
  simpl in Ht. destruct Ht as [<-|[<-|[<-|[<-|[<-|[<-|[<-|[<-|[]]]]]]]]].
  - eapply new_rows_doomed_lex; [exact Acnt|ref_lex|]. intros vs k0 Hvs.
    apply in_flat_map in Hvs. destruct Hvs as [e [_ Hvs]]. unfold entry_count_rows in Hvs.
    apply in_flat_map in Hvs. destruct Hvs as [s [_ Hvs]]. apply in_map_iff in Hvs.
    destruct Hvs as [c [<- _]]. reflexivity.
  - eapply new_rows_doomed_lex; [exact Asex|ref_lex|]. intros vs k0 Hvs.
    apply in_flat_map in Hvs. destruct Hvs as [s [_ Hvs]]. unfold sense_example_rows in Hvs.
    apply in_map_iff in Hvs. destruct Hvs as [x [<- _]]. reflexivity.
  - eapply new_rows_doomed_lex; [exact Assx|ref_lex|]. intros vs k0 Hvs.
    apply in_flat_map in Hvs. destruct Hvs as [s [_ Hvs]]. unfold synset_example_rows in Hvs.
    apply in_map_iff in Hvs. destruct Hvs as [x [<- _]]. reflexivity.
  - eapply new_rows_doomed_lex; [exact Adef|ref_lex|]. intros vs k0 Hvs.
    apply in_flat_map in Hvs. destruct Hvs as [s [_ Hvs]]. unfold definition_rows in Hvs.
    apply in_map_iff in Hvs. destruct Hvs as [x [<- _]]. reflexivity.
  - eapply new_rows_doomed_lex; [exact Asr|ref_lex|]. intros vs k0 Hvs.
    apply in_flat_map in Hvs. destruct Hvs as [s [_ Hvs]]. unfold synset_relation_rows in Hvs.
    apply in_map_iff in Hvs. destruct Hvs as [x [<- _]]. reflexivity.
  - eapply new_rows_doomed_lex; [exact Asn1|ref_lex|]. intros vs k0 Hvs.
    apply in_map_iff in Hvs. destruct Hvs as [[[[sid slid] tlid] rel] [<- _]]. reflexivity.
  - eapply new_rows_doomed_lex; [exact Asn2|ref_lex|]. intros vs k0 Hvs.
    apply in_map_iff in Hvs. destruct Hvs as [[[[sid slid] tlid] rel] [<- _]]. reflexivity.
  - eapply new_rows_doomed_lex; [exact Asb1|ref_lex|]. intros vs k0 Hvs.
    apply in_map_iff in Hvs. destruct Hvs as [x [<- _]]. reflexivity.
Qed.

(* ---------- the tables without a lexicon_rowid column ---------- *)
Lemma select_rowid_found : forall d t p n,
    select_rowid d t p = CInt n -> exists r, In r (get_table d t) /\ rowid_of r = n /\ p r = true.
Proof.
  intros d t p n H. unfold select_rowid in H. destruct (find p (get_table d t)) as [r|] eqn:E; [|discriminate].
  injection H as <-. apply find_some in E. exists r. split; [apply E|]. split; [reflexivity|apply E].
Qed.
Lemma sql_eq_int : forall c z, sql_eq c (CInt z) = true -> c = CInt z.
Proof. intros c z H. destruct c; simpl in H; try discriminate. apply Z.eqb_eq in H. subst. reflexivity. Qed.
Lemma coerce_int_id : forall c, coerce "INTEGER" c = c.
Proof. intro c. destruct c; reflexivity. Qed.

Lemma lexrow_doomed : forall d' lexid t r,
    In (t, "lexicon_rowid", "CASCADE") (referencing "lexicons") -> In r (get_table d' t) ->
    cell_at (col_index t "lexicon_rowid") r = CInt lexid -> doomed d' (roots_of [lexid]) t (rowid_of r).
Proof. intros d' lexid t r Href Hr Hc. eapply doomed_step; [apply root_doomed|exact Href|exact Hr|exact Hc]. Qed.

(* a sense / synset / syntactic behaviour found by a query restricted to the new lexicon is reached *)
Lemma SENSE_QUERY_doomed : forall d' lexid idc n,
    SENSE_QUERY d' idc (CInt lexid) = CInt n -> doomed d' (roots_of [lexid]) "senses" n.
Proof.
  intros d' lexid idc n H. unfold SENSE_QUERY in H. cbv zeta in H.
  apply select_rowid_found in H. destruct H as (r & Hr & <- & Hp). apply andb_true_iff in Hp.
  destruct Hp as [_ Hp]. apply sql_eq_int in Hp. apply lexrow_doomed; [ref_lex|exact Hr|exact Hp].
Qed.
Lemma SYNSET_QUERY_doomed : forall d' lexid idc n,
    SYNSET_QUERY d' idc (CInt lexid) = CInt n -> doomed d' (roots_of [lexid]) "synsets" n.
Proof.
  intros d' lexid idc n H. unfold SYNSET_QUERY in H. cbv zeta in H.
  apply select_rowid_found in H. destruct H as (r & Hr & <- & Hp). apply andb_true_iff in Hp.
  destruct Hp as [_ Hp]. apply sql_eq_int in Hp. apply lexrow_doomed; [ref_lex|exact Hr|exact Hp].
Qed.

Lemma via_parent : forall d' lexid child c p r n,
    In (child, c, "CASCADE") (referencing p) -> In r (get_table d' child) ->
    cell_at (col_index child c) r = CInt n -> doomed d' (roots_of [lexid]) p n ->
    Doomed d' lexid child r.
Proof. intros. unfold Doomed. eapply doomed_step; eassumption. Qed.

Lemma Wf_cell_notnull : forall d t cols fks uqs r,
    Wf d -> In (t, cols, fks, uqs) schema -> In r (get_table d t) ->
    row_checks_ok t (data_columns t) (tl r) = true.
Proof. intros d t cols fks uqs r [_ Hn] Hin Hr. eapply Hn; eassumption. Qed.
Lemma in_schema : forall t, existsb (fun e : string * columns_t * fkeys_t * uniques_t => String.eqb (fst (fst (fst e))) t) schema = true ->
    exists cols fks uqs, In (t, cols, fks, uqs) schema.
Proof.
  intros t H. apply existsb_exists in H. destruct H as [[[[t0 cols] fks] uqs] [Hin E]]. simpl in E.
  apply String.eqb_eq in E. subst t0. eauto.
Qed.

(* proposed_ilis: the synset of a proposed ILI is found when its id is a text *)
Definition findable (c : cell) : bool := match c with CText _ | CInt _ => true | _ => false end.
(* the synsets with ili = "in" have an id that the lookup can find (a string or a number) *)
Definition in_synsets_ok (L : val) : bool :=
  forallb (fun ss => negb (is_in (pv (vreq ss "ili"))) || findable (pcell (preq ss "id")))
          (_local_synsets (_synsets L)).

Lemma B_proposed : forall nt L d d', add_one_lexicon nt L d = Ok d' -> in_synsets_ok L = true ->
    forall r, In r (new_rows "proposed_ilis" d d') ->
              Doomed d' (next_rowid (get_table d "lexicons")) "proposed_ilis" r.
Proof.
  intros nt L d d' H Hok r Hr. destruct (one_lexicon_synsets _ _ _ _ H) as [As Ap]. cbv zeta in As, Ap.
  set (lexid := next_rowid (get_table d "lexicons")) in *.
  destruct (App_new_in _ _ _ _ _ Ap Hr) as [Hin (k0 & vs & -> & Hvs)].
  apply in_flat_map in Hvs. destruct Hvs as [ss [Hss Hvs]]. unfold proposed_rows in Hvs.
  destruct (is_in (pv (vreq ss "ili"))) eqn:Ein; [|destruct Hvs]. destruct Hvs as [<-|[]].
  unfold in_synsets_ok in Hok. rewrite forallb_forall in Hok. specialize (Hok ss Hss). rewrite Ein in Hok.
  simpl in Hok.
  (* the synsets row of ss is in d' and is found *)
  assert (exists n, SYNSET_QUERY d' (pcell (preq ss "id")) (CInt lexid) = CInt n) as [n Hn].
  { rewrite SYNSET_QUERY_pred. unfold select_rowid.
    destruct (find (syn_pred (pcell (preq ss "id")) lexid) (get_table d' "synsets")) as [x|] eqn:Ef; [eauto|].
    exfalso. unfold App in As. rewrite As in Ef.
    destruct (In_number_from _ _ (next_rowid (get_table d "synsets")) (in_map (synset_row d' lexid) _ _ Hss))
      as [k1 Hk1].
    pose proof (find_none _ _ Ef _ (in_or_app _ _ _ (or_intror Hk1))) as Hf.
    destruct (synset_row_key d' lexid ss k1) as [K1 K2]. unfold syn_pred in Hf. rewrite K1, K2 in Hf.
    destruct (pcell (preq ss "id")); simpl in Hok, Hf; try discriminate;
      rewrite str_eqb_refl, Z.eqb_refl in Hf; discriminate. }
  eapply (via_parent d' lexid "proposed_ilis" "synset_rowid" "synsets" _ n);
    [in_concrete|exact Hin| |eapply SYNSET_QUERY_doomed; exact Hn].
  change (cell_at (col_index "proposed_ilis" "synset_rowid")
                  (CInt k0 :: coerce_all (data_columns "proposed_ilis")
                     [SYNSET_QUERY d' (pcell (preq ss "id")) (CInt lexid); ili_def_text ss; ili_def_meta ss]))
    with (coerce "INTEGER" (SYNSET_QUERY d' (pcell (preq ss "id")) (CInt lexid))).
  rewrite coerce_int_id. exact Hn.
Qed.

(* a lexicon that is not an extension: extid = lexid and the lexid map is empty *)
Lemma insert_lexicon_nonext : forall L d d' lexid extid,
    _insert_lexicon L d = Ok (d', lexid, extid) -> vtruthy (vgetk L "extends") = false -> extid = lexid.
Proof.
  intros L d d' lexid extid H Hne. unfold _insert_lexicon in H. repeat mstep; try congruence; reflexivity.
Qed.
Lemma build_lexid_map_same : forall L lexid m, _build_lexid_map L lexid lexid = Ok m -> m = [].
Proof. intros L lexid m H. unfold _build_lexid_map in H. rewrite Z.eqb_refl in H. injection H as <-. reflexivity. Qed.

Lemma adj_notnull : forall x y,
    row_checks_ok "adjpositions" (data_columns "adjpositions")
                  (coerce_all (data_columns "adjpositions") [x; y]) = true -> x <> CNull.
Proof. intros x y H E. subst x. vm_compute in H. discriminate. Qed.
Lemma sbs_notnull : forall x y,
    row_checks_ok "syntactic_behaviour_senses" (data_columns "syntactic_behaviour_senses")
                  (coerce_all (data_columns "syntactic_behaviour_senses") [x; y]) = true -> y <> CNull.
Proof. intros x y H E. subst y. destruct x; vm_compute in H; discriminate. Qed.

Lemma query_cell_cases : forall d t p, select_rowid d t p = CNull \/ exists n, select_rowid d t p = CInt n.
Proof. intros d t p. unfold select_rowid. destruct (find p (get_table d t)); [right; eauto|left; reflexivity]. Qed.

Lemma B_adjpositions : forall nt L d d',
    add_one_lexicon nt L d = Ok d' -> vtruthy (vgetk L "extends") = false -> Wf d ->
    forall r, In r (new_rows "adjpositions" d d') ->
              Doomed d' (next_rowid (get_table d "lexicons")) "adjpositions" r.
Proof.
  intros nt L d d' H Hne Hwf r Hr. pose proof (Wf_add_one_lexicon _ _ _ _ Hwf H) as Hwf'.
  one_inv H.
  destruct (app_insert_lexicon _ _ _ _ _ H2) as [_ Hlex].
  pose proof (insert_lexicon_nonext _ _ _ _ _ H2 Hne) as ->.
  apply build_lexid_map_same in Hm. subst m.
  destruct (ins_insert_adjpositions _ _ _ _ _ H9) as [A9 _]. oc_facts.
  assert (lexid = next_rowid (get_table d "lexicons")) as <- by (rewrite Hlex; tbl_eq "lexicons"; reflexivity).
  assert (App "adjpositions" d d' (flat_map (adjposition_rows d8 lexid []) (_entries L))) as HA.
  { unfold App in *. tbl_eq "adjpositions". rewrite A9. tbl_eq "adjpositions". reflexivity. }
  destruct (App_new_in _ _ _ _ _ HA Hr) as [Hin (k0 & vs & -> & Hvs)].
  apply in_flat_map in Hvs. destruct Hvs as [e [_ Hvs]]. unfold adjposition_rows in Hvs.
  apply in_flat_map in Hvs. destruct Hvs as [s [_ Hvs]].
  destruct (vtruthy (vgetk s "adjposition")); [|destruct Hvs]. destruct Hvs as [<-|[]].
  destruct (in_schema "adjpositions" eq_refl) as (cols & fks & uqs & Hsch).
  pose proof (Wf_cell_notnull _ _ _ _ _ _ Hwf' Hsch Hin) as Hnn. cbn [tl] in Hnn.
  apply adj_notnull in Hnn.
  change (sense_ref d8 lexid [] s) with (SENSE_QUERY d8 (pcell (preq s "id")) (CInt lexid)) in *.
  destruct (query_cell_cases d8 "senses"
              (fun r => sql_eq (cell_at (col_index "senses" "id") r) (as_text (pcell (preq s "id")))
                        && sql_eq (cell_at (col_index "senses" "lexicon_rowid") r) (CInt lexid)))
    as [E|[n E]]; change (select_rowid d8 "senses" _) with (SENSE_QUERY d8 (pcell (preq s "id")) (CInt lexid)) in E;
    [contradiction|].
  eapply (via_parent d' lexid "adjpositions" "sense_rowid" "senses" _ n);
    [in_concrete|exact Hin|rewrite E; reflexivity|].
  eapply SENSE_QUERY_doomed. rewrite <- E. apply SENSE_QUERY_ext. tbl_eq "senses". reflexivity.
Qed.

Lemma B_sbsenses : forall nt L d d',
    add_one_lexicon nt L d = Ok d' -> vtruthy (vgetk L "extends") = false -> Wf d ->
    forall r, In r (new_rows "syntactic_behaviour_senses" d d') ->
              Doomed d' (next_rowid (get_table d "lexicons")) "syntactic_behaviour_senses" r.
Proof.
  intros nt L d d' H Hne Hwf r Hr. pose proof (Wf_add_one_lexicon _ _ _ _ Hwf H) as Hwf'.
  one_inv H.
  destruct (app_insert_lexicon _ _ _ _ _ H2) as [_ Hlex].
  pose proof (insert_lexicon_nonext _ _ _ _ _ H2 Hne) as ->.
  apply build_lexid_map_same in Hm. subst m.
  destruct (ins_insert_syntactic_behaviours _ _ _ _ _ H11) as (_ & A11 & _). oc_facts.
  assert (lexid = next_rowid (get_table d "lexicons")) as <- by (rewrite Hlex; tbl_eq "lexicons"; reflexivity).
  assert (App "syntactic_behaviour_senses" d d' (flat_map (sbs_rows d11 lexid []) (framemap_of sb))) as HA.
  { unfold App in *. tbl_eq "syntactic_behaviour_senses". rewrite A11.
    tbl_eq "syntactic_behaviour_senses". reflexivity. }
  destruct (App_new_in _ _ _ _ _ HA Hr) as [Hin (k0 & vs & -> & Hvs)].
  apply in_flat_map in Hvs. destruct Hvs as [[fr sids] [_ Hvs]]. unfold sbs_rows in Hvs. cbn [fst snd] in Hvs.
  apply in_map_iff in Hvs. destruct Hvs as [sid [<- _]].
  destruct (in_schema "syntactic_behaviour_senses" eq_refl) as (cols & fks & uqs & Hsch).
  pose proof (Wf_cell_notnull _ _ _ _ _ _ Hwf' Hsch Hin) as Hnn. cbn [tl] in Hnn.
  unfold sbs_row in *.
  change (lexidmap_get [] sid lexid) with (CInt lexid) in *.
  apply sbs_notnull in Hnn.
  destruct (query_cell_cases d11 "senses"
              (fun r => sql_eq (cell_at (col_index "senses" "id") r) (as_text (pcell (param sid)))
                        && sql_eq (cell_at (col_index "senses" "lexicon_rowid") r) (CInt lexid)))
    as [E|[n E]]; change (select_rowid d11 "senses" _) with (SENSE_QUERY d11 (pcell (param sid)) (CInt lexid)) in E;
    [contradiction|].
  eapply (via_parent d' lexid "syntactic_behaviour_senses" "sense_rowid" "senses" _ n);
    [in_concrete|exact Hin| |].
  - change (cell_at (col_index "syntactic_behaviour_senses" "sense_rowid")
                    (CInt k0 :: coerce_all (data_columns "syntactic_behaviour_senses")
                       [sb_lookup d11 lexid fr; SENSE_QUERY d11 (pcell (param sid)) (CInt lexid)]))
      with (coerce "INTEGER" (SENSE_QUERY d11 (pcell (param sid)) (CInt lexid))).
    rewrite coerce_int_id. exact E.
  - eapply SENSE_QUERY_doomed. rewrite <- E. apply SENSE_QUERY_ext. tbl_eq "senses". reflexivity.
Qed.

(* ---------- pronunciations and tags: every new row hangs below a form of the new lexicon ---------- *)
Definition Rq (t : string) (Q : db -> list cell -> Prop) (d d' : db) : Prop :=
  exists vss, Ins t d d' vss /\ Forall (Q d) vss.
Definition Qinv (t : string) (Q : db -> list cell -> Prop) : Prop :=
  forall d0 d1 vs, (forall t', t' <> t -> get_table d1 t' = get_table d0 t') -> Q d1 vs -> Q d0 vs.
Lemma Rq_refl : forall t Q d, Rq t Q d d.
Proof. intros. exists []. split; [apply Ins_nil|constructor]. Qed.
Lemma Rq_trans : forall t Q, Qinv t Q -> forall a b c, Rq t Q a b -> Rq t Q b c -> Rq t Q a c.
Proof.
  intros t Q Hinv a b c (v1 & I1 & F1) (v2 & I2 & F2). exists (v1 ++ v2)%list.
  split; [eapply Ins_app; eassumption|]. apply Forall_app. split; [exact F1|].
  rewrite Forall_forall in *. intros vs Hvs. apply (Hinv a b); [apply I1|apply F2; exact Hvs].
Qed.
Lemma Rq_insert : forall t (Q : db -> list cell -> Prop) d vals d',
    insert d t vals = Ok d' -> Q d (coerce_all (data_columns t) vals) -> Rq t Q d d'.
Proof.
  intros t Q d vals d' H HQ. eexists. split; [apply Ins_insert; exact H|]. constructor; [exact HQ|constructor].
Qed.

Lemma FORM_QUERY_ext : forall d d' a b c e,
    get_table d' "entries" = get_table d "entries" -> get_table d' "forms" = get_table d "forms" ->
    FORM_QUERY d' a b c e = FORM_QUERY d a b c e.
Proof. intros d d' a b c e H1 H2. unfold FORM_QUERY, select_rows. rewrite H1, H2. reflexivity. Qed.

(* the first data cell is a form looked up below an entry of lexicon lexid *)
Definition Qform (lexid : Z) (d : db) (vs : list cell) : Prop :=
  exists a c e, cell_at 1 (CInt 0 :: vs) = FORM_QUERY d a (CInt lexid) c e.
Lemma Qform_inv : forall t lexid, t <> "entries" -> t <> "forms" -> Qinv t (Qform lexid).
Proof.
  intros t lexid H1 H2 d0 d1 vs Ho (a & c & e & E). exists a, c, e. rewrite E.
  apply FORM_QUERY_ext; apply Ho; congruence.
Qed.

Lemma rq_insert_pronunciation : forall lexid eidc fid rank d p d',
    insert_pronunciation eidc (CInt lexid) fid rank d p = Ok d' -> Rq "pronunciations" (Qform lexid) d d'.
Proof.
  intros lexid eidc fid rank d p d' H. unfold insert_pronunciation in H. repeat mstep.
  eapply Rq_insert; [exact H|]. exists eidc, fid, rank.
  match goal with |- cell_at 1 (CInt 0 :: coerce_all _ (?q :: _)) = _ =>
    transitivity (coerce "INTEGER" q); [reflexivity|apply coerce_int_id] end.
Qed.
Lemma rq_insert_tag : forall lexid eidc fid rank d p d',
    insert_tag eidc (CInt lexid) fid rank d p = Ok d' -> Rq "tags" (Qform lexid) d d'.
Proof.
  intros lexid eidc fid rank d p d' H. unfold insert_tag in H. repeat mstep.
  eapply Rq_insert; [exact H|]. exists eidc, fid, rank.
  match goal with |- cell_at 1 (CInt 0 :: coerce_all _ (?q :: _)) = _ =>
    transitivity (coerce "INTEGER" q); [reflexivity|apply coerce_int_id] end.
Qed.

Lemma rq_insert_pronunciations : forall entries lexid d d',
    _insert_pronunciations entries lexid [] d = Ok d' -> Rq "pronunciations" (Qform lexid) d d'.
Proof.
  intros entries lexid d d' H. unfold _insert_pronunciations in H.
  assert (Qinv "pronunciations" (Qform lexid)) as Hinv by (apply Qform_inv; discriminate).
  revert H. apply foldM_rel; [apply Rq_refl|apply Rq_trans; exact Hinv|].
  intros s b s' Hb. revert Hb. apply foldM_rel; [apply Rq_refl|apply Rq_trans; exact Hinv|].
  intros s0 e s1 He. cbv beta in He.
  apply bind_ok in He. destruct He as [eid [_ He]]. apply bind_ok in He. destruct He as [eidc [_ He]].
  change (lexidmap_get [] eid lexid) with (CInt lexid) in He.
  apply bind_ok in He. destruct He as [s2 [Hl Hf]].
  apply (Rq_trans _ _ Hinv _ s2).
  - destruct (vtruthy (vgetk e "lemma")); [|injection Hl as <-; apply Rq_refl].
    revert Hl. apply foldM_rel; [apply Rq_refl|apply Rq_trans; exact Hinv|].
    intros a p b0 Hp. eapply rq_insert_pronunciation. exact Hp.
  - revert Hf. apply foldM_rel; [apply Rq_refl|apply Rq_trans; exact Hinv|].
    intros a [i f] b0 Hp. cbv beta iota in Hp. apply bind_ok in Hp. destruct Hp as [fid [_ Hp]].
    revert Hp. apply foldM_rel; [apply Rq_refl|apply Rq_trans; exact Hinv|].
    intros a1 p b1 Hp. eapply rq_insert_pronunciation. exact Hp.
Qed.
Lemma rq_insert_tags : forall entries lexid d d',
    _insert_tags entries lexid [] d = Ok d' -> Rq "tags" (Qform lexid) d d'.
Proof.
  intros entries lexid d d' H. unfold _insert_tags in H.
  assert (Qinv "tags" (Qform lexid)) as Hinv by (apply Qform_inv; discriminate).
  revert H. apply foldM_rel; [apply Rq_refl|apply Rq_trans; exact Hinv|].
  intros s b s' Hb. revert Hb. apply foldM_rel; [apply Rq_refl|apply Rq_trans; exact Hinv|].
  intros s0 e s1 He. cbv beta in He.
  apply bind_ok in He. destruct He as [eid [_ He]]. apply bind_ok in He. destruct He as [eidc [_ He]].
  change (lexidmap_get [] eid lexid) with (CInt lexid) in He.
  apply bind_ok in He. destruct He as [s2 [Hl Hf]].
  apply (Rq_trans _ _ Hinv _ s2).
  - destruct (vtruthy (vgetk e "lemma")); [|injection Hl as <-; apply Rq_refl].
    revert Hl. apply foldM_rel; [apply Rq_refl|apply Rq_trans; exact Hinv|].
    intros a p b0 Hp. eapply rq_insert_tag. exact Hp.
  - revert Hf. apply foldM_rel; [apply Rq_refl|apply Rq_trans; exact Hinv|].
    intros a [i f] b0 Hp. cbv beta iota in Hp. apply bind_ok in Hp. destruct Hp as [fid [_ Hp]].
    revert Hp. apply foldM_rel; [apply Rq_refl|apply Rq_trans; exact Hinv|].
    intros a1 p b1 Hp. eapply rq_insert_tag. exact Hp.
Qed.

Lemma FORM_QUERY_cases : forall d a b c e, FORM_QUERY d a b c e = CNull \/ exists f, FORM_QUERY d a b c e = CInt f.
Proof.
  intros. unfold FORM_QUERY. cbv zeta.
  match goal with |- context [match ?l with _ => _ end] => destruct l end; [left; reflexivity|right; eauto].
Qed.
Lemma FORM_QUERY_doomed : forall d' lexid a c e f,
    FORM_QUERY d' a (CInt lexid) c e = CInt f -> doomed d' (roots_of [lexid]) "forms" f.
Proof.
  intros d' lexid a c e f H. unfold FORM_QUERY in H. cbv zeta in H.
  match type of H with match ?l with _ => _ end = _ => destruct l as [|fr l'] eqn:El end; [discriminate|].
  injection H as <-.
  assert (In fr (fr :: l')) as Hin by (left; reflexivity). rewrite <- El in Hin.
  apply in_flat_map in Hin. destruct Hin as [erid [Her Hfr]].
  apply filter_In in Hfr. destruct Hfr as [Hfr Hp]. apply andb_true_iff in Hp. destruct Hp as [Hp _].
  apply sql_eq_int in Hp.
  apply in_map_iff in Her. destruct Her as [er [<- Her]]. unfold select_rows in Her.
  apply filter_In in Her. destruct Her as [Her Hq]. apply andb_true_iff in Hq. destruct Hq as [_ Hq].
  apply sql_eq_int in Hq.
  eapply doomed_step with (p := "entries") (c := "entry_rowid"); [|in_concrete|exact Hfr|exact Hp].
  apply lexrow_doomed; [ref_lex|exact Her|exact Hq].
Qed.

Lemma first_notnull : forall t vs,
    (exists c ty rest, data_columns t = (c, ty, true, false) :: rest) ->
    row_checks_ok t (data_columns t) vs = true -> cell_at 0 vs <> CNull.
Proof.
  intros t vs (c & ty & rest & E) H. rewrite E in H. destruct vs as [|v vs]; [discriminate|].
  simpl in H. destruct v; simpl in H; try discriminate; intro E'; discriminate.
Qed.

Lemma B_form_children : forall nt L d d' t,
    add_one_lexicon nt L d = Ok d' -> vtruthy (vgetk L "extends") = false -> Wf d ->
    t = "pronunciations" \/ t = "tags" ->
    forall r, In r (new_rows t d d') -> Doomed d' (next_rowid (get_table d "lexicons")) t r.
Proof.
  intros nt L d d' t H Hne Hwf Ht r Hr. pose proof (Wf_add_one_lexicon _ _ _ _ Hwf H) as Hwf'.
  one_inv H.
  destruct (app_insert_lexicon _ _ _ _ _ H2) as [_ Hlex].
  pose proof (insert_lexicon_nonext _ _ _ _ _ H2 Hne) as ->.
  apply build_lexid_map_same in Hm. subst m.
  assert (exists da db0 vss, Ins t da db0 vss /\ Forall (Qform lexid da) vss
                             /\ ((t = "pronunciations" /\ da = d5 /\ db0 = d6) \/ (t = "tags" /\ da = d6 /\ db0 = d7)))
    as (da & db0 & vss & HI & HQ & Hwhich).
  { destruct Ht as [-> | ->].
    - destruct (rq_insert_pronunciations _ _ _ _ H6) as (vss & HI & HQ).
      exists d5, d6, vss. split; [exact HI|]. split; [exact HQ|]. left. auto.
    - destruct (rq_insert_tags _ _ _ _ H7) as (vss & HI & HQ).
      exists d6, d7, vss. split; [exact HI|]. split; [exact HQ|]. right. auto. }
  oc_facts.
  assert (lexid = next_rowid (get_table d "lexicons")) as <- by (rewrite Hlex; tbl_eq "lexicons"; reflexivity).
  destruct HI as [HA _].
  assert (App t d d' vss /\ get_table d' "entries" = get_table da "entries"
          /\ get_table d' "forms" = get_table da "forms") as (HA' & Ee & Ef).
  { destruct Hwhich as [(-> & -> & ->)|(-> & -> & ->)].
    - split; [unfold App in *; tbl_eq "pronunciations"; rewrite HA; tbl_eq "pronunciations"; reflexivity|].
      split; [tbl_eq "entries"|tbl_eq "forms"]; reflexivity.
    - split; [unfold App in *; tbl_eq "tags"; rewrite HA; tbl_eq "tags"; reflexivity|].
      split; [tbl_eq "entries"|tbl_eq "forms"]; reflexivity. }
  destruct (App_new_in _ _ _ _ _ HA' Hr) as [Hin (k0 & vs & -> & Hvs)].
  rewrite Forall_forall in HQ. destruct (HQ vs Hvs) as (a & c & e & E).
  change (cell_at 1 (CInt 0 :: vs)) with (cell_at 0 vs) in E.
  assert (cell_at 0 vs <> CNull) as Hnn.
  { assert (exists cols fks uqs, In (t, cols, fks, uqs) schema) as (cols & fks & uqs & Hsch)
        by (destruct Ht as [-> | ->]; apply in_schema; reflexivity).
    pose proof (Wf_cell_notnull _ _ _ _ _ _ Hwf' Hsch Hin) as Hc. cbn [tl] in Hc.
    apply (first_notnull t); [|exact Hc]. destruct Ht as [-> | ->]; eexists _, _, _; reflexivity. }
  destruct (FORM_QUERY_cases da a (CInt lexid) c e) as [E0|[f E0]]; [rewrite E0 in E; contradiction|].
  assert (In (t, "form_rowid", "CASCADE") (referencing "forms")) as Href
      by (destruct Ht as [-> | ->]; in_concrete).
  eapply (via_parent d' lexid t "form_rowid" "forms" _ f); [exact Href|exact Hin| |].
  - assert (col_index t "form_rowid" = 1%nat) as -> by (destruct Ht as [-> | ->]; reflexivity).
    change (cell_at 1 (CInt k0 :: vs)) with (cell_at 0 vs). rewrite E. exact E0.
  - eapply FORM_QUERY_doomed. rewrite <- E0. apply FORM_QUERY_ext; assumption.
Qed.

(* ---------- lexicon_dependencies and lexicon_extensions ---------- *)
(* the dependency rows that the new lexicon resolves: provider_id / provider_version match *)
Definition dep_match (idc vc : cell) (r : row) : bool :=
  sql_eq (cell_at (col_index "lexicon_dependencies" "provider_id") r) (as_text idc)
  && sql_eq (cell_at (col_index "lexicon_dependencies" "provider_version") r) (as_text vc).
Definition dep_resolve (idc vc : cell) (lexid : Z) (r : row) : row :=
  if dep_match idc vc r then set_nth prov_idx (CInt lexid) r else r.

Definition Qdep (lexid : Z) (_ : db) (vs : list cell) : Prop := cell_at 1 (CInt 0 :: vs) = CInt lexid.
Lemma Qdep_inv : forall t lexid, Qinv t (Qdep lexid).
Proof. intros t lexid d0 d1 vs _ H. exact H. Qed.

Lemma insert_lexicon_deps : forall L d d' lexid extid,
    _insert_lexicon L d = Ok (d', lexid, extid) -> vtruthy (vgetk L "extends") = false ->
    get_table d' "lexicon_extensions" = get_table d "lexicon_extensions"
    /\ exists idc vc news,
        preq L "id" = Ok idc /\ preq L "version" = Ok vc
        /\ get_table d' "lexicon_dependencies"
           = (map (dep_resolve idc vc lexid) (get_table d "lexicon_dependencies") ++ news)%list
        /\ forall r, In r news -> cell_at 1 r = CInt lexid.
Proof.
  intros L d d' lexid extid H Hne. unfold _insert_lexicon in H.
  apply bind_ok in H. destruct H as [idc [Hid H]].
  do 4 (apply bind_ok in H; destruct H as [? [_ H]]).
  apply bind_ok in H. destruct H as [vc [Hv H]].
  do 4 (apply bind_ok in H; destruct H as [? [_ H]]).
  apply bind_ok in H. destruct H as [[d1 lexid1] [Hins H]]. cbv beta iota zeta in H.
  apply bind_ok in H. destruct H as [d2 [Hupd H]]. apply bind_ok in H. destruct H as [d3 [Hdeps H]].
  rewrite Hne in H. injection H as <- <- <-.
  apply insert_rowid_inv in Hins. destruct Hins as [-> ->].
  set (lexid := next_rowid (get_table d "lexicons")) in *.
  set (d1 := set_table d "lexicons" _) in *.
  (* the update *)
  unfold update in Hupd. apply bind_ok in Hupd. destruct Hupd as [rows [Hu Hd2]]. injection Hd2 as <-.
  apply update_go_map in Hu. destruct Hu as [-> _]. cbn [rev app] in *.
  (* the new dependency rows *)
  match type of Hdeps with foldM _ _ ?x = _ => set (d2 := x) in * end.
  assert (Rq "lexicon_dependencies" (Qdep lexid) d2 d3) as (vss & [HA HO] & HQ).
  { revert Hdeps. apply foldM_rel; [apply Rq_refl|apply Rq_trans; apply Qdep_inv|].
    intros s dep s' Hs. unfold insert_lexicon_link in Hs. repeat mstep.
    eapply Rq_insert; [exact Hs|]. reflexivity. }
  split.
  - rewrite HO by discriminate. unfold d2. rewrite get_set_other by discriminate.
    unfold d1. apply get_set_other. discriminate.
  - exists idc, vc, (number_from (next_rowid (get_table d2 "lexicon_dependencies")) vss).
    split; [exact Hid|]. split; [exact Hv|]. split.
    + unfold App in HA. rewrite HA. unfold d2 at 1. rewrite get_set_same. f_equal.
      unfold d1. rewrite get_set_other by discriminate. apply map_ext. intro r.
      unfold dep_resolve, dep_match.
      destruct (sql_eq _ _ && sql_eq _ _); [apply apply_sets_prov|reflexivity].
    + intros r Hr. apply in_number_from_inv in Hr. destruct Hr as (k0 & vs & -> & Hvs).
      rewrite Forall_forall in HQ. exact (HQ vs Hvs).
Qed.

(* ====================================================================== *)
(* Part 4 — removing the lexicon that was just added                       *)
(* ====================================================================== *)
Lemma row_nulls_mono : forall (P Q : string -> Z -> Prop) t r' r,
    (forall p n, P p n -> Q p n) -> row_nulls P t r' r -> row_nulls Q t r' r.
Proof.
  intros P Q t r' r HPQ H. induction H as [r|r1 r i c p pc cols fks uqs n H1 IH Hin Hfk Hi Hc HP].
  - apply rn_refl.
  - eapply rn_step; try eassumption. apply HPQ. exact HP.
Qed.
Lemma tbl_sub_mono : forall (P Q : string -> Z -> Prop) t l' l,
    (forall p n, P p n -> Q p n) -> tbl_sub P t l' l -> tbl_sub Q t l' l.
Proof.
  intros P Q t l' l HPQ H. induction H as [|r l' l H IH|r' r l' l Hr H IH].
  - constructor.
  - apply ts_skip. exact IH.
  - apply ts_keep; [eapply row_nulls_mono; eassumption|exact IH].
Qed.

(* the SET NULL foreign keys of the schema *)
Lemma setnull_only : forall t cols fks uqs c p pc,
    In (t, cols, fks, uqs) schema -> In (c, p, pc, "SET NULL") fks ->
    (t = "lexicon_dependencies" /\ c = "provider_rowid" /\ p = "lexicons")
    \/ (t = "definitions" /\ c = "sense_rowid" /\ p = "senses").
Proof.
  intros t cols fks uqs c p pc Hin Hfk.
  assert (forallb (fun e : string * columns_t * fkeys_t * uniques_t =>
            let '(t, _, fks, _) := e in
            forallb (fun fk : string * string * string * string =>
                       let '(c, p, _, a) := fk in
                       negb (String.eqb a "SET NULL")
                       || (String.eqb t "lexicon_dependencies" && String.eqb c "provider_rowid" && String.eqb p "lexicons")
                       || (String.eqb t "definitions" && String.eqb c "sense_rowid" && String.eqb p "senses")) fks)
            schema = true) as Hs by (vm_compute; reflexivity).
  rewrite forallb_forall in Hs. specialize (Hs _ Hin). cbv beta iota in Hs.
  rewrite forallb_forall in Hs. specialize (Hs _ Hfk). cbv beta iota in Hs. simpl negb in Hs.
  apply orb_true_iff in Hs. destruct Hs as [Hs|Hs]; [simpl in Hs|].
  - apply andb_true_iff in Hs. destruct Hs as [Hs H3]. apply andb_true_iff in Hs. destruct Hs as [H1 H2].
    left. apply String.eqb_eq in H1, H2, H3. auto.
  - apply andb_true_iff in Hs. destruct Hs as [Hs H3]. apply andb_true_iff in Hs. destruct Hs as [H1 H2].
    right. apply String.eqb_eq in H1, H2, H3. auto.
Qed.

(* if a row was changed at all, the first change nulled a cell of it that referred to a P row *)
Lemma nulls_first : forall (P : string -> Z -> Prop) t r' r,
    row_nulls P t r' r ->
    r' = r \/ exists c p pc cols fks uqs n,
                In (t, cols, fks, uqs) schema /\ In (c, p, pc, "SET NULL") fks
                /\ cell_at (col_index t c) r = CInt n /\ P p n.
Proof.
  intros P t r' r H. induction H as [r|r1 r i c p pc cols fks uqs n H1 IH Hin Hfk Hi Hc HP].
  - left. reflexivity.
  - right. destruct IH as [->|IH]; [|exact IH]. subst i. exists c, p, pc, cols, fks, uqs, n. auto.
Qed.

Lemma cell_at_set_nth_null : forall i r, cell_at i (set_nth i CNull r) = CNull.
Proof.
  intros i r. destruct (cell_at_set_nth_cases i CNull r) as [E|E]; [exact E|].
  destruct (Nat.lt_ge_cases i (List.length r)) as [Hl|Hl].
  - apply cell_at_set_nth_same. exact Hl.
  - rewrite E. unfold cell_at. apply nth_overflow. exact Hl.
Qed.
(* lexicon_dependencies: the only possible change is the nulling of provider_rowid *)
Lemma nulls_deps : forall (P : string -> Z -> Prop) r' r,
    row_nulls P "lexicon_dependencies" r' r ->
    r' = r \/ (r' = set_nth prov_idx CNull r /\ exists n, cell_at prov_idx r = CInt n /\ P "lexicons" n).
Proof.
  intros P r' r H. induction H as [r|r1 r i c p pc cols fks uqs n H1 IH Hin Hfk Hi Hc HP].
  - left. reflexivity.
  - destruct (setnull_only _ _ _ _ _ _ _ Hin Hfk) as [(_ & -> & ->)|(E & _)]; [|discriminate].
    change (col_index "lexicon_dependencies" "provider_rowid") with prov_idx in Hi. subst i.
    right. destruct IH as [->|[-> _]].
    + split; [reflexivity|]. exists n. split; assumption.
    + rewrite cell_at_set_nth_null in Hc. discriminate.
Qed.

Lemma NoDup_nodup_zb : forall l, NoDup l -> nodup_zb l = true.
Proof.
  intros l H. induction H as [|x l Hx Hl IH]; [reflexivity|]. simpl. rewrite IH, andb_true_r.
  apply negb_true_iff. destruct (zmem_z x l) eqn:E; [|reflexivity]. apply zmem_z_In in E. contradiction.
Qed.
Lemma rowids_ok_b : forall d, rowids_ok d -> db_rowids_ok d = true.
Proof.
  intros d H. unfold db_rowids_ok. rewrite forallb_forall. intros [[[t cols] fks] uqs] Hin. cbn [fst].
  apply NoDup_nodup_zb. eapply H. exact Hin.
Qed.
Lemma delete_row_seq : forall d rid d', delete_row delete_fuel d "lexicons" rid = Ok d' -> delete_seq d [rid] = Ok d'.
Proof. intros d rid d' H. unfold delete_seq. simpl. rewrite H. reflexivity. Qed.

(* the generic step: for a table whose new rows are all reached, what is left of it after the
   removal is the list of its old rows, each possibly with nulled SET NULL cells *)
Lemma restore_rows : forall d d' d'' lexid t cols fks uqs,
    db_ext d d' -> fk_ok d = true -> fk_ok d' = true -> Wf d' ->
    lexid = next_rowid (get_table d "lexicons") ->
    delete_row delete_fuel d' "lexicons" lexid = Ok d'' ->
    In (t, cols, fks, uqs) schema ->
    (forall r, In r (new_rows t d d') -> Doomed d' lexid t r) ->
    exists olds, get_table d' t = (olds ++ new_rows t d d')%list
                 /\ Forall2 (row_upd t) (get_table d t) olds
                 /\ Forall2 (row_nulls (doomed d' (roots_of [lexid])) t) (get_table d'' t) olds.
Proof.
  intros d d' d'' lexid t cols fks uqs Hext Hok Hok' [Hrid Hnn] Hlex Hdel Hsch HB.
  destruct (tbl_ext_new_rows t d d' (Hext t)) as (olds & E & F & Hfresh).
  exists olds. split; [exact E|]. split; [exact F|].
  pose proof (delete_row_seq _ _ _ Hdel) as Hseq.
  assert (tbl_sub (doomed d' (roots_of [lexid])) t (get_table d'' t) (olds ++ new_rows t d d')%list) as Hsub.
  { rewrite <- E. eapply tbl_sub_mono; [|apply (delete_row_struct _ _ _ _ _ Hdel t)].
    intros p n Hd. eapply doomed_mono; [|exact Hd]. intros t0 n0 [-> ->]. split; [reflexivity|left; reflexivity]. }
  apply (tbl_sub_exact _ _ _ _ _ Hsub).
  - rewrite <- E. eapply Hrid. exact Hsch.
  - intros r Hr.
    assert (In r (get_table d' t)) as Hin by (rewrite E; apply in_or_app; left; exact Hr).
    destruct (delete_seq_frame [lexid] d' d'' t r Hseq (Hrid _ _ _ _ Hsch) Hin) as [r'' [Hr'' [L0 _]]].
    + intro Hd. apply (old_not_doomed d d' lexid Hext Hok Hlex t _ Hd).
      destruct (Forall2_in_r _ _ _ _ F Hr) as [r0 [Hr0 Hu]]. rewrite (row_upd_rowid _ _ _ Hu).
      apply in_map. exact Hr0.
    + rewrite <- L0. apply in_map. exact Hr''.
  - intros r Hr. apply (delete_seq_doomed_gone [lexid] d' d'' Hok' (rowids_ok_b _ Hrid) Hseq). apply HB. exact Hr.
Qed.

Lemma Forall2_eq : forall {T} (l l' : list T), Forall2 eq l l' -> l = l'.
Proof. intros T l l' H. induction H; [reflexivity|congruence]. Qed.
Lemma Forall2_impl_in : forall {A B} (R S : A -> B -> Prop) l l',
    (forall a b, In a l -> In b l' -> R a b -> S a b) -> Forall2 R l l' -> Forall2 S l l'.
Proof.
  intros A B R S l l' H F. induction F as [|a b l l' Hab F IH]; constructor.
  - apply H; [left; reflexivity|left; reflexivity|exact Hab].
  - apply IH. intros x y Hx Hy. apply H; right; assumption.
Qed.

(* an old row that is not a dependency row is restored exactly: a nulled cell would have
   referred to a reached row, but the rows it referred to in d are not reached *)
Lemma old_row_unchanged : forall d d' lexid t cols fks uqs r r'',
    db_ext d d' -> fk_ok d = true -> lexid = next_rowid (get_table d "lexicons") ->
    In (t, cols, fks, uqs) schema -> In r (get_table d t) ->
    row_nulls (doomed d' (roots_of [lexid])) t r'' r -> r'' = r.
Proof.
  intros d d' lexid t cols fks uqs r r'' Hext Hok Hlex Hsch Hr Hn.
  destruct (nulls_first _ _ _ _ Hn) as [E|(c & p & pc & cols1 & fks1 & uqs1 & n & Hin & Hfk & Hc & HP)]; [exact E|].
  exfalso. apply (old_not_doomed d d' lexid Hext Hok Hlex p n HP).
  rewrite fk_ok_iff in Hok. specialize (Hok _ _ _ _ Hin _ _ _ _ Hfk r Hr). unfold col in Hok.
  rewrite Hc in Hok. simpl in Hok. apply zmem_z_In. exact Hok.
Qed.

Lemma restore_table_plain : forall d d' d'' lexid t cols fks uqs,
    db_ext d d' -> fk_ok d = true -> fk_ok d' = true -> Wf d' ->
    lexid = next_rowid (get_table d "lexicons") ->
    delete_row delete_fuel d' "lexicons" lexid = Ok d'' ->
    In (t, cols, fks, uqs) schema -> t <> "lexicon_dependencies" ->
    (forall r, In r (new_rows t d d') -> Doomed d' lexid t r) ->
    get_table d'' t = get_table d t.
Proof.
  intros d d' d'' lexid t cols fks uqs Hext Hok Hok' Hwf Hlex Hdel Hsch Hne HB.
  destruct (restore_rows d d' d'' lexid t cols fks uqs Hext Hok Hok' Hwf Hlex Hdel Hsch HB)
    as (olds & _ & F & Fn).
  assert (olds = get_table d t) as ->.
  { symmetry. apply Forall2_eq. eapply Forall2_impl_in; [|exact F].
    intros a b _ _ [E|[E _]]; [symmetry; exact E|contradiction]. }
  apply Forall2_eq. eapply Forall2_impl_in; [|exact Fn].
  intros r'' r _ Hr Hn. eapply old_row_unchanged; eassumption.
Qed.

(* ---------- lexicon_dependencies ---------- *)
(* a resolved dependency points to the lexicon with the provider id and version *)
Definition deps_ok (d : db) : bool :=
  forallb (fun r =>
             match cell_at prov_idx r with
             | CNull => true
             | CInt n =>
                 existsb (fun l => Z.eqb (rowid_of l) n
                                   && sql_eq (cell_at (col_index "lexicons" "id") l)
                                             (cell_at (col_index "lexicon_dependencies" "provider_id") r)
                                   && sql_eq (cell_at (col_index "lexicons" "version") l)
                                             (cell_at (col_index "lexicon_dependencies" "provider_version") r))
                         (get_table d "lexicons")
             | _ => false
             end)
          (get_table d "lexicon_dependencies").

Lemma sql_eq_trans : forall a b c, sql_eq a b = true -> sql_eq b c = true -> sql_eq a c = true.
Proof.
  intros a b c H1 H2. destruct a, b; simpl in H1; try discriminate; destruct c; simpl in H2; try discriminate; simpl.
  - apply Z.eqb_eq in H1, H2. subst. apply Z.eqb_refl.
  - apply str_eqb_eq in H1, H2. subst. apply str_eqb_refl.
Qed.

Lemma matched_dep_null : forall d idc vc r0,
    deps_ok d = true -> is_null (LEXICON_QUERY d idc vc) = true ->
    In r0 (get_table d "lexicon_dependencies") -> dep_match idc vc r0 = true ->
    cell_at prov_idx r0 = CNull.
Proof.
  intros d idc vc r0 Hd Hq Hr Hm. unfold deps_ok in Hd. rewrite forallb_forall in Hd. specialize (Hd r0 Hr).
  destruct (cell_at prov_idx r0) as [|n|s|v]; try reflexivity; try discriminate. exfalso.
  apply existsb_exists in Hd. destruct Hd as [l [Hl Hp]].
  apply andb_true_iff in Hp. destruct Hp as [Hp Hv]. apply andb_true_iff in Hp. destruct Hp as [_ Hi].
  unfold dep_match in Hm. apply andb_true_iff in Hm. destruct Hm as [Hmi Hmv].
  unfold LEXICON_QUERY in Hq. cbv zeta in Hq. unfold select_rowid in Hq.
  match type of Hq with is_null (match find ?p ?T with _ => _ end) = true =>
    destruct (find p T) as [x|] eqn:Ef; [discriminate|pose proof (find_none _ _ Ef l Hl) as Hf] end.
  cbv beta in Hf. rewrite (sql_eq_trans _ _ _ Hi Hmi), (sql_eq_trans _ _ _ Hv Hmv) in Hf. discriminate.
Qed.

Lemma set_nth_overflow : forall i c (r : row), (List.length r <= i)%nat -> set_nth i c r = r.
Proof.
  induction i as [|i IH]; intros c r H; destruct r as [|x r]; simpl in *; try reflexivity; try lia.
  rewrite IH by lia. reflexivity.
Qed.

Lemma app_inv_len : forall {T} (a b c e : list T),
    (a ++ b = c ++ e)%list -> List.length a = List.length c -> a = c /\ b = e.
Proof.
  intros T a. induction a as [|x a IH]; intros b c e H Hl; destruct c as [|y c]; simpl in *; try discriminate.
  - split; [reflexivity|exact H].
  - injection H as -> H. destruct (IH _ _ _ H) as [-> ->]; [lia|]. split; reflexivity.
Qed.

Lemma Forall2_nil_r : forall {A B} (R : A -> B -> Prop) l, Forall2 R l [] -> l = [].
Proof. intros A B R l H. inversion H. reflexivity. Qed.
Lemma Forall2_nil_l : forall {A B} (R : A -> B -> Prop) l, Forall2 R [] l -> l = [].
Proof. intros A B R l H. inversion H. reflexivity. Qed.
Lemma Forall2_cons_inv : forall {A B} (R : A -> B -> Prop) x l y l',
    Forall2 R (x :: l) (y :: l') -> R x y /\ Forall2 R l l'.
Proof. intros A B R x l y l' H. inversion H. split; assumption. Qed.

Lemma restore_deps : forall d d' d'' lexid idc vc news,
    db_ext d d' -> fk_ok d = true -> fk_ok d' = true -> Wf d' ->
    lexid = next_rowid (get_table d "lexicons") ->
    delete_row delete_fuel d' "lexicons" lexid = Ok d'' ->
    deps_ok d = true -> is_null (LEXICON_QUERY d idc vc) = true ->
    get_table d' "lexicon_dependencies"
    = (map (dep_resolve idc vc lexid) (get_table d "lexicon_dependencies") ++ news)%list ->
    (forall r, In r news -> In r (get_table d' "lexicon_dependencies") -> cell_at 1 r = CInt lexid) ->
    get_table d'' "lexicon_dependencies" = get_table d "lexicon_dependencies".
Proof.
  intros d d' d'' lexid idc vc news Hext Hok Hok' Hwf Hlex Hdel Hdeps Hq Edeps Hnews.
  destruct (in_schema "lexicon_dependencies" eq_refl) as (cols & fks & uqs & Hsch).
  assert (new_rows "lexicon_dependencies" d d' = news) as Enew.
  { unfold new_rows. rewrite Edeps. rewrite <- (map_length (dep_resolve idc vc lexid)).
    rewrite skipn_app, skipn_all, Nat.sub_diag. reflexivity. }
  assert (forall r, In r (new_rows "lexicon_dependencies" d d') -> Doomed d' lexid "lexicon_dependencies" r) as HB.
  { intros r Hr. rewrite Enew in Hr.
    assert (In r (get_table d' "lexicon_dependencies")) as Hin by (rewrite Edeps; apply in_or_app; right; exact Hr).
    eapply (via_parent d' lexid "lexicon_dependencies" "dependent_rowid" "lexicons" r lexid);
      [in_concrete|exact Hin|exact (Hnews r Hr Hin)|apply root_doomed]. }
  destruct (restore_rows d d' d'' lexid _ cols fks uqs Hext Hok Hok' Hwf Hlex Hdel Hsch HB)
    as (olds & E & F & Fn).
  rewrite Enew, Edeps in E. apply app_inv_len in E; [|rewrite map_length; exact (Forall2_len _ _ _ F)].
  destruct E as [E _]. subst olds.
  pose proof (delete_row_seq _ _ _ Hdel) as Hseq.
  assert (norefer d'' "lexicon_dependencies" "provider_rowid" [lexid]) as Hnr.
  { eapply (delete_seq_norefer [lexid] d' d'' Hok' Hseq lexid (or_introl eq_refl)). in_concrete. }
  apply Forall2_eq.
  assert (forall l'' l, Forall2 (row_nulls (doomed d' (roots_of [lexid])) "lexicon_dependencies") l''
                                (map (dep_resolve idc vc lexid) l) ->
                        (forall x, In x l'' -> In x (get_table d'' "lexicon_dependencies")) ->
                        (forall x, In x l -> In x (get_table d "lexicon_dependencies")) ->
                        Forall2 eq l'' l) as Hgen.
  { intros l'' l. revert l''. induction l as [|r0 l IH]; intros l'' HF H1 H2.
    { apply Forall2_nil_r in HF. subst l''. constructor. }
    destruct l'' as [|x l'']; [apply Forall2_nil_l in HF; discriminate|].
    simpl in HF. apply Forall2_cons_inv in HF. destruct HF as [Hrn HF]. constructor.
    - (* one row *)
      assert (In r0 (get_table d "lexicon_dependencies")) as Hr0 by (apply H2; left; reflexivity).
      assert (In x (get_table d'' "lexicon_dependencies")) as Hx by (apply H1; left; reflexivity).
      unfold dep_resolve in Hrn. destruct (dep_match idc vc r0) eqn:Em.
      + pose proof (matched_dep_null d idc vc r0 Hdeps Hq Hr0 Em) as Hnull.
        destruct (Nat.lt_ge_cases prov_idx (List.length r0)) as [Hl|Hl].
        * destruct (nulls_deps _ _ _ Hrn) as [E|[E _]]; subst x.
          -- exfalso. specialize (Hnr _ Hx). unfold refers in Hnr.
             change (col_index "lexicon_dependencies" "provider_rowid") with prov_idx in Hnr.
             rewrite cell_at_set_nth_same in Hnr by exact Hl. simpl in Hnr. rewrite Z.eqb_refl in Hnr. discriminate.
          -- rewrite set_nth_set_nth_same. rewrite <- Hnull. apply set_nth_same_cell. exact Hl.
        * rewrite (set_nth_overflow _ _ _ Hl) in Hrn.
          destruct (nulls_deps _ _ _ Hrn) as [E|[E _]]; subst x; [reflexivity|apply set_nth_overflow; exact Hl].
      + eapply old_row_unchanged; eassumption.
    - apply IH; [assumption| |]; intros x0 Hx0; [apply H1|apply H2]; right; exact Hx0. }
  apply Hgen; [exact Fn|auto|auto].
Qed.

(* ---------- tables that the removal of a lexicon cannot touch ---------- *)
Definition only_no_action (t : string) : Prop :=
  forall p c a, In (t, c, a) (referencing p) -> a = "NO ACTION".
Lemma only_no_action_of : forall t,
    forallb (fun e : string * columns_t * fkeys_t * uniques_t =>
               let '(t0, _, fks, _) := e in
               negb (String.eqb t0 t)
               || forallb (fun fk : string * string * string * string =>
                             let '(_, _, _, a) := fk in String.eqb a "NO ACTION") fks) schema = true ->
    only_no_action t.
Proof.
  intros t Hs p c a H. apply referencing_iff in H. destruct H as (cols & fks & uqs & pc & Hin & Hfk).
  rewrite forallb_forall in Hs. specialize (Hs _ Hin). cbv beta iota in Hs.
  rewrite String.eqb_refl in Hs. simpl in Hs. rewrite forallb_forall in Hs. specialize (Hs _ Hfk).
  cbv beta iota in Hs. apply String.eqb_eq in Hs. exact Hs.
Qed.

Lemma untouched_by_delete : forall d' d'' rid t cols fks uqs,
    delete_row delete_fuel d' "lexicons" rid = Ok d'' -> Wf d' ->
    In (t, cols, fks, uqs) schema -> only_no_action t -> t <> "lexicons" ->
    get_table d'' t = get_table d' t.
Proof.
  intros d' d'' rid t cols fks uqs Hdel [Hrid _] Hsch Hna Hne.
  pose proof (delete_row_seq _ _ _ Hdel) as Hseq.
  assert (forall n, ~ doomed d' (roots_of [rid]) t n) as Hnd.
  { intros n Hd. inversion Hd as [t0 n0 [E _]|p m child c r Hp Href Hr Hc]; subst.
    - contradiction.
    - specialize (Hna _ _ _ Href). discriminate. }
  pose proof (delete_row_struct _ _ _ _ _ Hdel t) as Hsub.
  rewrite <- (app_nil_r (get_table d' t)) in Hsub.
  apply tbl_sub_exact in Hsub.
  - apply Forall2_eq. eapply Forall2_impl_in; [|exact Hsub]. intros r'' r _ Hr Hn.
    destruct (nulls_first _ _ _ _ Hn) as [E|(c & p & pc & cols1 & fks1 & uqs1 & n & Hin & Hfk & _)]; [exact E|].
    exfalso. assert (In (t, c, "SET NULL") (referencing p)) as Href
        by (apply referencing_iff; exists cols1, fks1, uqs1, pc; split; assumption).
    specialize (Hna _ _ _ Href). discriminate.
  - rewrite app_nil_r. eapply Hrid. exact Hsch.
  - intros r Hr.
    destruct (delete_seq_frame [rid] d' d'' t r Hseq (Hrid _ _ _ _ Hsch) Hr (Hnd _)) as [r'' [Hr'' [L0 _]]].
    rewrite <- L0. apply in_map. exact Hr''.
  - intros r [].
Qed.

Lemma lexicons_restored : forall d d' d'' row,
    App "lexicons" d d' [row] ->
    delete_row delete_fuel d' "lexicons" (next_rowid (get_table d "lexicons")) = Ok d'' ->
    get_table d'' "lexicons" = get_table d "lexicons".
Proof.
  intros d d' d'' row HA Hdel. rewrite (delete_row_lexicons _ _ _ _ Hdel). unfold App in HA. rewrite HA.
  rewrite filter_app. simpl. rewrite Z.eqb_refl. simpl. rewrite app_nil_r.
  apply filter_all. intros r Hr. pose proof (next_rowid_fresh _ _ Hr) as Hf.
  simpl. rewrite orb_false_r. apply negb_true_iff. apply Z.eqb_neq. lia.
Qed.

Definition content_tables : list string :=
  ["proposed_ilis"; "lexicons"; "lexicon_dependencies"; "lexicon_extensions"; "entries"; "forms";
   "pronunciations"; "tags"; "synsets"; "synset_relations"; "definitions"; "synset_examples"; "senses";
   "sense_relations"; "sense_synset_relations"; "adjpositions"; "sense_examples"; "counts";
   "syntactic_behaviours"; "syntactic_behaviour_senses"].
(* the lookup / inventory tables: their rows are shared between lexicons and survive a removal *)
Definition lookup_tables : list string := ["relation_types"; "ilis"; "ili_statuses"; "lexfiles"].
Example tables_partition :
  map (fun e : string * columns_t * fkeys_t * uniques_t => fst (fst (fst e))) schema
  = ["ilis"; "proposed_ilis"; "lexicons"; "lexicon_dependencies"; "lexicon_extensions"; "entries"; "forms";
     "pronunciations"; "tags"; "synsets"; "synset_relations"; "definitions"; "synset_examples"; "senses";
     "sense_relations"; "sense_synset_relations"; "adjpositions"; "sense_examples"; "counts";
     "syntactic_behaviours"; "syntactic_behaviour_senses"; "relation_types"; "ili_statuses"; "lexfiles"].
Proof. vm_compute. reflexivity. Qed.

(* ---------- (E1) for one lexicon: add, then DELETE its lexicons row ---------- *)
Theorem add_one_then_delete : forall nt L d d' d'' idc vc,
    add_one_lexicon nt L d = Ok d' ->
    vtruthy (vgetk L "extends") = false ->                         (* not an extension *)
    fk_ok d = true -> Wf d -> deps_ok d = true ->                  (* the database is well formed *)
    in_synsets_ok L = true ->
    preq L "id" = Ok idc -> preq L "version" = Ok vc ->
    is_null (LEXICON_QUERY d idc vc) = true ->                     (* (id, version) is not installed *)
    delete_row delete_fuel d' "lexicons" (next_rowid (get_table d "lexicons")) = Ok d'' ->
    (forall t, In t content_tables -> get_table d'' t = get_table d t)
    /\ (forall t, In t lookup_tables ->
                  get_table d'' t = get_table d' t
                  /\ exists X, get_table d' t = (get_table d t ++ X)%list).
Proof.
  intros nt L d d' d'' idc vc H Hne Hok Hwf Hdeps Hin_ok Hid Hv Hq Hdel.
  set (lx := next_rowid (get_table d "lexicons")) in *.
  pose proof (ext_add_one_lexicon _ _ _ _ H) as Hext.
  pose proof (inv_add_one_lexicon _ _ _ _ Hok H) as Hok'.
  pose proof (Wf_add_one_lexicon _ _ _ _ Hwf H) as Hwf'.
  assert (forall t cols fks uqs, In (t, cols, fks, uqs) schema -> t <> "lexicon_dependencies" ->
            (forall r, In r (new_rows t d d') -> Doomed d' lx t r) -> get_table d'' t = get_table d t) as Hplain.
  { intros t cols fks uqs Hsch Hnd HB.
    eapply (restore_table_plain d d' d'' lx t); try eassumption. reflexivity. }
  split.
  - intros t Ht. unfold content_tables in Ht. simpl in Ht.
    repeat (destruct Ht as [<-|Ht]); try contradiction.
    + destruct (in_schema "proposed_ilis" eq_refl) as (c & f & u & Hs).
      apply (Hplain _ _ _ _ Hs); [discriminate|]. eapply B_proposed; eassumption.
    + eapply lexicons_restored; [eapply one_lexicon_lexicons; exact H|exact Hdel].
    + (* lexicon_dependencies *)
      one_inv H. destruct (app_insert_lexicon _ _ _ _ _ H2) as [_ Hlex].
      destruct (insert_lexicon_deps _ _ _ _ _ H2 Hne) as (_ & idc' & vc' & news & Hid' & Hv' & Edeps & Hnews).
      rewrite Hid in Hid'. injection Hid' as <-. rewrite Hv in Hv'. injection Hv' as <-.
      oc_facts.
      assert (lexid = lx) as -> by (rewrite Hlex; unfold lx; tbl_eq "lexicons"; reflexivity).
      eapply (restore_deps d d' d'' lx idc vc news); try eassumption; try reflexivity.
      * tbl_eq "lexicon_dependencies". rewrite Edeps. tbl_eq "lexicon_dependencies". reflexivity.
      * intros r Hr _. apply Hnews. exact Hr.
    + (* lexicon_extensions: nothing is added *)
      destruct (in_schema "lexicon_extensions" eq_refl) as (c & f & u & Hs).
      apply (Hplain _ _ _ _ Hs); [discriminate|]. intros r Hr. exfalso.
      one_inv H. destruct (insert_lexicon_deps _ _ _ _ _ H2 Hne) as (Eext & _). oc_facts.
      unfold new_rows in Hr.
      assert (get_table d' "lexicon_extensions" = get_table d "lexicon_extensions") as E
          by (tbl_eq "lexicon_extensions"; rewrite Eext; tbl_eq "lexicon_extensions"; reflexivity).
      rewrite E, skipn_all in Hr. destruct Hr.
    + destruct (in_schema "entries" eq_refl) as (c & f & u & Hs).
      apply (Hplain _ _ _ _ Hs); [discriminate|]. eapply B_entries; eassumption.
    + destruct (in_schema "forms" eq_refl) as (c & f & u & Hs).
      apply (Hplain _ _ _ _ Hs); [discriminate|]. eapply B_forms; eassumption.
    + destruct (in_schema "pronunciations" eq_refl) as (c & f & u & Hs).
      apply (Hplain _ _ _ _ Hs); [discriminate|]. eapply B_form_children; try eassumption. left; reflexivity.
    + destruct (in_schema "tags" eq_refl) as (c & f & u & Hs).
      apply (Hplain _ _ _ _ Hs); [discriminate|]. eapply B_form_children; try eassumption. right; reflexivity.
    + destruct (in_schema "synsets" eq_refl) as (c & f & u & Hs).
      apply (Hplain _ _ _ _ Hs); [discriminate|]. eapply B_synsets; eassumption.
    + destruct (in_schema "synset_relations" eq_refl) as (c & f & u & Hs).
      apply (Hplain _ _ _ _ Hs); [discriminate|]. eapply B_children; [eassumption|simpl; tauto].
    + destruct (in_schema "definitions" eq_refl) as (c & f & u & Hs).
      apply (Hplain _ _ _ _ Hs); [discriminate|]. eapply B_children; [eassumption|simpl; tauto].
    + destruct (in_schema "synset_examples" eq_refl) as (c & f & u & Hs).
      apply (Hplain _ _ _ _ Hs); [discriminate|]. eapply B_children; [eassumption|simpl; tauto].
    + destruct (in_schema "senses" eq_refl) as (c & f & u & Hs).
      apply (Hplain _ _ _ _ Hs); [discriminate|]. eapply B_senses; eassumption.
    + destruct (in_schema "sense_relations" eq_refl) as (c & f & u & Hs).
      apply (Hplain _ _ _ _ Hs); [discriminate|]. eapply B_children; [eassumption|simpl; tauto].
    + destruct (in_schema "sense_synset_relations" eq_refl) as (c & f & u & Hs).
      apply (Hplain _ _ _ _ Hs); [discriminate|]. eapply B_children; [eassumption|simpl; tauto].
    + destruct (in_schema "adjpositions" eq_refl) as (c & f & u & Hs).
      apply (Hplain _ _ _ _ Hs); [discriminate|]. eapply B_adjpositions; eassumption.
    + destruct (in_schema "sense_examples" eq_refl) as (c & f & u & Hs).
      apply (Hplain _ _ _ _ Hs); [discriminate|]. eapply B_children; [eassumption|simpl; tauto].
    + destruct (in_schema "counts" eq_refl) as (c & f & u & Hs).
      apply (Hplain _ _ _ _ Hs); [discriminate|]. eapply B_children; [eassumption|simpl; tauto].
    + destruct (in_schema "syntactic_behaviours" eq_refl) as (c & f & u & Hs).
      apply (Hplain _ _ _ _ Hs); [discriminate|]. eapply B_children; [eassumption|simpl; tauto].
    + destruct (in_schema "syntactic_behaviour_senses" eq_refl) as (c & f & u & Hs).
      apply (Hplain _ _ _ _ Hs); [discriminate|]. eapply B_sbsenses; eassumption.
  - intros t Ht.
    assert (exists cols fks uqs, In (t, cols, fks, uqs) schema) as (c & f & u & Hs)
        by (unfold lookup_tables in Ht; simpl in Ht; repeat (destruct Ht as [<-|Ht]); try contradiction;
            apply in_schema; reflexivity).
    assert (only_no_action t) as Hna
        by (unfold lookup_tables in Ht; simpl in Ht; repeat (destruct Ht as [<-|Ht]); try contradiction;
            apply only_no_action_of; vm_compute; reflexivity).
    assert (t <> "lexicons" /\ t <> "lexicon_dependencies") as [Hn1 Hn2]
        by (unfold lookup_tables in Ht; simpl in Ht; repeat (destruct Ht as [<-|Ht]); try contradiction;
            split; discriminate).
    split; [eapply untouched_by_delete; eassumption|].
    destruct (tbl_ext_new_rows t d d' (Hext t)) as (olds & E & F & _). exists (new_rows t d d').
    rewrite E. f_equal. symmetry. apply Forall2_eq. eapply Forall2_impl_in; [|exact F].
    intros a b _ _ [E0|[E0 _]]; [symmetry; exact E0|contradiction].
Qed.

(* ====================================================================== *)
(* Part 5 — (E1) add_lexical_resource followed by remove                   *)
(* ====================================================================== *)
(* boolean well-formedness of the database *)
Definition notnull_okb (d : db) : bool :=
  forallb (fun e : string * columns_t * fkeys_t * uniques_t =>
             forallb (fun r => row_checks_ok (fst (fst (fst e))) (data_columns (fst (fst (fst e)))) (tl r))
                     (get_table d (fst (fst (fst e))))) schema.
Definition Wfb (d : db) : bool := db_rowids_ok d && notnull_okb d.
Lemma Wfb_Wf : forall d, Wfb d = true -> Wf d.
Proof.
  intros d H. apply andb_true_iff in H. destruct H as [H1 H2]. split.
  - intros t cols fks uqs Hin. eapply db_rowids_ok_NoDup; eassumption.
  - intros t cols fks uqs Hin r Hr. unfold notnull_okb in H2. rewrite forallb_forall in H2.
    specialize (H2 _ Hin). cbn [fst] in H2. rewrite forallb_forall in H2. exact (H2 r Hr).
Qed.

(* the specifier "id:version" without glob metacharacters *)
Definition spec_plain (p : str) : bool :=
  forallb (fun c => negb (Z.eqb c c_star) && negb (Z.eqb c c_qm) && negb (Z.eqb c c_lbr)) p.
Lemma glob_plain : forall p s, spec_plain p = true -> glob p s = str_eqb p s.
Proof.
  induction p as [|c p IH]; intros s H; simpl.
  - destruct s; reflexivity.
  - simpl in H. apply andb_true_iff in H. destruct H as [Hc Hp]. apply andb_true_iff in Hc.
    destruct Hc as [Hc H3]. apply andb_true_iff in Hc.
    destruct Hc as [H1 H2]. apply negb_true_iff in H1. apply negb_true_iff in H2. apply negb_true_iff in H3.
    rewrite H1. destruct s as [|x s]; [reflexivity|]. rewrite H2, H3. simpl. rewrite IH by exact Hp. reflexivity.
Qed.
(* no lexicon of d has this specifier string *)
Definition spec_unused (d : db) (spec : str) : bool :=
  forallb (fun l => negb (str_eqb spec (spec_of l))) (lexrows_of d).

Lemma select_one_plain : forall lexs spec,
    spec_plain spec = true -> zmem c_colon spec = true ->
    select_one lexs None spec = filter (fun l => str_eqb spec (spec_of l)) lexs.
Proof.
  intros lexs spec Hp Hc. unfold select_one. rewrite Hc. cbn [negb andb]. cbv zeta.
  apply filter_ext. intro l. unfold lang_ok. rewrite andb_true_r. apply glob_plain. exact Hp.
Qed.

(* the one lexicon of the resource is not skipped *)
Lemma precheck_single : forall d L i v,
    vreq L "id" = Ok (VStr i) -> vreq L "version" = Ok (VStr v) ->
    vtruthy (vgetk L "extends") = false -> is_null (LEXICON_QUERY d (CText i) (CText v)) = true ->
    exists skipmap, _precheck [L] d = Ok skipmap /\ not_skipped skipmap L = true.
Proof.
  intros d L i v Hi Hv Hne Hq. rewrite precheck_unfold. simpl. unfold precheck_step, lexqry, preq.
  rewrite Hi, Hv. cbn [bind param]. rewrite Hq. cbn [negb bind]. rewrite Hne.
  eexists. split; [reflexivity|]. unfold not_skipped, lexicon_spec. rewrite Hi, Hv. cbn [pv].
  unfold dict_get. cbn [dict_set find fst snd val_eqb]. rewrite str_eqb_refl. reflexivity.
Qed.

(* removing a lexicon that nothing extends is the deletion of its row *)
Lemma remove_one_no_ext : forall d rowid,
    direct_extensions d rowid = [] ->
    remove_one d rowid = delete_row delete_fuel d "lexicons" rowid.
Proof.
  intros d rowid H. unfold remove_one, _find_all_extensions, get_lexicon_extensions. rewrite H.
  simpl. destruct (delete_row delete_fuel d "lexicons" rowid); reflexivity.
Qed.

Lemma add_one_extensions_same : forall nt L d d',
    add_one_lexicon nt L d = Ok d' -> vtruthy (vgetk L "extends") = false ->
    get_table d' "lexicon_extensions" = get_table d "lexicon_extensions".
Proof.
  intros nt L d d' H Hne. one_inv H. destruct (insert_lexicon_deps _ _ _ _ _ H2 Hne) as (Eext & _). oc_facts.
  tbl_eq "lexicon_extensions". rewrite Eext. tbl_eq "lexicon_extensions". reflexivity.
Qed.

(* nothing extends a lexicon whose rowid is fresh *)
Lemma direct_extensions_fresh : forall d d' lexid,
    fk_ok d = true -> get_table d' "lexicon_extensions" = get_table d "lexicon_extensions" ->
    lexid = next_rowid (get_table d "lexicons") -> direct_extensions d' lexid = [].
Proof.
  intros d d' lexid Hok E Hlex. unfold direct_extensions. cbv zeta. rewrite E.
  destruct (in_schema "lexicon_extensions" eq_refl) as (cols & fks & uqs & Hsch).
  assert (In ("base_rowid", "lexicons", "rowid", "NO ACTION") fks) as Hfk.
  { rewrite <- (schema_find_in _ _ _ _ Hsch). in_concrete. }
  rewrite fk_ok_iff in Hok. specialize (Hok _ _ _ _ Hsch _ _ _ _ Hfk).
  clear E. set (T := get_table d "lexicon_extensions") in *. clearbody T. revert Hok.
  induction T as [|r l IH]; intro Hok; [reflexivity|]. cbn [flat_map].
  rewrite (IH (fun r0 Hr0 => Hok r0 (or_intror Hr0))). rewrite app_nil_r.
  specialize (Hok r (or_introl eq_refl)). unfold col in Hok.
  destruct (cell_at (col_index "lexicon_extensions" "base_rowid") r) as [|n|s|v]; try reflexivity.
  simpl in Hok. apply zmem_z_In in Hok. unfold rowids in Hok. apply in_map_iff in Hok.
  destruct Hok as [r0 [E0 Hr0]]. pose proof (next_rowid_fresh _ _ Hr0) as Hf.
  simpl. destruct (Z.eqb n lexid) eqn:En; [apply Z.eqb_eq in En; lia|reflexivity].
Qed.

Lemma zmem_colon_spec : forall i v, zmem c_colon (i ++ [c_colon] ++ v)%list = true.
Proof. intros. unfold zmem. rewrite existsb_app. simpl. rewrite orb_true_r. reflexivity. Qed.

Lemma filter_all_false : forall {T} (g : T -> bool) l, (forall x, In x l -> g x = false) -> filter g l = [].
Proof.
  intros T g l H. induction l as [|a l IH]; simpl; [reflexivity|].
  rewrite H by (left; reflexivity). apply IH. intros x Hx. apply H. right. exact Hx.
Qed.

(* the specifier selects exactly the lexicon that was added *)
Lemma select_added : forall d d' L i v,
    vreq L "id" = Ok (VStr i) -> vreq L "version" = Ok (VStr v) ->
    App "lexicons" d d' [lexicon_row L] ->
    spec_plain (i ++ [c_colon] ++ v)%list = true -> spec_unused d (i ++ [c_colon] ++ v)%list = true ->
    exists l, select_one (lexrows_of d') None (i ++ [c_colon] ++ v)%list = [l]
              /\ lx_rowid l = next_rowid (get_table d "lexicons").
Proof.
  intros d d' L i v Hi Hv HA Hp Hu. rewrite select_one_plain by (try exact Hp; apply zmem_colon_spec).
  unfold lexrows_of. unfold App in HA. rewrite HA. rewrite map_app, filter_app.
  assert (filter (fun l => str_eqb (i ++ [c_colon] ++ v)%list (spec_of l))
                 (map (fun r => {| lx_rowid := rowid_of r; lx_id := text_of (col "lexicons" "id" r);
                                   lx_version := text_of (col "lexicons" "version" r);
                                   lx_lang := text_of (col "lexicons" "language" r) |})
                      (get_table d "lexicons")) = []) as ->.
  { unfold spec_unused, lexrows_of in Hu. rewrite forallb_forall in Hu.
    apply filter_all_false. intros l Hl. apply negb_true_iff. apply Hu. exact Hl. }
  simpl app. simpl number_from. simpl map.
  assert (preq L "id" = Ok (CText i)) as Pi by (unfold preq; rewrite Hi; reflexivity).
  assert (preq L "version" = Ok (CText v)) as Pv by (unfold preq; rewrite Hv; reflexivity).
  assert (text_of (col "lexicons" "id" (CInt (next_rowid (get_table d "lexicons")) :: lexicon_row L)) = i) as Ei
      by (unfold lexicon_row, lexicon_cells; rewrite Pi; reflexivity).
  assert (text_of (col "lexicons" "version" (CInt (next_rowid (get_table d "lexicons")) :: lexicon_row L)) = v) as Ev
      by (unfold lexicon_row, lexicon_cells; rewrite Pv; reflexivity).
  cbn [filter]. unfold spec_of at 1. cbn [lx_id lx_version]. rewrite Ei, Ev, str_eqb_refl.
  eexists. split; [reflexivity|reflexivity].
Qed.

(* ---------- (E1) ---------- *)
Theorem add_then_remove_restores : forall d r nt d' d'' L i v,
    vreq r "lexicons" = Ok (VList [L]) ->                               (* one lexicon *)
    vreq L "id" = Ok (VStr i) -> vreq L "version" = Ok (VStr v) ->
    vtruthy (vgetk L "extends") = false ->                              (* not an extension *)
    is_null (LEXICON_QUERY d (CText i) (CText v)) = true ->             (* not installed *)
    let spec := (i ++ [c_colon] ++ v)%list in
    spec_plain spec = true -> split_ws spec = [spec] -> spec_unused d spec = true ->
    fk_ok d = true -> Wfb d = true -> deps_ok d = true -> in_synsets_ok L = true ->
    add_lexical_resource d r nt = Ok d' -> remove d' spec = Ok d'' ->
    (forall t, In t content_tables -> get_table d'' t = get_table d t)
    /\ (forall t, In t lookup_tables ->
                  get_table d'' t = get_table d' t /\ exists X, get_table d' t = (get_table d t ++ X)%list).
Proof.
  intros d r nt d' d'' L i v Hr Hi Hv Hne Hq spec Hp Hsp Hu Hok Hwfb Hdeps Hin Hadd Hrem.
  pose proof (Wfb_Wf _ Hwfb) as Hwf.
  destruct (precheck_single d L i v Hi Hv Hne Hq) as [skipmap [Hpre Hns]].
  destruct (add_single_lexicon d r nt d' L Hadd Hr) as [sk [Hpre' Hone]].
  rewrite Hpre in Hpre'. injection Hpre' as <-. specialize (Hone Hns).
  pose proof (one_lexicon_lexicons _ _ _ _ Hone) as HA.
  destruct (select_added d d' L i v Hi Hv HA Hp Hu) as [l [Hsel Hl]].
  pose proof (remove_single d' spec spec l d'' Hsp Hsel Hrem) as Hrone. rewrite Hl in Hrone.
  rewrite remove_one_no_ext in Hrone
    by (eapply direct_extensions_fresh; [exact Hok|eapply add_one_extensions_same; eassumption|reflexivity]).
  eapply (add_one_then_delete nt L d d' d'' (CText i) (CText v)); try eassumption.
  - unfold preq. rewrite Hi. reflexivity.
  - unfold preq. rewrite Hv. reflexivity.
Qed.

(* ---------- an instance, and the witness for the hypothesis on proposed ILIs ---------- *)
Definition ex_cc : val := ex_lexicon "cc" [].
Example ex_hypotheses :
  fk_ok ex_db2 = true /\ Wfb ex_db2 = true /\ deps_ok ex_db2 = true /\ in_synsets_ok ex_cc = true
  /\ spec_plain (k "cc:1") = true /\ split_ws (k "cc:1") = [k "cc:1"] /\ spec_unused ex_db2 (k "cc:1") = true
  /\ is_null (LEXICON_QUERY ex_db2 (CText (k "cc")) (CText (k "1"))) = true.
Proof. vm_compute. repeat split. Qed.
Example ex_add_remove :
  match add_lexical_resource ex_db2 (ex_resource [ex_cc]) [] with
  | Ok d' => match remove d' (k "cc:1") with
             | Ok d'' => forallb (fun t => sx_eqb (sx_of_db [(tn t, get_table d'' t)])
                                                  (sx_of_db [(tn t, get_table ex_db2 t)])) content_tables = true
                         /\ List.length (get_table d' "senses") = 3%nat
             | _ => False
             end
  | _ => False
  end.
Proof. vm_compute. split; reflexivity. Qed.

(* without [in_synsets_ok]: a synset with ili = "in" whose id is not a text (a dictionary; outside the
   WN-LMF shapes but accepted by the model) gets a proposed_ilis row with a NULL synset_rowid, which no
   cascade reaches: it survives the removal *)
Definition ex_bad : val :=
  vd [("id", vs "zz"); ("label", vs "L"); ("language", vs "en"); ("email", vs "e"); ("license", vs "l");
      ("version", vs "1"); ("meta", VNone); ("entries", VList []);
      ("synsets", VList [vd [("id", VDict []); ("ili", vs "in"); ("partOfSpeech", vs "n"); ("meta", VNone)]])].
Example ex_proposed_survives :
  in_synsets_ok ex_bad = false
  /\ match add_lexical_resource ex_db2 (ex_resource [ex_bad]) [] with
     | Ok d' => match remove d' (k "zz:1") with
                | Ok d'' => get_table ex_db2 "proposed_ilis" = []
                            /\ get_table d'' "proposed_ilis" = [[CInt 1; CNull; CNull; CNull]]
                | _ => False
                end
     | _ => False
     end.
Proof. vm_compute. repeat split. Qed.

Print Assumptions add_then_remove_restores.
Print Assumptions add_one_then_delete.

(* ====================================================================== *)
(* Part 6 — (E2) after the cycle the same lexicon can be offered again      *)
(* ====================================================================== *)
Lemma schema_table_cases : forall t cols fks uqs,
    In (t, cols, fks, uqs) schema -> In t content_tables \/ In t lookup_tables.
Proof.
  intros t cols fks uqs Hin.
  assert (In t (map (fun e : string * columns_t * fkeys_t * uniques_t => fst (fst (fst e))) schema)) as Hn
      by (apply in_map_iff; exists (t, cols, fks, uqs); split; [reflexivity|exact Hin]).
  rewrite tables_partition in Hn. unfold content_tables, lookup_tables. simpl in *. tauto.
Qed.

(* the hypotheses of (E1) hold again after add + remove: the lexicon is again "not installed",
   its specifier is unused, and the database is well formed *)
Theorem cycle_preserves_hypotheses : forall d r nt d' d'' L i v,
    vreq r "lexicons" = Ok (VList [L]) ->
    vreq L "id" = Ok (VStr i) -> vreq L "version" = Ok (VStr v) ->
    vtruthy (vgetk L "extends") = false ->
    is_null (LEXICON_QUERY d (CText i) (CText v)) = true ->
    let spec := (i ++ [c_colon] ++ v)%list in
    spec_plain spec = true -> split_ws spec = [spec] -> spec_unused d spec = true ->
    fk_ok d = true -> Wfb d = true -> deps_ok d = true -> in_synsets_ok L = true ->
    add_lexical_resource d r nt = Ok d' -> remove d' spec = Ok d'' ->
    is_null (LEXICON_QUERY d'' (CText i) (CText v)) = true
    /\ spec_unused d'' spec = true /\ fk_ok d'' = true /\ deps_ok d'' = true /\ Wf d''
    /\ exists skipmap, _precheck [L] d'' = Ok skipmap /\ not_skipped skipmap L = true.
Proof.
  intros d r nt d' d'' L i v Hr Hi Hv Hne Hq spec Hp Hsp Hu Hok Hwfb Hdeps Hin Hadd Hrem.
  destruct (add_then_remove_restores d r nt d' d'' L i v Hr Hi Hv Hne Hq Hp Hsp Hu Hok Hwfb Hdeps Hin Hadd Hrem)
    as [Hc Hl].
  assert (get_table d'' "lexicons" = get_table d "lexicons") as Elex by (apply Hc; unfold content_tables; simpl; tauto).
  assert (get_table d'' "lexicon_dependencies" = get_table d "lexicon_dependencies") as Edep
      by (apply Hc; unfold content_tables; simpl; tauto).
  assert (is_null (LEXICON_QUERY d'' (CText i) (CText v)) = true) as Hq''.
  { unfold LEXICON_QUERY in *. cbv zeta in *. rewrite (select_rowid_ext d d'' "lexicons") by exact Elex. exact Hq. }
  pose proof (add_lexical_resource_fk_ok _ _ _ _ Hok Hadd) as Hok'.
  destruct (remove_owned_rows_gone _ _ _ Hok' Hrem) as (R & _ & _ & _ & _ & Hok'').
  split; [exact Hq''|]. split; [|split; [exact Hok''|split; [|split]]].
  - unfold spec_unused, lexrows_of in *. rewrite Elex. exact Hu.
  - unfold deps_ok in *. rewrite Edep, Elex. exact Hdeps.
  - (* Wf d'' : every table of d'' is a table of d or of d' *)
    pose proof (Wfb_Wf _ Hwfb) as Hwf.
    assert (Wf d') as Hwf'.
    { destruct (precheck_single d L i v Hi Hv Hne Hq) as [skipmap [Hpre Hns]].
      destruct (add_single_lexicon d r nt d' L Hadd Hr) as [sk [Hpre' Hone]].
      rewrite Hpre in Hpre'. injection Hpre' as <-. eapply Wf_add_one_lexicon; [exact Hwf|apply Hone; exact Hns]. }
    split.
    + intros t cols fks uqs Hsch. destruct (schema_table_cases _ _ _ _ Hsch) as [Ht|Ht].
      * rewrite (Hc t Ht). eapply (proj1 Hwf). exact Hsch.
      * rewrite (proj1 (Hl t Ht)). eapply (proj1 Hwf'). exact Hsch.
    + intros t cols fks uqs Hsch r0 Hr0. destruct (schema_table_cases _ _ _ _ Hsch) as [Ht|Ht].
      * rewrite (Hc t Ht) in Hr0. eapply (proj2 Hwf); eassumption.
      * rewrite (proj1 (Hl t Ht)) in Hr0. eapply (proj2 Hwf'); eassumption.
  - apply (precheck_single d'' L i v Hi Hv Hne Hq'').
Qed.

(* on the example the second add succeeds and gives the first result again, on every table *)
Example ex_readd_after_remove :
  match add_lexical_resource ex_db2 (ex_resource [ex_cc]) [] with
  | Ok d' =>
      match remove d' (k "cc:1") with
      | Ok d'' =>
          match add_lexical_resource d'' (ex_resource [ex_cc]) [] with
          | Ok d3 => forallb (fun t => sx_eqb (sx_of_db [(tn t, get_table d3 t)])
                                              (sx_of_db [(tn t, get_table d' t)]))
                             (content_tables ++ lookup_tables) = true
          | _ => False
          end
      | _ => False
      end
  | _ => False
  end.
Proof. vm_compute. reflexivity. Qed.

(* (E3) is FALSE as phrased for extensions: tags and pronunciations have no lexicon_rowid column and
   hang below forms; those that an extension attaches to the forms of an EXTERNAL entry hang below rows
   of the base lexicon, so no cascade from the extension reaches them: they survive its removal *)
Definition ex_ext : val :=
  vd [("id", vs "xa"); ("label", vs "X"); ("language", vs "en"); ("email", vs "e"); ("license", vs "l");
      ("version", vs "1"); ("meta", VNone);
      ("extends", vd [("id", vs "ba"); ("version", vs "1")]);
      ("entries", VList [vd [("id", vs "e1"); ("external", VBool true);
                             ("lemma", vd [("external", VBool true);
                                           ("tags", VList [vd [("text", vs "sg"); ("category", vs "number")]])])]]);
      ("synsets", VList [])].
Example ex_extension_leaks_tags :
  match add_lexical_resource ex_db2 (ex_resource [ex_ext]) [] with
  | Ok d' => match remove d' (k "xa:1") with
             | Ok d'' => get_table ex_db2 "tags" = []
                         /\ get_table d'' "tags" = [[CInt 1; CInt 1; CText (k "sg"); CText (k "number")]]
                         /\ map rowid_of (get_table d'' "lexicons") = map rowid_of (get_table ex_db2 "lexicons")
             | _ => False
             end
  | _ => False
  end.
Proof. vm_compute. repeat split. Qed.

Print Assumptions cycle_preserves_hypotheses.
