(* RelGeneric.v — STAGE R, generic part: what _Relatable.closure and _Relatable.relation_paths
   (Core.closure / Core.relation_paths) compute, for any entity type, in terms of the successor
   function  succ x = the list get_related returns for x. *)
From Coq Require Import ZArith List Bool Lia.
Import ListNotations.
Require Import WnV.Base.Sx WnV.Model.Spec WnV.Model.Tables WnV.Model.Query WnV.Model.Core.
Require Import WnV.Proofs.CoreLemmas.
Local Open Scope Z_scope.

Lemma filter_length_le : forall T (p q : T -> bool) l,
  (forall a, p a = true -> q a = true) -> (length (filter p l) <= length (filter q l))%nat.
Proof.
  intros T p q l H. induction l as [|a l IH]; simpl; [lia|].
  destruct (p a) eqn:Ep.
  - rewrite (H a Ep). simpl. lia.
  - destruct (q a); simpl; lia.
Qed.

Lemma filter_length_lt : forall T (p q : T -> bool) l u,
  (forall a, p a = true -> q a = true) -> In u l -> p u = false -> q u = true ->
  (length (filter p l) < length (filter q l))%nat.
Proof.
  intros T p q l u H Hin Hp Hq. induction l as [|a l IH]; [destruct Hin|].
  simpl. destruct Hin as [->|Hin].
  - rewrite Hp, Hq. simpl. pose proof (filter_length_le T p q l H). lia.
  - specialize (IH Hin). destruct (p a) eqn:Ep.
    + rewrite (H a Ep). simpl. lia.
    + destruct (q a); simpl; lia.
Qed.

Lemma flat_mapM_total : forall T U (f : T -> res (list U)) l,
  (forall x, In x l -> exists ys, f x = Ok ys) -> exists ys, flat_mapM f l = Ok ys.
Proof.
  intros T U f l H. unfold flat_mapM.
  assert (G : exists ls, mapM f l = Ok ls).
  { induction l as [|x l IH]; [exists []; reflexivity|].
    destruct (H x (or_introl eq_refl)) as [ys Hy].
    destruct IH as [ls Hls]; [intros y Hy'; apply H; right; exact Hy'|].
    exists (ys :: ls). simpl. rewrite Hy, Hls. reflexivity. }
  destruct G as [ls Hls]. rewrite Hls. simpl. eexists. reflexivity.
Qed.

Lemma last_cons_gen : forall T (ext : list T) t d, last (t :: ext) d = last ext t.
Proof.
  intros T ext. induction ext as [|a ext IH]; intros t d; [reflexivity|].
  change (last (t :: a :: ext) d) with (last (a :: ext) d). rewrite (IH a d), (IH a t). reflexivity.
Qed.

Section RelatableFacts.
  Context {T : Type}.
  Variable succ : T -> list T.
  Variable get_related : T -> res (list T).
  Variable id_of : T -> str.
  Variable rowid_of : T -> Z.
  Variable key_eqb : T -> T -> bool.
  (* the entities that can show up: closed under succ, and on them get_related succeeds *)
  Variable good : T -> Prop.
  Hypothesis Hgr : forall x, good x -> get_related x = Ok (succ x).
  Hypothesis Hgood_succ : forall x y, good x -> In y (succ x) -> good y.

  (* reachable from [roots] by zero or more succ steps *)
  Inductive reach (roots : list T) : T -> Prop :=
  | reach_root : forall x, In x roots -> reach roots x
  | reach_step : forall x y, reach roots x -> In y (succ x) -> reach roots y.

  Lemma reach_good : forall roots x, (forall r, In r roots -> good r) -> reach roots x -> good x.
  Proof.
    intros roots x Hr H. induction H as [x Hx|x y Hx IH Hy]; [apply Hr; exact Hx | exact (Hgood_succ x y IH Hy)].
  Qed.

  (* ============================================================ closure *)
  Lemma drop_visited_spec : forall visited queue,
    exists skipped, queue = skipped ++ drop_visited id_of visited queue
      /\ (forall y, In y skipped -> In (id_of y) visited)
      /\ match drop_visited id_of visited queue with
         | [] => True
         | x :: _ => ~ In (id_of x) visited
         end.
  Proof.
    intros visited queue. induction queue as [|x q IH]; simpl.
    - exists []. split; [reflexivity | split; [intros y [] | exact I]].
    - destruct (str_mem (id_of x) visited) eqn:E.
      + destruct IH as [sk [Eq [Hsk Hhd]]]. exists (x :: sk). split; [simpl; rewrite <- Eq; reflexivity|].
        split; [|exact Hhd]. intros y [<-|Hy]; [apply str_mem_In; exact E | apply Hsk; exact Hy].
      + exists []. split; [reflexivity|]. split; [intros y []|].
        intro C. apply str_mem_In in C. rewrite C in E. discriminate.
  Qed.

  Section Closure.
    (* a finite universe of identifiers *)
    Variable U : list str.
    Hypothesis Hgood_id : forall x, good x -> In (id_of x) U.

    Definition unseen (visited : list str) : nat :=
      length (filter (fun u => negb (str_mem u visited)) U).

    Lemma unseen_decr : forall u visited, In u U -> ~ In u visited ->
      (unseen (u :: visited) < unseen visited)%nat.
    Proof.
      intros u visited Hu Hn. unfold unseen. apply (filter_length_lt _ _ _ U u).
      - intros a Ha. apply negb_true_iff in Ha. apply negb_true_iff. simpl in Ha.
        apply orb_false_iff in Ha. tauto.
      - exact Hu.
      - simpl. rewrite str_eqb_refl. reflexivity.
      - apply negb_true_iff. destruct (str_mem u visited) eqn:E; [|reflexivity].
        apply str_mem_In in E. contradiction.
    Qed.

    (* what the loop returns, relative to the identifiers already visited and the queue *)
    Definition closure_post (visited : list str) (queue result : list T) : Prop :=
      NoDup (map id_of result)
      /\ (forall r, In r result -> ~ In (id_of r) visited)
      /\ (forall r, In r result -> reach queue r)
      /\ (forall x, In x queue -> In (id_of x) (visited ++ map id_of result))
      /\ (forall r y, In r result -> In y (succ r) -> In (id_of y) (visited ++ map id_of result)).

    Lemma reach_queue_step : forall queue sk x q r,
      queue = sk ++ x :: q -> reach (q ++ succ x) r -> reach queue r.
    Proof.
      intros queue sk x q r Eq H. induction H as [y Hy|y z Hy IH Hz].
      - apply in_app_or in Hy. destruct Hy as [Hy|Hy].
        + apply reach_root. rewrite Eq. apply in_or_app. right. right. exact Hy.
        + apply (reach_step queue x y); [|exact Hy]. apply reach_root. rewrite Eq. apply in_or_app. right. left. reflexivity.
      - exact (reach_step queue y z IH Hz).
    Qed.

    Theorem closure_loop_ok : forall fuel visited queue,
      (unseen visited <= fuel)%nat -> (forall x, In x queue -> good x) ->
      exists result, closure_loop get_related id_of fuel visited queue = Ok result
                     /\ closure_post visited queue result.
    Proof.
      induction fuel as [|f IH]; intros visited queue Hfuel Hq;
        destruct (drop_visited_spec visited queue) as [sk [Eq [Hsk Hhd]]];
        destruct (drop_visited id_of visited queue) as [|x q] eqn:Ed.
      - exists []. simpl. rewrite Ed. split; [reflexivity|]. unfold closure_post. simpl.
        split; [constructor|]. split; [intros r []|]. split; [intros r []|]. split; [|intros r y []].
        intros y Hy. rewrite app_nil_r in *. rewrite Eq in Hy. apply Hsk. exact Hy.
      - exfalso. assert (Hx : In x queue) by (rewrite Eq; apply in_or_app; right; left; reflexivity).
        pose proof (unseen_decr (id_of x) visited (Hgood_id x (Hq x Hx)) Hhd). lia.
      - exists []. simpl. rewrite Ed. split; [reflexivity|]. unfold closure_post. simpl.
        split; [constructor|]. split; [intros r []|]. split; [intros r []|]. split; [|intros r y []].
        intros y Hy. rewrite app_nil_r in *. rewrite Eq in Hy. apply Hsk. exact Hy.
      - assert (Hx : In x queue) by (rewrite Eq; apply in_or_app; right; left; reflexivity).
        assert (Hgx : good x) by (apply Hq; exact Hx).
        pose proof (unseen_decr (id_of x) visited (Hgood_id x Hgx) Hhd) as Hdec.
        destruct (IH (id_of x :: visited) (q ++ succ x)) as [rest [Hrest Hpost]]; [lia| |].
        { intros y Hy. apply in_app_or in Hy. destruct Hy as [Hy|Hy].
          - apply Hq. rewrite Eq. apply in_or_app. right. right. exact Hy.
          - exact (Hgood_succ x y Hgx Hy). }
        exists (x :: rest). split.
        + simpl. rewrite Ed. rewrite (Hgr x Hgx). simpl. rewrite Hrest. reflexivity.
        + destruct Hpost as [P1 [P2 [P3 [P4 P5]]]]. unfold closure_post. simpl. repeat split.
          * constructor; [|exact P1]. intro C. apply in_map_iff in C. destruct C as [r [Er Hr]].
            apply (P2 r Hr). left. symmetry. exact Er.
          * intros r [<-|Hr]; [exact Hhd|]. intro C. apply (P2 r Hr). right. exact C.
          * intros r [<-|Hr]; [apply reach_root; exact Hx|].
            apply (reach_queue_step queue sk x q r Eq). apply P3. exact Hr.
          * intros y Hy. rewrite Eq in Hy. apply in_app_or in Hy. destruct Hy as [Hy|[<-|Hy]].
            -- apply in_or_app. left. apply Hsk. exact Hy.
            -- apply in_or_app. right. left. reflexivity.
            -- assert (H4 : In (id_of y) ((id_of x :: visited) ++ map id_of rest)) by (apply P4; apply in_or_app; left; exact Hy).
               simpl in H4. destruct H4 as [E|H4]; [apply in_or_app; right; left; exact E|].
               apply in_app_or in H4. apply in_or_app. destruct H4 as [H4|H4]; [left; exact H4 | right; right; exact H4].
          * intros r y [<-|Hr] Hy.
            -- assert (H4 : In (id_of y) ((id_of x :: visited) ++ map id_of rest)) by (apply P4; apply in_or_app; right; exact Hy).
               simpl in H4. destruct H4 as [E|H4]; [apply in_or_app; right; left; exact E|].
               apply in_app_or in H4. apply in_or_app. destruct H4 as [H4|H4]; [left; exact H4 | right; right; exact H4].
            -- assert (H5 : In (id_of y) ((id_of x :: visited) ++ map id_of rest)) by (apply (P5 r y Hr Hy)).
               simpl in H5. destruct H5 as [E|H5]; [apply in_or_app; right; left; exact E|].
               apply in_app_or in H5. apply in_or_app. destruct H5 as [H5|H5]; [left; exact H5 | right; right; exact H5].
    Qed.

    (* R2: with fuel >= the number of identifiers, closure never runs out; it yields entities
       reachable in one or more steps, no identifier twice, and its identifiers are closed under
       succ: every successor of a yielded entity has the identifier of a yielded entity *)
    Theorem closure_ok : forall fuel self,
      (length U <= fuel)%nat -> good self ->
      exists result, closure get_related id_of fuel self = Ok result
        /\ NoDup (map id_of result)
        /\ (forall r, In r result -> reach (succ self) r)
        /\ (forall y, In y (succ self) -> In (id_of y) (map id_of result))
        /\ (forall r y, In r result -> In y (succ r) -> In (id_of y) (map id_of result)).
    Proof.
      intros fuel self Hf Hg. unfold closure. rewrite (Hgr self Hg). simpl.
      destruct (closure_loop_ok fuel [] (succ self)) as [result [Hres [P1 [_ [P3 [P4 P5]]]]]].
      - unfold unseen. pose proof (filter_length_le _ (fun u => negb (str_mem u [])) (fun _ => true) U (fun _ _ => eq_refl)).
        assert (length (filter (fun _ : str => true) U) = length U).
        { clear. induction U as [|a l IH]; simpl; [reflexivity | rewrite IH; reflexivity]. }
        lia.
      - intros y Hy. exact (Hgood_succ self y Hg Hy).
      - exists result. split; [exact Hres|]. split; [exact P1|]. split; [exact P3|]. split; [exact P4 | exact P5].
    Qed.

    (* when identifiers identify the reachable entities, closure yields exactly the entities
       reachable in one or more steps, each once *)
    Theorem closure_exact : forall fuel self result,
      (forall a b, reach (succ self) a -> reach (succ self) b -> id_of a = id_of b -> a = b) ->
      closure get_related id_of fuel self = Ok result ->
      (length U <= fuel)%nat -> good self ->
      NoDup result /\ forall x, In x result <-> reach (succ self) x.
    Proof.
      intros fuel self result Hinj Hc Hf Hg.
      destruct (closure_ok fuel self Hf Hg) as [res' [Hres [P1 [P3 [P4 P5]]]]].
      rewrite Hc in Hres. injection Hres as <-. split.
      - apply (NoDup_map_inv id_of). exact P1.
      - intro x. split; [apply P3|]. intro Hx. induction Hx as [x Hx|x y Hx IH Hy].
        + pose proof (P4 x Hx) as Hx'. apply in_map_iff in Hx'. destruct Hx' as [r [Er Hr]].
          assert (r = x) by (apply Hinj; [apply P3; exact Hr | apply reach_root; exact Hx | exact Er]).
          subst. exact Hr.
        + pose proof (P5 x y IH Hy) as H5. apply in_map_iff in H5. destruct H5 as [r [Er Hr]].
          assert (r = y) by (apply Hinj; [apply P3; exact Hr | exact (reach_step _ x y Hx Hy) | exact Er]).
          subst. exact Hr.
    Qed.
  End Closure.

  (* ============================================================ relation_paths *)
  (* consecutive succ steps starting after [a] *)
  Inductive chain : T -> list T -> Prop :=
  | chain_nil : forall a, chain a []
  | chain_cons : forall a b l, In b (succ a) -> chain b l -> chain a (b :: l).

  Definition fresh (visited : list T) (t : T) : Prop := existsb (key_eqb t) visited = false.

  (* each element is new with respect to the visited set and the elements before it *)
  Inductive simple_ext : list T -> list T -> Prop :=
  | se_nil : forall v, simple_ext v []
  | se_cons : forall v t l, fresh v t -> simple_ext (v ++ [t]) l -> simple_ext v (t :: l).

  Lemma simple_ext_spec : forall v ext, simple_ext v ext ->
    (forall t, In t ext -> existsb (key_eqb t) v = false) /\ nodup_by key_eqb ext.
  Proof.
    intros v ext H. induction H as [v|v t l Hf Hs [IH1 IH2]].
    - split; [intros t [] | constructor].
    - split.
      + intros u [<-|Hu]; [exact Hf|]. specialize (IH1 u Hu). rewrite existsb_app in IH1.
        apply orb_false_iff in IH1. tauto.
      + constructor; [|exact IH2]. intros y Hy. specialize (IH1 y Hy). rewrite existsb_app in IH1.
        apply orb_false_iff in IH1. destruct IH1 as [_ H1]. simpl in H1. rewrite orb_false_r in H1. exact H1.
  Qed.

  Definition last_of (a : T) (l : list T) : T := last l a.

  (* R3 (soundness): every path returned extends [path] by a chain of succ steps from [last] whose
     elements are new, and is maximal: the last element has no successor that is still new *)
  Theorem paths_from_sound : forall fuel path lst visited ps p, good lst ->
    paths_from get_related key_eqb fuel path lst visited = Ok ps -> In p ps ->
    exists ext, p = path ++ ext /\ chain lst ext /\ simple_ext visited ext
      /\ (forall y, In y (succ (last_of lst ext)) -> existsb (key_eqb y) (visited ++ ext) = true).
  Proof.
    induction fuel as [|f IH]; intros path lst visited ps p Hg H Hin; simpl in H; [discriminate|].
    rewrite (Hgr lst Hg) in H. simpl in H.
    destruct (filter (fun t => negb (existsb (key_eqb t) visited)) (succ lst)) as [|t0 rel] eqn:Ef.
    - injection H as <-. destruct Hin as [<-|[]]. exists []. rewrite !app_nil_r.
      split; [reflexivity|]. split; [constructor|]. split; [constructor|].
      intros y Hy. unfold last_of in Hy. simpl in Hy.
      destruct (existsb (key_eqb y) visited) eqn:E; [reflexivity|]. exfalso.
      assert (In y (filter (fun t => negb (existsb (key_eqb t) visited)) (succ lst))).
      { apply filter_In. split; [exact Hy | rewrite E; reflexivity]. }
      rewrite Ef in H. destruct H.
    - rewrite <- Ef in H. destruct (flat_mapM_Ok_In _ _ _ _ _ _ H Hin) as [t [zs [Ht [Hz Hp]]]].
      apply filter_In in Ht. destruct Ht as [Ht Hfr]. apply negb_true_iff in Hfr.
      destruct (IH _ _ _ _ _ (Hgood_succ lst t Hg Ht) Hz Hp) as [ext [Ep [Hch [Hse Hmax]]]].
      exists (t :: ext). split; [rewrite Ep, <- app_assoc; reflexivity|].
      split; [constructor; assumption|]. split; [constructor; assumption|].
      intros y Hy. assert (H0 : last_of lst (t :: ext) = last_of t ext) by (unfold last_of; apply last_cons_gen).
      rewrite H0 in Hy. specialize (Hmax y Hy). rewrite <- app_assoc in Hmax. exact Hmax.
  Qed.

  Theorem relation_paths_sound : forall fuel self ps p, good self ->
    relation_paths get_related rowid_of key_eqb fuel self = Ok ps -> In p ps ->
    exists target ext, p = target :: ext /\ In target (succ self) /\ rowid_of target <> rowid_of self
      /\ chain target ext /\ simple_ext [self; target] ext
      /\ (forall y, In y (succ (last_of target ext)) -> existsb (key_eqb y) ([self; target] ++ ext) = true).
  Proof.
    intros fuel self ps p Hg H Hin. unfold relation_paths in H. rewrite (Hgr self Hg) in H. simpl in H.
    destruct (flat_mapM_Ok_In _ _ _ _ _ _ H Hin) as [target [zs [Ht [Hz Hp]]]].
    apply in_rev in Ht. apply filter_In in Ht. destruct Ht as [Ht Hr]. apply negb_true_iff in Hr.
    apply Z.eqb_neq in Hr.
    destruct (paths_from_sound _ _ _ _ _ _ (Hgood_succ self target Hg Ht) Hz Hp) as [ext [Ep [Hch [Hse Hmax]]]].
    exists target, ext. simpl in Ep. tauto.
  Qed.

  (* the paths are simple: no entity twice, and the start does not occur (as set members) *)
  Corollary relation_paths_simple : forall fuel self ps p, good self ->
    (forall a b, key_eqb a b = true -> rowid_of a = rowid_of b) ->
    relation_paths get_related rowid_of key_eqb fuel self = Ok ps -> In p ps ->
    nodup_by key_eqb p /\ (forall t, In t p -> key_eqb t self = false).
  Proof.
    intros fuel self ps p Hg Hk H Hin.
    destruct (relation_paths_sound fuel self ps p Hg H Hin) as [target [ext [-> [Ht [Hr [Hch [Hse _]]]]]]].
    apply simple_ext_spec in Hse. destruct Hse as [H1 H2].
    assert (Hts : key_eqb target self = false).
    { destruct (key_eqb target self) eqn:E; [|reflexivity]. apply Hk in E. contradiction. }
    split.
    - constructor; [|exact H2]. intros y Hy. specialize (H1 y Hy). simpl in H1.
      apply orb_false_iff in H1. destruct H1 as [_ H1]. apply orb_false_iff in H1. tauto.
    - intros t [<-|Ht']; [exact Hts|]. specialize (H1 t Ht'). simpl in H1. apply orb_false_iff in H1. tauto.
  Qed.

  (* R3 (termination): with a finite universe of set keys and more fuel than keys, no OutOfFuel *)
  Section PathsTotal.
    Variable UT : list T.
    Hypothesis Hrefl : forall a, key_eqb a a = true.
    Hypothesis Hsym : forall a b, key_eqb a b = true -> key_eqb b a = true.
    Hypothesis Htrans : forall a b c, key_eqb a b = true -> key_eqb b c = true -> key_eqb a c = true.
    Hypothesis Hgood_key : forall x, good x -> exists u, In u UT /\ key_eqb u x = true.

    Definition unseenT (visited : list T) : nat :=
      length (filter (fun u => negb (existsb (key_eqb u) visited)) UT).

    Lemma unseenT_decr : forall visited t, good t -> existsb (key_eqb t) visited = false ->
      (unseenT (visited ++ [t]) < unseenT visited)%nat.
    Proof.
      intros visited t Hg Hf. destruct (Hgood_key t Hg) as [u [Hu Eu]]. unfold unseenT.
      apply (filter_length_lt _ _ _ UT u).
      - intros a Ha. apply negb_true_iff in Ha. apply negb_true_iff. rewrite existsb_app in Ha.
        apply orb_false_iff in Ha. tauto.
      - exact Hu.
      - apply negb_false_iff. rewrite existsb_app. simpl. rewrite Eu. apply orb_true_r.
      - apply negb_true_iff. destruct (existsb (key_eqb u) visited) eqn:E; [|reflexivity].
        apply existsb_exists in E. destruct E as [v [Hv Ev]].
        assert (key_eqb t v = true) by (apply (Htrans t u v); [apply Hsym; exact Eu | exact Ev]).
        assert (existsb (key_eqb t) visited = true) by (apply existsb_exists; exists v; tauto).
        congruence.
    Qed.

    Theorem paths_from_total : forall fuel path lst visited,
      (unseenT visited < fuel)%nat -> good lst ->
      exists ps, paths_from get_related key_eqb fuel path lst visited = Ok ps.
    Proof.
      induction fuel as [|f IH]; intros path lst visited Hf Hg; [lia|]. simpl. rewrite (Hgr lst Hg). simpl.
      destruct (filter (fun t => negb (existsb (key_eqb t) visited)) (succ lst)) as [|t0 rel] eqn:Ef.
      - eexists. reflexivity.
      - rewrite <- Ef. apply flat_mapM_total. intros t Ht. apply filter_In in Ht. destruct Ht as [Ht Hfr].
        apply negb_true_iff in Hfr. assert (Hgt : good t) by exact (Hgood_succ lst t Hg Ht).
        apply IH; [|exact Hgt]. pose proof (unseenT_decr visited t Hgt Hfr). lia.
    Qed.

    Theorem relation_paths_total : forall fuel self,
      (length UT < fuel)%nat -> good self ->
      exists ps, relation_paths get_related rowid_of key_eqb fuel self = Ok ps.
    Proof.
      intros fuel self Hf Hg. unfold relation_paths. rewrite (Hgr self Hg). simpl. apply flat_mapM_total.
      intros t Ht. apply in_rev in Ht. apply filter_In in Ht. destruct Ht as [Ht _].
      apply paths_from_total; [|exact (Hgood_succ self t Hg Ht)].
      unfold unseenT. pose proof (filter_length_le _ (fun u => negb (existsb (key_eqb u) [self; t])) (fun _ => true) UT (fun _ _ => eq_refl)).
      assert (length (filter (fun _ : T => true) UT) = length UT).
      { clear. induction UT as [|a l IH]; simpl; [reflexivity | rewrite IH; reflexivity]. }
      lia.
    Qed.
  End PathsTotal.
End RelatableFacts.
