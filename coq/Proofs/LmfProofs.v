(* LmfProofs.v — theorems about the WN-LMF model (Model/Lmf.v).
   STAGE 2: rejection theorems on the reader (C20) and header facts. *)
From Coq Require Import String.
From Coq Require Import ZArith List Bool Lia.
Import ListNotations.
Require Import WnV.Base.Sx WnV.Gen.LmfTables WnV.Model.Val WnV.Model.XmlText WnV.Model.Lmf.
Local Open Scope Z_scope.

Local Notation s_ := str_of_string.

(* ====================================================================== *)
(* Generic facts: strings, dictionaries, the result monad                 *)
(* ====================================================================== *)

Lemma str_eqb_true : forall a b, str_eqb a b = true -> a = b.
Proof. intros a b H. apply str_eqb_eq. exact H. Qed.
Lemma str_eqb_sym : forall a b, str_eqb a b = str_eqb b a.
Proof.
  intros a b. destruct (str_eqb a b) eqn:E1; destruct (str_eqb b a) eqn:E2; try reflexivity.
  - apply str_eqb_true in E1. subst. rewrite str_eqb_refl in E2. discriminate.
  - apply str_eqb_true in E2. subst. rewrite str_eqb_refl in E1. discriminate.
Qed.

Definition is_dict (v : val) : bool := match v with VDict _ => true | _ => false end.

Lemma is_dict_inv : forall v, is_dict v = true -> exists d, v = VDict d.
Proof. intros [] H; try discriminate. eexists. reflexivity. Qed.

Definition has_key (k : str) (d : list (str * val)) : bool :=
  existsb (fun kv => str_eqb (fst kv) k) d.

Lemma has_key_vset_list : forall d k' v k,
  has_key k (vset_list d k' v) = has_key k d || str_eqb k' k.
Proof.
  induction d as [|[k0 v0] r IH]; intros k' v k; simpl.
  - rewrite orb_false_r. reflexivity.
  - destruct (str_eqb k0 k') eqn:E.
    + simpl. apply str_eqb_true in E. subst k0.
      destruct (str_eqb k' k); destruct (has_key k r); reflexivity.
    + simpl. rewrite IH. rewrite orb_assoc. reflexivity.
Qed.

Lemma vhas_vset : forall d k' v k,
  vhas (vset (VDict d) k' v) k = vhas (VDict d) k || str_eqb k' k.
Proof. intros. simpl. apply has_key_vset_list. Qed.

Lemma vget_vset_other : forall d k' v k, str_eqb k' k = false ->
  vget (vset (VDict d) k' v) k = vget (VDict d) k.
Proof.
  intros d k' v k H. simpl.
  induction d as [|[k0 v0] r IH]; simpl.
  - rewrite H. reflexivity.
  - destruct (str_eqb k0 k') eqn:E.
    + simpl. apply str_eqb_true in E. subst k0. rewrite H. reflexivity.
    + simpl. destruct (str_eqb k0 k); [reflexivity | exact IH].
Qed.

Lemma vget_vset_same : forall d k v, vget (vset (VDict d) k v) k = v.
Proof.
  intros d k v. simpl.
  induction d as [|[k0 v0] r IH]; simpl.
  - rewrite str_eqb_refl. reflexivity.
  - destruct (str_eqb k0 k) eqn:E.
    + simpl. rewrite E. reflexivity.
    + simpl. rewrite E. exact IH.
Qed.

Lemma vset_is_dict : forall p k v, is_dict p = true -> is_dict (vset p k v) = true.
Proof. intros [] k v H; try discriminate. reflexivity. Qed.

Lemma vhas_false_vget : forall d k, vhas d k = false -> vget d k = VNone.
Proof.
  intros [] k H; try reflexivity. simpl in *.
  induction d as [|[k0 v0] r IH]; simpl in *.
  - reflexivity.
  - destruct (str_eqb k0 k); [discriminate | apply IH; exact H].
Qed.

(* exists e, (do x <- a; f x) = Err e  — by cases on a *)
Lemma bind_err : forall {T U} (a : result T) (f : T -> result U),
  (forall x, a = Ok x -> exists e, f x = Err e) -> exists e, bind a f = Err e.
Proof.
  intros T U a f H. destruct a as [x|e]; simpl.
  - apply H. reflexivity.
  - exists e. reflexivity.
Qed.

Lemma bind_ok : forall {T U} (a : result T) (f : T -> result U) y,
  bind a f = Ok y -> exists x, a = Ok x /\ f x = Ok y.
Proof.
  intros T U a f y H. destruct a as [x|e]; simpl in H.
  - exists x. split; [reflexivity | exact H].
  - discriminate.
Qed.

Lemma mapM_err : forall {T U} (f : T -> result U) l x,
  In x l -> (exists e, f x = Err e) -> exists e, mapM f l = Err e.
Proof.
  intros T U f l x. induction l as [|y r IH]; intros Hin Hx.
  - contradiction.
  - simpl. destruct Hin as [->|Hin].
    + destruct Hx as [e He]. rewrite He. exists e. reflexivity.
    + apply bind_err. intros y' _. apply bind_err. intros ys Hys.
      destruct (IH Hin Hx) as [e He]. rewrite He in Hys. discriminate.
Qed.

(* ====================================================================== *)
(* The element tree and the handler loop                                  *)
(* ====================================================================== *)

Lemma xtree_ind' : forall P : xtree -> Prop,
  (forall n a tx cs, Forall P cs -> P (XNode n a tx cs)) -> forall t, P t.
Proof.
  intros P H. fix IH 1. intros [n a tx cs]. apply H.
  induction cs as [|c r IHr]; constructor; [apply IH | exact IHr].
Qed.

Definition xattrs (t : xtree) : list (str * str) := match t with XNode _ a _ _ => a end.
Definition xchildren (t : xtree) : list xtree := match t with XNode _ _ _ cs => cs end.
Definition xtext (t : xtree) : str := match t with XNode _ _ tx _ => tx end.

(* the inner loop of parse_elem as a function of its own *)
Fixpoint parse_kids (version : str) (cs : list xtree) (parent : val) {struct cs} : result val :=
  match cs with
  | [] => Ok parent
  | c :: r =>
      do_ attach_check version parent (xname c);
      do cd <- parse_elem version c;
      parse_kids version r (attach version parent (xname c) cd)
  end.

Lemma parse_elem_eq : forall version name attrs text children,
  parse_elem version (XNode name attrs text children) =
  do d <- parse_kids version children (start_attrs version name attrs); Ok (finish d text).
Proof.
  intros version name attrs text children. simpl.
  generalize (start_attrs version name attrs) as parent.
  induction children as [|c r IH]; intro parent.
  - reflexivity.
  - simpl. destruct (attach_check version parent (xname c)) as [u|e]; [|reflexivity].
    simpl. destruct (parse_elem version c) as [cd|e]; [|reflexivity].
    simpl. apply IH.
Qed.

Lemma parse_doc_eq : forall version t,
  parse_doc version t =
  do_ attach_check version (VDict []) (xname t);
  do d <- parse_elem version t;
  Ok (attach version (VDict []) (xname t) d).
Proof. reflexivity. Qed.

(* an unknown element name is refused by the start handler *)
Lemma attach_check_unknown : forall version parent name,
  in_elems version name = false -> attach_check version parent name = Err ELmf.
Proof.
  intros version parent name H. unfold attach_check, is_list_elem. rewrite H.
  rewrite andb_false_r. unfold in_elems in H.
  destruct (assoc name (elems_of version)); [discriminate | reflexivity].
Qed.

(* the loop fails as soon as one child fails (or an earlier one did) *)
Lemma parse_kids_err : forall version cs parent,
  Exists (fun c => in_elems version (xname c) = false
                   \/ exists e, parse_elem version c = Err e) cs ->
  exists e, parse_kids version cs parent = Err e.
Proof.
  intros version cs parent H. revert parent.
  induction H as [c r Hc | c r Hr IH]; intro parent; simpl.
  - destruct Hc as [Hc | [e He]].
    + rewrite (attach_check_unknown _ _ _ Hc). exists ELmf. reflexivity.
    + apply bind_err. intros _ _. rewrite He. exists e. reflexivity.
  - apply bind_err. intros _ _. apply bind_err. intros cd _. apply IH.
Qed.

Lemma parse_doc_err : forall version t,
  (in_elems version (xname t) = false \/ exists e, parse_elem version t = Err e) ->
  exists e, parse_doc version t = Err e.
Proof.
  intros version t [H | [e He]]; rewrite parse_doc_eq.
  - rewrite (attach_check_unknown _ _ _ H). exists ELmf. reflexivity.
  - apply bind_err. intros _ _. rewrite He. exists e. reflexivity.
Qed.

(* ====================================================================== *)
(* (2a) an element that does not belong to the version                    *)
(* ====================================================================== *)

(* some node of the tree has a name outside _VALID_ELEMS[version] *)
Fixpoint has_unknown (version : str) (t : xtree) {struct t} : bool :=
  match t with
  | XNode name _ _ cs => negb (in_elems version name) || existsb (has_unknown version) cs
  end.

Lemma has_unknown_eq : forall version t,
  has_unknown version t = negb (in_elems version (xname t)) || existsb (has_unknown version) (xchildren t).
Proof. intros version [n a tx cs]. reflexivity. Qed.

Lemma unknown_below_err : forall version t,
  existsb (has_unknown version) (xchildren t) = true -> exists e, parse_elem version t = Err e.
Proof.
  intro version. apply (xtree_ind' (fun t =>
    existsb (has_unknown version) (xchildren t) = true -> exists e, parse_elem version t = Err e)).
  intros n a tx cs IH H. simpl in H. rewrite parse_elem_eq.
  assert (Hk : exists e, parse_kids version cs (start_attrs version n a) = Err e).
  { apply parse_kids_err. apply existsb_exists in H. destruct H as [c [Hin Hc]].
    apply Exists_exists. exists c. split; [exact Hin|].
    rewrite Forall_forall in IH. rewrite has_unknown_eq in Hc.
    apply orb_true_iff in Hc. destruct Hc as [Hc|Hc].
    - left. apply negb_true_iff. exact Hc.
    - right. apply (IH c Hin Hc). }
  destruct Hk as [e He]. rewrite He. exists e. reflexivity.
Qed.

(* Every node is visited unless an earlier one already failed, and every failure
   of a handler aborts the parse: so the document is rejected.  (The error is
   LMFError unless an earlier node raised something else first.) *)
Theorem unknown_element_rejected : forall version t,
  has_unknown version t = true -> exists e, parse_doc version t = Err e.
Proof.
  intros version t H. rewrite has_unknown_eq in H. apply orb_true_iff in H.
  apply parse_doc_err. destruct H as [H|H].
  - left. apply negb_true_iff. exact H.
  - right. apply unknown_below_err. exact H.
Qed.

Corollary unknown_element_load_rejected : forall version t,
  has_unknown version t = true -> exists e, load_tree version t = Err e.
Proof.
  intros version t H. destruct (unknown_element_rejected version t H) as [e He].
  unfold load_tree. rewrite He. exists e. reflexivity.
Qed.

(* a version that is not supported has no elements at all: everything is rejected *)
Example has_unknown_ex :
  has_unknown (s_ "1.0")
    (XNode (s_ "LexicalResource") [] [] [XNode (s_ "Lexicon") [] [] [XNode (s_ "Requires") [] [] []]]) = true.
Proof. vm_compute. reflexivity. Qed.

(* ====================================================================== *)
(* (2b) a single (non-list) child given twice                             *)
(* ====================================================================== *)

Fixpoint dup_single_in (version : str) (cs : list xtree) : bool :=
  match cs with
  | [] => false
  | c :: r => (negb (is_list_elem version (xname c))
               && existsb (fun d => str_eqb (xname d) (xname c)) r)
              || dup_single_in version r
  end.
Fixpoint has_dup_single (version : str) (t : xtree) {struct t} : bool :=
  match t with
  | XNode _ _ _ cs => dup_single_in version cs || existsb (has_dup_single version) cs
  end.

Lemma attach_is_dict : forall version parent name child,
  is_dict parent = true -> is_dict (attach version parent name child) = true.
Proof.
  intros version parent name child H. unfold attach.
  destruct (assoc name (elems_of version)) as [k|]; [|exact H].
  destruct (is_list_elem version name).
  - destruct (vget parent k); apply vset_is_dict; exact H.
  - apply vset_is_dict; exact H.
Qed.

Lemma attach_vhas : forall version parent name child k,
  is_dict parent = true -> vhas parent k = true ->
  vhas (attach version parent name child) k = true.
Proof.
  intros version parent name child k Hd Hk. apply is_dict_inv in Hd. destruct Hd as [d ->].
  unfold attach. destruct (assoc name (elems_of version)) as [k'|]; [|exact Hk].
  destruct (is_list_elem version name).
  - destruct (vget (VDict d) k'); rewrite vhas_vset; rewrite Hk; reflexivity.
  - rewrite vhas_vset. rewrite Hk. reflexivity.
Qed.

Lemma attach_single_vhas : forall version parent name child k,
  is_dict parent = true -> assoc name (elems_of version) = Some k ->
  vhas (attach version parent name child) k = true.
Proof.
  intros version parent name child k Hd Hk. apply is_dict_inv in Hd. destruct Hd as [d ->].
  unfold attach. rewrite Hk.
  destruct (is_list_elem version name).
  - destruct (vget (VDict d) k); rewrite vhas_vset; rewrite str_eqb_refl; apply orb_true_r.
  - rewrite vhas_vset. rewrite str_eqb_refl. apply orb_true_r.
Qed.

(* once the key of a single element is present, a later child of that name is refused *)
Lemma parse_kids_second : forall version name k r parent,
  is_list_elem version name = false ->
  assoc name (elems_of version) = Some k ->
  existsb (fun d => str_eqb (xname d) name) r = true ->
  is_dict parent = true -> vhas parent k = true ->
  exists e, parse_kids version r parent = Err e.
Proof.
  intros version name k r. induction r as [|d r IH]; intros parent Hl Hk Hex Hd Hh.
  - discriminate.
  - simpl in Hex. simpl. destruct (str_eqb (xname d) name) eqn:E.
    + apply str_eqb_true in E. rewrite E.
      unfold attach_check. rewrite Hl. rewrite Hk. rewrite Hh. exists ELmf. reflexivity.
    + simpl in Hex. apply bind_err. intros _ _. apply bind_err. intros dd _.
      apply IH; try assumption.
      * apply attach_is_dict. exact Hd.
      * apply attach_vhas; assumption.
Qed.

Lemma parse_kids_dup : forall version cs parent,
  dup_single_in version cs = true -> is_dict parent = true ->
  exists e, parse_kids version cs parent = Err e.
Proof.
  intros version cs. induction cs as [|c r IH]; intros parent H Hd.
  - discriminate.
  - simpl in H. simpl. apply orb_true_iff in H. destruct H as [H|H].
    + apply andb_true_iff in H. destruct H as [Hl Hex]. apply negb_true_iff in Hl.
      destruct (assoc (xname c) (elems_of version)) as [k|] eqn:Hk.
      * apply bind_err. intros _ _. apply bind_err. intros cd _.
        apply (parse_kids_second version (xname c) k); try assumption.
        -- apply attach_is_dict. exact Hd.
        -- apply attach_single_vhas; assumption.
      * unfold attach_check. rewrite Hl. rewrite Hk. exists ELmf. reflexivity.
    + apply bind_err. intros _ _. apply bind_err. intros cd _.
      apply IH; [exact H | apply attach_is_dict; exact Hd].
Qed.

Lemma start_attrs_is_dict : forall version name attrs, is_dict (start_attrs version name attrs) = true.
Proof. reflexivity. Qed.

Lemma dup_single_err : forall version t,
  has_dup_single version t = true -> exists e, parse_elem version t = Err e.
Proof.
  intro version. apply (xtree_ind' (fun t =>
    has_dup_single version t = true -> exists e, parse_elem version t = Err e)).
  intros n a tx cs IH H. simpl in H. rewrite parse_elem_eq.
  assert (Hk : exists e, parse_kids version cs (start_attrs version n a) = Err e).
  { apply orb_true_iff in H. destruct H as [H|H].
    - apply parse_kids_dup; [exact H | apply start_attrs_is_dict].
    - apply parse_kids_err. apply existsb_exists in H. destruct H as [c [Hin Hc]].
      apply Exists_exists. exists c. split; [exact Hin|]. right.
      rewrite Forall_forall in IH. apply (IH c Hin Hc). }
  destruct Hk as [e He]. rewrite He. exists e. reflexivity.
Qed.

Theorem duplicate_single_rejected : forall version t,
  has_dup_single version t = true -> exists e, parse_doc version t = Err e.
Proof.
  intros version t H. apply parse_doc_err. right. apply dup_single_err. exact H.
Qed.

Corollary duplicate_single_load_rejected : forall version t,
  has_dup_single version t = true -> exists e, load_tree version t = Err e.
Proof.
  intros version t H. destruct (duplicate_single_rejected version t H) as [e He].
  unfold load_tree. rewrite He. exists e. reflexivity.
Qed.

Example has_dup_single_ex :
  has_dup_single (s_ "1.1")
    (XNode (s_ "LexicalResource") [] []
       [XNode (s_ "Lexicon") [] []
          [XNode (s_ "LexicalEntry") [] []
             [XNode (s_ "Lemma") [] [] []; XNode (s_ "Sense") [] [] []; XNode (s_ "Lemma") [] [] []]]]) = true.
Proof. vm_compute. reflexivity. Qed.

(* ====================================================================== *)
(* (2d) the header                                                        *)
(* ====================================================================== *)

Theorem read_header_spec : forall l1 l2 v,
  read_header l1 l2 = Ok v <->
  (header_line l1 = xmldecl /\ utf8_valid (header_line l2) = true
   /\ assoc (header_line l2) doctypes = Some v).
Proof.
  intros l1 l2 v. unfold read_header. cbv zeta.
  destruct (str_eqb (header_line l1) xmldecl) eqn:E1; simpl negb; cbv iota.
  - apply str_eqb_true in E1.
    destruct (utf8_valid (header_line l2)) eqn:E2; simpl negb; cbv iota.
    + destruct (assoc (header_line l2) doctypes) as [w|] eqn:E3.
      * split.
        -- intro H. injection H as ->. auto.
        -- intros [_ [_ H]]. injection H as ->. reflexivity.
      * split; [discriminate | intros [_ [_ H]]; discriminate].
    + split; [discriminate | intros [_ [H _]]; discriminate].
  - split; [discriminate|]. intros [H _]. rewrite H in E1. rewrite str_eqb_refl in E1. discriminate.
Qed.

(* the other outcomes: LMFError, except for a DOCTYPE line that is not UTF-8 *)
Theorem read_header_errors : forall l1 l2 e,
  read_header l1 l2 = Err e ->
  (e = ELmf /\ (header_line l1 <> xmldecl \/ assoc (header_line l2) doctypes = None))
  \/ (e = EOther /\ header_line l1 = xmldecl /\ utf8_valid (header_line l2) = false).
Proof.
  intros l1 l2 e. unfold read_header. cbv zeta.
  destruct (str_eqb (header_line l1) xmldecl) eqn:E1; simpl negb; cbv iota.
  - apply str_eqb_true in E1.
    destruct (utf8_valid (header_line l2)) eqn:E2; simpl negb; cbv iota.
    + destruct (assoc (header_line l2) doctypes) as [w|] eqn:E3; [discriminate|].
      intro H. injection H as <-. left. auto.
    + intro H. injection H as <-. right. auto.
  - intro H. injection H as <-. left. split; [reflexivity|]. left. intro H.
    rewrite H in E1. rewrite str_eqb_refl in E1. discriminate.
Qed.

Lemma assoc_In : forall {T} k (l : list (str * T)) v, assoc k l = Some v -> In (k, v) l.
Proof.
  intros T k l v. induction l as [|[k0 v0] r IH]; simpl; intro H.
  - discriminate.
  - destruct (str_eqb k0 k) eqn:E.
    + apply str_eqb_true in E. injection H as ->. subst. left. reflexivity.
    + right. apply IH. exact H.
Qed.

Lemma doctypes_versions : map snd doctypes = supported_versions.
Proof. vm_compute. reflexivity. Qed.

(* the versions read_header can return are exactly SUPPORTED_VERSIONS *)
Theorem supported_iff : forall v,
  (exists l1 l2, read_header l1 l2 = Ok v) <-> str_mem v supported_versions = true.
Proof.
  intro v. split.
  - intros [l1 [l2 H]]. apply read_header_spec in H. destruct H as [_ [_ H]].
    apply assoc_In in H. apply str_mem_In. rewrite <- doctypes_versions.
    apply (in_map snd) in H. exact H.
  - intro H. apply str_mem_In in H.
    assert (Hs : exists schema, assoc v schemas = Some schema
                 /\ read_header xmldecl (doctype_of schema) = Ok v).
    { simpl in H. destruct H as [H|[H|[H|[H|[]]]]]; subst v;
        eexists; (split; [vm_compute; reflexivity | vm_compute; reflexivity]). }
    destruct Hs as [schema [_ Hr]]. exists xmldecl, (doctype_of schema). exact Hr.
Qed.

(* ====================================================================== *)
(* (2e) what dump writes starts with a header that load accepts           *)
(* ====================================================================== *)

Theorem dump_header_accepted : forall version resource text,
  dump version resource = Ok text ->
  exists line1 line2 rest,
    text = line1 ++ [c_nl] ++ line2 ++ [c_nl] ++ rest
    /\ read_header (line1 ++ [c_nl]) (line2 ++ [c_nl]) = Ok version.
Proof.
  intros version resource text H. unfold dump in H.
  destruct (str_mem version supported_versions) eqn:Hs; cbv beta iota zeta delta [negb] in H;
    [|discriminate].
  apply bind_ok in H. destruct H as [schema [Hsch H]].
  apply bind_ok in H. destruct H as [dc_uri [_ H]].
  apply bind_ok in H. destruct H as [_version [_ H]].
  apply bind_ok in H. destruct H as [lexv [_ H]].
  apply bind_ok in H. destruct H as [lexicons [_ H]].
  apply bind_ok in H. destruct H as [parts [_ H]].
  injection H as <-.
  exists xmldecl, (doctype_of schema). eexists. split; [reflexivity|].
  apply str_mem_In in Hs. simpl in Hs.
  destruct Hs as [Hv|[Hv|[Hv|[Hv|[]]]]]; subst version;
    vm_compute in Hsch; injection Hsch as <-; vm_compute; reflexivity.
Qed.

(* ====================================================================== *)
(* (2c) a Lexicon / LexicalEntry / Sense / Synset without an id           *)
(* ====================================================================== *)

(* ---- the element tables, for every version at once ---- *)
Definition all_pairs : list (str * str) := flat_map snd valid_elems.

Lemma elems_of_pairs : forall version n k,
  assoc n (elems_of version) = Some k -> In (n, k) all_pairs.
Proof.
  intros version n k H. unfold elems_of, assoc_d in H.
  destruct (assoc version valid_elems) as [T|] eqn:E.
  - apply assoc_In in E. apply assoc_In in H. unfold all_pairs. apply in_flat_map.
    exists (version, T). split; [exact E | exact H].
  - discriminate.
Qed.

Definition pair_mem (p : str * str) (l : list (str * str)) : bool :=
  existsb (fun q => str_eqb (fst q) (fst p) && str_eqb (snd q) (snd p)) l.
Lemma pair_mem_In : forall p l, pair_mem p l = true -> In p l.
Proof.
  intros [a b] l H. unfold pair_mem in H. apply existsb_exists in H.
  destruct H as [[a' b'] [Hin Hq]]. simpl in Hq. apply andb_true_iff in Hq.
  destruct Hq as [H1 H2]. apply str_eqb_true in H1. apply str_eqb_true in H2. subst. exact Hin.
Qed.

Definition pairs_functional (l : list (str * str)) : bool :=
  forallb (fun p => forallb (fun q => implb (str_eqb (fst p) (fst q)) (str_eqb (snd p) (snd q))) l) l.
Lemma all_pairs_functional : pairs_functional all_pairs = true.
Proof. vm_compute. reflexivity. Qed.

(* an element name has the same key in every version that knows it *)
Lemma elems_key : forall version n k k0,
  assoc n (elems_of version) = Some k -> In (n, k0) all_pairs -> k = k0.
Proof.
  intros version n k k0 H H0. apply elems_of_pairs in H.
  pose proof all_pairs_functional as F. unfold pairs_functional in F.
  rewrite forallb_forall in F. specialize (F _ H). rewrite forallb_forall in F.
  specialize (F _ H0). simpl in F. rewrite str_eqb_refl in F. simpl in F.
  apply str_eqb_true. exact F.
Qed.

(* no element is stored under the key "id" *)
Lemma elems_key_not_id : forall version n k,
  assoc n (elems_of version) = Some k -> str_eqb k (s_ "id") = false.
Proof.
  intros version n k H. apply elems_of_pairs in H.
  assert (F : forallb (fun p => negb (str_eqb (snd p) (s_ "id"))) all_pairs = true)
    by (vm_compute; reflexivity).
  rewrite forallb_forall in F. specialize (F _ H). simpl in F. apply negb_true_iff. exact F.
Qed.

(* ---- what the handlers keep ---- *)
Lemma parse_kids_is_dict : forall version cs parent d,
  parse_kids version cs parent = Ok d -> is_dict parent = true -> is_dict d = true.
Proof.
  intros version cs. induction cs as [|c r IH]; intros parent d H Hd; simpl in H.
  - injection H as <-. exact Hd.
  - apply bind_ok in H. destruct H as [u [_ H]]. apply bind_ok in H. destruct H as [cd [_ H]].
    apply (IH _ _ H). apply attach_is_dict. exact Hd.
Qed.

Lemma attach_vhas_id : forall version parent name child,
  is_dict parent = true ->
  vhas (attach version parent name child) (s_ "id") = vhas parent (s_ "id").
Proof.
  intros version parent name child Hd. apply is_dict_inv in Hd. destruct Hd as [d ->].
  unfold attach. destruct (assoc name (elems_of version)) as [k|] eqn:Hk; [|reflexivity].
  apply elems_key_not_id in Hk.
  destruct (is_list_elem version name).
  - destruct (vget (VDict d) k); rewrite vhas_vset; rewrite Hk; apply orb_false_r.
  - rewrite vhas_vset. rewrite Hk. apply orb_false_r.
Qed.

Lemma parse_kids_no_id : forall version cs parent d,
  parse_kids version cs parent = Ok d -> is_dict parent = true ->
  vhas parent (s_ "id") = false -> vhas d (s_ "id") = false.
Proof.
  intros version cs. induction cs as [|c r IH]; intros parent d H Hd Hn; simpl in H.
  - injection H as <-. exact Hn.
  - apply bind_ok in H. destruct H as [u [_ H]]. apply bind_ok in H. destruct H as [cd [_ H]].
    apply (IH _ _ H).
    + apply attach_is_dict. exact Hd.
    + rewrite attach_vhas_id by exact Hd. exact Hn.
Qed.

Definition no_id (t : xtree) : bool :=
  negb (existsb (fun kv => str_eqb (fst kv) (s_ "id")) (xattrs t)).

Lemma has_key_filter : forall k p (l : list (str * val)),
  has_key k l = false -> has_key k (filter p l) = false.
Proof.
  intros k p l H. unfold has_key in *. destruct (existsb _ (filter p l)) eqn:E; [|reflexivity].
  apply existsb_exists in E. destruct E as [x [Hin Hx]]. apply filter_In in Hin.
  destruct Hin as [Hin _].
  assert (existsb (fun kv => str_eqb (fst kv) k) l = true)
    by (apply existsb_exists; exists x; auto).
  congruence.
Qed.

Lemma existsb_map : forall {A B} (f : B -> bool) (g : A -> B) l,
  existsb f (map g l) = existsb (fun x => f (g x)) l.
Proof.
  intros A B f g l. induction l as [|x r IH]; simpl; [reflexivity | rewrite IH; reflexivity].
Qed.

Lemma start_attrs_no_id : forall version name attrs,
  existsb (fun kv => str_eqb (fst kv) (s_ "id")) attrs = false ->
  vhas (start_attrs version name attrs) (s_ "id") = false.
Proof.
  intros version name attrs H. unfold start_attrs. cbv zeta.
  change (vhas (VDict ?x) ?k) with (has_key k x).
  assert (H0 : has_key (s_ "id") (map (fun kv : str * str => (fst kv, VStr (snd kv))) attrs) = false).
  { unfold has_key. rewrite existsb_map. exact H. }
  assert (H1 : forall x k', str_eqb k' (s_ "id") = false -> has_key (s_ "id") x = false ->
                            forall v, has_key (s_ "id") (vset_list x k' v) = false).
  { intros x k' Hk Hx v. rewrite has_key_vset_list. rewrite Hx, Hk. reflexivity. }
  destruct (prefixb (s_ "External") name); destruct (is_cdata_elem version name);
    destruct (str_mem name meta_elems);
    repeat (apply H1; [reflexivity|]); try apply has_key_filter; exact H0.
Qed.


Lemma finish_other : forall d text k, is_dict d = true -> str_eqb (s_ "text") k = false ->
  vget (finish d text) k = vget d k /\ vhas (finish d text) k = vhas d k
  /\ is_dict (finish d text) = true.
Proof.
  intros d text k Hd Hk. apply is_dict_inv in Hd. destruct Hd as [kv ->]. unfold finish.
  destruct (vhas (VDict kv) (s_ "text")); [|auto].
  cbv zeta. destruct (val_eqb _ _); rewrite vget_vset_other by exact Hk;
    rewrite vhas_vset; rewrite Hk; rewrite orb_false_r; auto.
Qed.

Lemma parse_elem_ok : forall version t cd, parse_elem version t = Ok cd ->
  exists d0, parse_kids version (xchildren t) (start_attrs version (xname t) (xattrs t)) = Ok d0
             /\ cd = finish d0 (xtext t).
Proof.
  intros version [n a tx cs] cd H. rewrite parse_elem_eq in H. apply bind_ok in H.
  destruct H as [d0 [H1 H2]]. injection H2 as <-. exists d0. auto.
Qed.

(* an element written without an id attribute is loaded as a dictionary without "id" *)
Lemma parse_no_id : forall version t cd,
  no_id t = true -> parse_elem version t = Ok cd ->
  is_dict cd = true /\ vhas cd (s_ "id") = false.
Proof.
  intros version t cd Hn H. apply parse_elem_ok in H. destruct H as [d0 [Hk ->]].
  assert (Hd : is_dict d0 = true) by (apply (parse_kids_is_dict _ _ _ _ Hk); reflexivity).
  destruct (finish_other d0 (xtext t) (s_ "id") Hd eq_refl) as [_ [H2 H3]].
  split; [exact H3|]. rewrite H2. apply (parse_kids_no_id _ _ _ _ Hk); [reflexivity|].
  apply start_attrs_no_id. unfold no_id in Hn. apply negb_true_iff in Hn. exact Hn.
Qed.

(* ---- list children end up, in order of arrival, under their key ---- *)
Lemma vlist_in_vget : forall d k x, In x (vlist d k) -> exists l, vget d k = VList l /\ In x l.
Proof.
  intros d k x H. unfold vlist in H. destruct (vget d k); try contradiction.
  eexists. split; [reflexivity | exact H].
Qed.

Lemma attach_keeps : forall version parent name child k x u,
  is_dict parent = true -> attach_check version parent name = Ok u ->
  In x (vlist parent k) -> In x (vlist (attach version parent name child) k).
Proof.
  intros version parent name child k x u Hd Hc Hx. apply is_dict_inv in Hd. destruct Hd as [d ->].
  unfold attach. destruct (assoc name (elems_of version)) as [k'|] eqn:Hk; [|exact Hx].
  destruct (str_eqb k' k) eqn:E.
  - apply str_eqb_true in E. subst k'. destruct (vlist_in_vget _ _ _ Hx) as [l [Hg Hl]].
    destruct (is_list_elem version name) eqn:Hl'.
    + rewrite Hg. unfold vlist. rewrite vget_vset_same. apply in_or_app. left. exact Hl.
    + exfalso. unfold attach_check in Hc. rewrite Hl', Hk in Hc.
      destruct (vhas (VDict d) k) eqn:Hh; [discriminate|].
      rewrite (vhas_false_vget _ _ Hh) in Hg. discriminate.
  - unfold vlist in *. destruct (is_list_elem version name).
    + destruct (vget (VDict d) k'); rewrite vget_vset_other by exact E; exact Hx.
    + rewrite vget_vset_other by exact E. exact Hx.
Qed.

Lemma attach_adds : forall version parent name child k,
  is_dict parent = true -> is_list_elem version name = true ->
  assoc name (elems_of version) = Some k ->
  In child (vlist (attach version parent name child) k).
Proof.
  intros version parent name child k Hd Hl Hk. apply is_dict_inv in Hd. destruct Hd as [d ->].
  unfold attach. rewrite Hk, Hl. unfold vlist.
  destruct (vget (VDict d) k); rewrite vget_vset_same; try (left; reflexivity).
  apply in_or_app. right. left. reflexivity.
Qed.

Lemma parse_kids_keeps : forall version r parent d k x,
  parse_kids version r parent = Ok d -> is_dict parent = true ->
  In x (vlist parent k) -> In x (vlist d k).
Proof.
  intros version r. induction r as [|c r IH]; intros parent d k x H Hd Hx; simpl in H.
  - injection H as <-. exact Hx.
  - apply bind_ok in H. destruct H as [u [Hc H]]. apply bind_ok in H. destruct H as [cd [_ H]].
    apply (IH _ _ _ _ H).
    + apply attach_is_dict. exact Hd.
    + apply (attach_keeps _ _ _ _ _ _ u); assumption.
Qed.

Lemma parse_kids_member : forall version cs parent d c k,
  parse_kids version cs parent = Ok d -> is_dict parent = true -> In c cs ->
  is_list_elem version (xname c) = true -> assoc (xname c) (elems_of version) = Some k ->
  exists cd, parse_elem version c = Ok cd /\ In cd (vlist d k).
Proof.
  intros version cs. induction cs as [|c0 r IH]; intros parent d c k H Hd Hin Hl Hk.
  - contradiction.
  - simpl in H. apply bind_ok in H. destruct H as [u [Hc H]].
    apply bind_ok in H. destruct H as [cd [Hp H]].
    destruct Hin as [->|Hin].
    + exists cd. split; [exact Hp|]. apply (parse_kids_keeps _ _ _ _ _ _ H).
      * apply attach_is_dict. exact Hd.
      * apply attach_adds; assumption.
    + apply (IH _ _ _ _ H); try assumption. apply attach_is_dict. exact Hd.
Qed.

Lemma parse_kids_ok_in_elems : forall version cs parent d c,
  parse_kids version cs parent = Ok d -> In c cs -> in_elems version (xname c) = true.
Proof.
  intros version cs parent d c H Hin. destruct (in_elems version (xname c)) eqn:E; [reflexivity|].
  exfalso. destruct (parse_kids_err version cs parent) as [e He].
  - apply Exists_exists. exists c. split; [exact Hin | left; exact E].
  - rewrite He in H. discriminate.
Qed.

(* a child whose name is one of [names] (all list elements stored under [key]) *)
Lemma child_member : forall version t cd c names key,
  parse_elem version t = Ok cd -> In c (xchildren t) -> str_mem (xname c) names = true ->
  forallb (fun n => str_mem n list_elems && pair_mem (n, key) all_pairs) names = true ->
  str_eqb (s_ "text") key = false ->
  is_dict cd = true
  /\ exists l ccd, vget cd key = VList l /\ In ccd l /\ parse_elem version c = Ok ccd.
Proof.
  intros version t cd c names key H Hin Hn Hnames Ht.
  apply parse_elem_ok in H. destruct H as [d0 [Hk ->]].
  assert (Hd : is_dict d0 = true) by (apply (parse_kids_is_dict _ _ _ _ Hk); reflexivity).
  destruct (finish_other d0 (xtext t) key Hd Ht) as [H1 [_ H3]]. split; [exact H3|].
  pose proof (parse_kids_ok_in_elems _ _ _ _ _ Hk Hin) as Hie.
  apply str_mem_In in Hn. rewrite forallb_forall in Hnames. specialize (Hnames _ Hn).
  apply andb_true_iff in Hnames. destruct Hnames as [Hle Hpm]. apply pair_mem_In in Hpm.
  unfold in_elems in Hie. destruct (assoc (xname c) (elems_of version)) as [k|] eqn:Hak; [|discriminate].
  assert (k = key) by (apply (elems_key version (xname c)); assumption). subst k.
  assert (Hl : is_list_elem version (xname c) = true).
  { unfold is_list_elem, in_elems. rewrite Hle, Hak. reflexivity. }
  destruct (parse_kids_member _ _ _ _ _ _ Hk eq_refl Hin Hl Hak) as [ccd [Hp Hm]].
  destruct (vlist_in_vget _ _ _ Hm) as [l [Hg Hl2]].
  exists l, ccd. rewrite H1. auto.
Qed.

(* ---- validation fails on a dictionary without "id" ---- *)
Lemma assert_in_missing : forall k d, is_dict d = true -> vhas d k = false ->
  assert_in k d = Err EAssert.
Proof.
  intros k d Hd H. apply is_dict_inv in Hd. destruct Hd as [kv ->].
  cbv beta iota delta [assert_in py_in bind]. rewrite H. reflexivity.
Qed.

Lemma validate_lexicon_no_id : forall elem b, is_dict elem = true -> vhas elem (s_ "id") = false ->
  _validate_lexicon elem b = Err EAssert.
Proof.
  intros elem b Hd H. unfold _validate_lexicon. cbn [map forM].
  rewrite (assert_in_missing _ _ Hd H). reflexivity.
Qed.
Lemma validate_entry_no_id : forall elem b, is_dict elem = true -> vhas elem (s_ "id") = false ->
  _validate_entry b elem = Err EAssert.
Proof.
  intros elem b Hd H. unfold _validate_entry. rewrite (assert_in_missing _ _ Hd H). reflexivity.
Qed.
Lemma validate_sense_no_id : forall elem b, is_dict elem = true -> vhas elem (s_ "id") = false ->
  _validate_sense b elem = Err EAssert.
Proof.
  intros elem b Hd H. unfold _validate_sense. rewrite (assert_in_missing _ _ Hd H). reflexivity.
Qed.
Lemma validate_synset_no_id : forall elem b, is_dict elem = true -> vhas elem (s_ "id") = false ->
  _validate_synset b elem = Err EAssert.
Proof.
  intros elem b Hd H. unfold _validate_synset. rewrite (assert_in_missing _ _ Hd H). reflexivity.
Qed.

Lemma vget_list_vhas : forall d k l, vget d k = VList l -> vhas d k = true.
Proof.
  intros d k l H. destruct (vhas d k) eqn:E; [reflexivity|].
  rewrite (vhas_false_vget _ _ E) in H. discriminate.
Qed.

Lemma upd_list_err : forall d k F l, is_dict d = true -> vget d k = VList l ->
  (exists e, F l = Err e) -> exists e, upd_list d k F = Err e.
Proof.
  intros d k F l Hd Hg [e He]. apply is_dict_inv in Hd. destruct Hd as [kv ->].
  unfold upd_list, py_get_d. rewrite (vget_list_vhas _ _ _ Hg). rewrite Hg.
  cbn [bind py_iter]. rewrite He. exists e. reflexivity.
Qed.

Lemma for_get_list : forall d k l, is_dict d = true -> vget d k = VList l -> for_get d k = Ok l.
Proof.
  intros d k l Hd Hg. apply is_dict_inv in Hd. destruct Hd as [kv ->].
  unfold for_get, py_get_d. rewrite (vget_list_vhas _ _ _ Hg). rewrite Hg. reflexivity.
Qed.

(* d' is a dictionary with the same value under k as d *)
Definition same_at (k : str) (d d' : val) : Prop := is_dict d' = true /\ vget d' k = vget d k.

Lemma same_at_refl : forall k d, is_dict d = true -> same_at k d d.
Proof. intros k d H. split; [exact H | reflexivity]. Qed.
Lemma same_at_vset : forall k d d' k' v, same_at k d d' -> str_eqb k' k = false ->
  same_at k d (vset d' k' v).
Proof.
  intros k d d' k' v [H1 H2] Hk. split; [apply vset_is_dict; exact H1|].
  apply is_dict_inv in H1. destruct H1 as [kv ->]. rewrite vget_vset_other by exact Hk. exact H2.
Qed.
Lemma same_at_setdefault : forall k d d' d'' k' v, setdefault d' k' v = Ok d'' ->
  same_at k d d' -> str_eqb k' k = false -> same_at k d d''.
Proof.
  intros k d d' d'' k' v H S Hk. unfold setdefault in H. destruct d'; try discriminate.
  injection H as <-.
  match goal with |- same_at _ _ (if ?c then _ else _) => destruct c end;
    [exact S | apply (same_at_vset k d (VDict d0) k' v S Hk)].
Qed.
Lemma same_at_upd_list : forall k d d' d'' k' F, upd_list d' k' F = Ok d'' ->
  same_at k d d' -> str_eqb k' k = false -> same_at k d d''.
Proof.
  intros k d d' d'' k' F H S Hk. unfold upd_list in H.
  apply bind_ok in H. destruct H as [l [_ H]]. apply bind_ok in H. destruct H as [items [_ H]].
  apply bind_ok in H. destruct H as [items' [_ H]]. injection H as <-.
  destruct l; try exact S. destruct (vhas d' k'); [apply same_at_vset; assumption | exact S].
Qed.

Ltac same_at_tac S :=
  repeat first
    [ exact S
    | apply same_at_vset; [|reflexivity]
    | match goal with
      | |- same_at _ _ (if ?c then _ else _) => destruct c
      | |- same_at _ _ (match ?x with _ => _ end) => destruct x
      end ].

Lemma validate_entry_bad_sense : forall ext ed l sd,
  is_dict ed = true -> vget ed (s_ "senses") = VList l -> In sd l ->
  is_dict sd = true -> vhas sd (s_ "id") = false ->
  exists e, _validate_entry ext ed = Err e.
Proof.
  intros ext ed l sd Hd Hg Hin Hsd Hsn. unfold _validate_entry.
  apply bind_err; intros u1 _.
  apply bind_err; intros extv _.
  apply bind_err; intros u2 _.
  apply bind_err; intros lemma _.
  apply bind_err; intros elem1 He1.
  assert (S1 : same_at (s_ "senses") ed elem1).
  { destruct (vtruthy extv).
    - injection He1 as <-. apply same_at_refl. exact Hd.
    - apply bind_ok in He1. destruct He1 as [u [_ He1]].
      apply (same_at_setdefault _ _ _ _ _ _ He1); [apply same_at_refl; exact Hd | reflexivity]. }
  apply bind_err; intros u3 _.
  apply bind_err; intros formsv _.
  apply bind_err; intros forms _.
  apply bind_err; intros u4 _.
  apply bind_err; intros u5 _.
  cbv zeta.
  apply bind_err; intros all' _.
  match goal with
  | |- exists e, bind (upd_list ?E ?K ?F) _ = Err e =>
      assert (S3 : same_at (s_ "senses") ed E); [same_at_tac S1 |];
      destruct (upd_list_err E K F l (proj1 S3)) as [e0 He0];
        [ rewrite (proj2 S3); exact Hg
        | unfold _validate_senses; apply (mapM_err _ l sd Hin);
          exists EAssert; apply validate_sense_no_id; assumption
        | rewrite He0; exists e0; reflexivity ]
  end.
Qed.

Lemma validate_lexicon_bad_entry : forall b cd l ed,
  is_dict cd = true -> vget cd (s_ "entries") = VList l -> In ed l ->
  (forall ext, exists e, _validate_entry ext ed = Err e) ->
  exists e, _validate_lexicon cd b = Err e.
Proof.
  intros b cd l ed Hd Hg Hin Hbad. unfold _validate_lexicon.
  apply bind_err; intros u1 _.
  apply bind_err; intros reqs _.
  apply bind_err; intros u2 _.
  match goal with
  | |- exists e, bind (upd_list ?E ?K ?F) _ = Err e =>
      destruct (upd_list_err E K F l Hd Hg) as [e0 He0];
        [ unfold _validate_entries; apply (mapM_err _ l ed Hin); apply Hbad
        | rewrite He0; exists e0; reflexivity ]
  end.
Qed.

Lemma validate_lexicon_bad_synset : forall b cd l sd,
  is_dict cd = true -> vget cd (s_ "synsets") = VList l -> In sd l ->
  is_dict sd = true -> vhas sd (s_ "id") = false ->
  exists e, _validate_lexicon cd b = Err e.
Proof.
  intros b cd l sd Hd Hg Hin Hsd Hsn. unfold _validate_lexicon.
  apply bind_err; intros u1 _.
  apply bind_err; intros reqs _.
  apply bind_err; intros u2 _.
  apply bind_err; intros elem1 He1.
  assert (S1 : same_at (s_ "synsets") cd elem1).
  { apply (same_at_upd_list _ _ _ _ _ _ He1); [apply same_at_refl; exact Hd | reflexivity]. }
  match goal with
  | |- exists e, bind (upd_list ?E ?K ?F) _ = Err e =>
      destruct (upd_list_err E K F l (proj1 S1)) as [e0 He0];
        [ rewrite (proj2 S1); exact Hg
        | unfold _validate_synsets; apply (mapM_err _ l sd Hin);
          exists EAssert; apply validate_synset_no_id; assumption
        | rewrite He0; exists e0; reflexivity ]
  end.
Qed.

Lemma validate_bad : forall cd,
  (forall b, exists e, _validate_lexicon cd b = Err e) -> exists e, _validate cd = Err e.
Proof.
  intros cd H. unfold _validate. apply bind_err; intros ext _.
  destruct (vtruthy ext).
  - apply bind_err; intros u1 _. apply bind_err; intros u2 _. apply H.
  - apply H.
Qed.

(* ---- the fault, as a boolean predicate on the document tree ---- *)
Definition named (names : list string) (t : xtree) : bool := str_mem (xname t) (map s_ names).
Definition bad_sense (s : xtree) : bool :=
  named ["Sense"; "ExternalSense"]%string s && no_id s.
Definition bad_entry (e : xtree) : bool :=
  named ["LexicalEntry"; "ExternalLexicalEntry"]%string e
  && (no_id e || existsb bad_sense (xchildren e)).
Definition bad_synset (ss : xtree) : bool :=
  named ["Synset"; "ExternalSynset"]%string ss && no_id ss.
Definition bad_lexicon (lex : xtree) : bool :=
  named ["Lexicon"; "LexiconExtension"]%string lex
  && (no_id lex || existsb bad_entry (xchildren lex) || existsb bad_synset (xchildren lex)).
(* t is the document element: one of its lexicons, or an entry or synset of a
   lexicon, or a sense of an entry, has no id attribute *)
Definition missing_id (t : xtree) : bool := existsb bad_lexicon (xchildren t).

Lemma bad_entry_err : forall version e ed, bad_entry e = true -> parse_elem version e = Ok ed ->
  forall ext, exists err, _validate_entry ext ed = Err err.
Proof.
  intros version e ed Hb Hp ext. unfold bad_entry in Hb. apply andb_true_iff in Hb.
  destruct Hb as [_ Hb]. apply orb_true_iff in Hb. destruct Hb as [Hb|Hb].
  - destruct (parse_no_id _ _ _ Hb Hp) as [H1 H2]. exists EAssert.
    apply validate_entry_no_id; assumption.
  - apply existsb_exists in Hb. destruct Hb as [s [Hin Hs]]. unfold bad_sense in Hs.
    apply andb_true_iff in Hs. destruct Hs as [Hn Hi].
    destruct (child_member version e ed s _ (s_ "senses") Hp Hin Hn eq_refl eq_refl)
      as [Hd [l [sd [Hg [Hl Hps]]]]].
    destruct (parse_no_id _ _ _ Hi Hps) as [H1 H2].
    apply (validate_entry_bad_sense ext ed l sd); assumption.
Qed.

Lemma bad_lexicon_err : forall version lex cd, bad_lexicon lex = true ->
  parse_elem version lex = Ok cd -> exists err, _validate cd = Err err.
Proof.
  intros version lex cd Hb Hp. apply validate_bad. intro b.
  unfold bad_lexicon in Hb. apply andb_true_iff in Hb. destruct Hb as [_ Hb].
  apply orb_true_iff in Hb. destruct Hb as [Hb|Hb]; [apply orb_true_iff in Hb; destruct Hb as [Hb|Hb]|].
  - destruct (parse_no_id _ _ _ Hb Hp) as [H1 H2]. exists EAssert.
    apply validate_lexicon_no_id; assumption.
  - apply existsb_exists in Hb. destruct Hb as [e [Hin He]].
    assert (Hn : named ["LexicalEntry"; "ExternalLexicalEntry"]%string e = true).
    { unfold bad_entry in He. apply andb_true_iff in He. apply He. }
    destruct (child_member version lex cd e _ (s_ "entries") Hp Hin Hn eq_refl eq_refl)
      as [Hd [l [ed [Hg [Hl Hpe]]]]].
    apply (validate_lexicon_bad_entry b cd l ed Hd Hg Hl).
    apply (bad_entry_err version e ed He Hpe).
  - apply existsb_exists in Hb. destruct Hb as [ss [Hin Hs]]. unfold bad_synset in Hs.
    apply andb_true_iff in Hs. destruct Hs as [Hn Hi].
    destruct (child_member version lex cd ss _ (s_ "synsets") Hp Hin Hn eq_refl eq_refl)
      as [Hd [l [sd [Hg [Hl Hps]]]]].
    destruct (parse_no_id _ _ _ Hi Hps) as [H1 H2].
    apply (validate_lexicon_bad_synset b cd l sd); assumption.
Qed.

Lemma py_item_singleton : forall k v key x, py_item (VDict [(k, v)]) key = Ok x -> x = v.
Proof.
  intros k v key x H. unfold py_item in H. simpl in H.
  destruct (str_eqb k key); simpl in H; [injection H as <-; reflexivity | discriminate].
Qed.

(* A Lexicon / LexiconExtension of the document, a LexicalEntry /
   ExternalLexicalEntry or Synset / ExternalSynset of such a lexicon, or a Sense /
   ExternalSense of such an entry, without an id attribute: load fails — with an
   AssertionError from _validate unless something else failed before.  These are
   exactly the positions _validate visits. *)
Theorem missing_id_rejected : forall version t,
  missing_id t = true -> exists e, load_tree version t = Err e.
Proof.
  intros version t H. unfold missing_id in H. apply existsb_exists in H.
  destruct H as [lex [Hin Hb]].
  assert (Hn : named ["Lexicon"; "LexiconExtension"]%string lex = true).
  { unfold bad_lexicon in Hb. apply andb_true_iff in Hb. apply Hb. }
  unfold load_tree. apply bind_err; intros root Hroot.
  rewrite parse_doc_eq in Hroot. apply bind_ok in Hroot. destruct Hroot as [u [Hc Hroot]].
  apply bind_ok in Hroot. destruct Hroot as [d [Hp Hroot]]. injection Hroot as <-.
  destruct (child_member version t d lex _ (s_ "lexicons") Hp Hin Hn eq_refl eq_refl)
    as [Hd [l [cd [Hg [Hl Hpl]]]]].
  apply bind_err; intros lr Hlr.
  apply bind_err; intros lexs Hlexs.
  assert (Hlr' : lr = d \/ lr = VList [d]).
  { unfold attach in Hlr. destruct (assoc (xname t) (elems_of version)) as [k|] eqn:Hk.
    - destruct (is_list_elem version (xname t)).
      + right. apply (py_item_singleton k _ _ _ Hlr).
      + left. apply (py_item_singleton k _ _ _ Hlr).
    - discriminate. }
  destruct Hlr' as [-> | ->].
  - rewrite (for_get_list d (s_ "lexicons") l Hd Hg) in Hlexs. injection Hlexs as <-.
    apply bind_err; intros lexs' Hlexs'. exfalso.
    destruct (mapM_err _validate l cd Hl (bad_lexicon_err version lex cd Hb Hpl)) as [e He].
    rewrite He in Hlexs'. discriminate.
  - discriminate.
Qed.

Example missing_id_ex :
  missing_id
    (XNode (s_ "LexicalResource") [] []
       [XNode (s_ "Lexicon") [(s_ "id", s_ "x")] []
          [XNode (s_ "LexicalEntry") [(s_ "id", s_ "e")] []
             [XNode (s_ "Lemma") [] [] []; XNode (s_ "Sense") [(s_ "synset", s_ "s")] [] []]]]) = true.
Proof. vm_compute. reflexivity. Qed.

(* the same at the level of load (header check first) *)
Lemma load_rejects : forall l1 l2 t,
  (forall version, exists e, load_tree version t = Err e) -> exists e, load l1 l2 t = Err e.
Proof. intros l1 l2 t H. unfold load. apply bind_err. intros version _. apply H. Qed.

Theorem load_rejects_unknown_element : forall l1 l2 t,
  (forall version, has_unknown version t = true) -> exists e, load l1 l2 t = Err e.
Proof. intros l1 l2 t H. apply load_rejects. intro v. apply unknown_element_load_rejected. apply H. Qed.
Theorem load_rejects_duplicate_single : forall l1 l2 t,
  (forall version, has_dup_single version t = true) -> exists e, load l1 l2 t = Err e.
Proof. intros l1 l2 t H. apply load_rejects. intro v. apply duplicate_single_load_rejected. apply H. Qed.
Theorem load_rejects_missing_id : forall l1 l2 t,
  missing_id t = true -> exists e, load l1 l2 t = Err e.
Proof. intros l1 l2 t H. apply load_rejects. intro v. apply missing_id_rejected. exact H. Qed.
(* more precisely, for the version the header announces *)
Theorem load_rejects_for_version : forall l1 l2 t version,
  read_header l1 l2 = Ok version ->
  (has_unknown version t = true \/ has_dup_single version t = true \/ missing_id t = true) ->
  exists e, load l1 l2 t = Err e.
Proof.
  intros l1 l2 t version Hh H. unfold load. rewrite Hh. simpl.
  destruct H as [H|[H|H]].
  - apply unknown_element_load_rejected. exact H.
  - apply duplicate_single_load_rejected. exact H.
  - apply missing_id_rejected. exact H.
Qed.

Print Assumptions unknown_element_rejected.
Print Assumptions unknown_element_load_rejected.
Print Assumptions duplicate_single_rejected.
Print Assumptions duplicate_single_load_rejected.
Print Assumptions missing_id_rejected.
Print Assumptions load_rejects_for_version.
Print Assumptions load_rejects_missing_id.
Print Assumptions read_header_spec.
Print Assumptions read_header_errors.
Print Assumptions supported_iff.
Print Assumptions dump_header_accepted.
