(* Proofs/Morphy.v — lemmas about Model/Morphy.v (C17). *)
From Coq Require Import String.
From Coq Require Import ZArith List Bool Lia.
Import ListNotations.
Require Import WnV.Base.Sx WnV.Gen.Morphy WnV.Model.Morphy.

(* ---------- strings: endswith / strip against the declarative spec ---------- *)

Lemma is_prefix_spec : forall a b, is_prefix a b = true <-> exists t, b = a ++ t.
Proof.
  induction a as [|x a IH]; intros b; simpl.
  - split; [intros _; exists b; reflexivity | reflexivity].
  - destruct b as [|y b].
    + split; [discriminate | intros [t Ht]; discriminate].
    + rewrite andb_true_iff, Z.eqb_eq, IH. split.
      * intros [-> [t ->]]. exists t. reflexivity.
      * intros [t Ht]. injection Ht as -> ->. split; [reflexivity | exists t; reflexivity].
Qed.

Lemma ends_with_spec : forall form suf,
    ends_with form suf = true <-> exists pre, form = pre ++ suf.
Proof.
  intros form suf. unfold ends_with. rewrite is_prefix_spec. split.
  - intros [t Ht]. exists (rev t).
    rewrite <- (rev_involutive form), Ht, rev_app_distr, rev_involutive. reflexivity.
  - intros [pre ->]. exists (rev pre). apply rev_app_distr.
Qed.

Lemma strip_spec : forall pre suf, suf <> [] -> strip (pre ++ suf) suf = pre.
Proof.
  intros pre suf Hs. unfold strip. destruct suf as [|c suf]; [congruence|].
  rewrite app_length.
  replace (length pre + length (c :: suf) - length (c :: suf)) with (length pre + 0) by lia.
  rewrite firstn_app_2. simpl. apply app_nil_r.
Qed.

(* A rule with a non-empty suffix applies exactly when the form is
   pre ++ suffix with pre non-empty, and then yields pre ++ replacement:
   in particular a suffix that is the whole word is never detached. *)
Lemma apply_rule_spec : forall form suf rep c, suf <> [] ->
    (apply_rule form (suf, rep) = Some c <->
     exists pre, pre <> [] /\ form = pre ++ suf /\ c = pre ++ rep).
Proof.
  intros form suf rep c Hs. unfold apply_rule. split.
  - destruct (ends_with form suf) eqn:He; simpl; [|discriminate].
    destruct (Nat.ltb (length suf) (length form)) eqn:Hl; [|discriminate].
    intro H. injection H as <-.
    apply ends_with_spec in He. destruct He as [pre ->].
    apply Nat.ltb_lt in Hl. rewrite app_length in Hl.
    exists pre. split; [|split; [reflexivity|]].
    + intro E. subst. simpl in Hl. lia.
    + rewrite strip_spec by assumption. reflexivity.
  - intros [pre [Hp [-> ->]]].
    assert (He : ends_with (pre ++ suf) suf = true) by (apply ends_with_spec; eauto).
    rewrite He. simpl.
    assert (Hl : Nat.ltb (length suf) (length (pre ++ suf)) = true).
    { apply Nat.ltb_lt. rewrite app_length. destruct pre; [congruence | simpl; lia]. }
    rewrite Hl, strip_spec by assumption. reflexivity.
Qed.

Lemma apply_rule_no_full_suppletion : forall form suf rep c,
    apply_rule form (suf, rep) = Some c -> length suf < length form.
Proof.
  intros form suf rep c. unfold apply_rule.
  destruct (ends_with form suf); simpl; [|discriminate].
  destruct (Nat.ltb (length suf) (length form)) eqn:Hl; [|discriminate].
  intros _. apply Nat.ltb_lt. exact Hl.
Qed.

(* ---------- the word inventory ---------- *)

Lemma lemmas_spec : forall W p l,
    In l (lemmas W p) <-> exists w, In w W /\ w_pos w = p /\ w_lemma w = l.
Proof.
  intros W p l. unfold lemmas. rewrite in_map_iff. split.
  - intros [w [Hl Hw]]. apply filter_In in Hw. destruct Hw as [Hw Hp].
    apply str_eqb_eq in Hp. eauto.
  - intros [w [Hw [Hp Hl]]]. exists w. split; [exact Hl|].
    apply filter_In. split; [exact Hw | apply str_eqb_eq; exact Hp].
Qed.

Lemma exc_spec : forall W p form l,
    In l (exc W p form) <->
    exists w, In w W /\ w_pos w = p /\ In form (w_others w) /\ w_lemma w = l.
Proof.
  intros W p form l. unfold exc. rewrite in_map_iff. split.
  - intros [w [Hl Hw]]. apply filter_In in Hw. destruct Hw as [Hw Hc].
    apply andb_true_iff in Hc. destruct Hc as [Hp Hf].
    apply str_eqb_eq in Hp. apply str_mem_In in Hf. eauto 6.
  - intros [w [Hw [Hp [Hf Hl]]]]. exists w. split; [exact Hl|].
    apply filter_In. split; [exact Hw|]. apply andb_true_iff. split.
    + apply str_eqb_eq. exact Hp.
    + apply str_mem_In. exact Hf.
Qed.

Lemma exc_sub_lemmas : forall W p form l, In l (exc W p form) -> In l (lemmas W p).
Proof.
  intros W p form l H. apply exc_spec in H. destruct H as [w [Hw [Hp [_ Hl]]]].
  apply lemmas_spec. eauto.
Qed.

(* ---------- _morphstr ---------- *)

Lemma morphstr_spec : forall T init W form p x,
    In x (morphstr T init W form p) <->
    (init = true /\ x = form /\ In form (lemmas W p))
    \/ (init = true /\ In x (exc W p form))
    \/ (exists r, In r (rules_for T p) /\ apply_rule form r = Some x
                  /\ (init = false \/ In x (lemmas W p))).
Proof.
  intros T init W form p x. unfold morphstr. rewrite in_app_iff. split.
  - intros [H|H].
    + destruct init; [|contradiction]. apply in_app_iff in H. destruct H as [H|H].
      * destruct (str_mem form (lemmas W p)) eqn:Hm; [|contradiction].
        destruct H as [<-|[]]. left. apply str_mem_In in Hm. auto.
      * right. left. auto.
    + right. right. apply in_flat_map in H. destruct H as [r [Hr Hx]].
      exists r. split; [exact Hr|].
      destruct (apply_rule form r) as [c|] eqn:Ha; [|contradiction].
      destruct (negb init || str_mem c (lemmas W p)) eqn:Hc; [|contradiction].
      destruct Hx as [<-|[]]. split; [reflexivity|].
      apply orb_true_iff in Hc. destruct Hc as [Hc|Hc].
      * left. destruct init; [discriminate | reflexivity].
      * right. apply str_mem_In. exact Hc.
  - intros [[-> [-> Hl]]|[[-> He]|[r [Hr [Ha Hc]]]]].
    + left. apply in_app_iff. left.
      apply str_mem_In in Hl. rewrite Hl. left. reflexivity.
    + left. apply in_app_iff. right. exact He.
    + right. apply in_flat_map. exists r. split; [exact Hr|]. rewrite Ha.
      assert (Hb : negb init || str_mem x (lemmas W p) = true).
      { apply orb_true_iff. destruct Hc as [->|Hc]; [left; reflexivity|].
        right. apply str_mem_In. exact Hc. }
      rewrite Hb. left. reflexivity.
Qed.

Lemma morphstr_init_sound : forall T W form p x,
    In x (morphstr T true W form p) -> In x (lemmas W p).
Proof.
  intros T W form p x H. apply morphstr_spec in H.
  destruct H as [[_ [-> Hl]]|[[_ He]|[r [_ [_ [Hc|Hc]]]]]].
  - exact Hl.
  - eapply exc_sub_lemmas. exact He.
  - discriminate.
  - exact Hc.
Qed.

(* ---------- the result dictionary ---------- *)

Definition entry_in (d : list (option str * list str)) (k : option str) (x : str) : Prop :=
  exists v, In (k, v) d /\ In x v.

Lemma okey_eqb_eq : forall a b, okey_eqb a b = true <-> a = b.
Proof.
  intros [a|] [b|]; simpl; split; intro H; try discriminate; try reflexivity.
  - apply str_eqb_eq in H. subst. reflexivity.
  - injection H as ->. apply str_eqb_refl.
Qed.

Lemma dict_update_entry : forall d k cands k' x,
    entry_in (dict_update d k cands) k' x <->
    entry_in d k' x \/ (k' = k /\ In x cands).
Proof.
  induction d as [|[k0 v0] d IH]; intros k cands k' x; simpl.
  - unfold entry_in. simpl. split.
    + intros [v [[H|[]] Hx]]. injection H as <- <-. right. auto.
    + intros [[v [[] _]]|[-> Hx]]. exists cands. auto.
  - destruct (okey_eqb k0 k) eqn:Hk.
    + apply okey_eqb_eq in Hk. subst k0. unfold entry_in. simpl. split.
      * intros [v [[H|H] Hx]].
        -- injection H as <- <-. apply in_app_iff in Hx. destruct Hx as [Hx|Hx].
           ++ left. exists v0. auto.
           ++ right. auto.
        -- left. exists v. auto.
      * intros [[v [[H|H] Hx]]|[-> Hx]].
        -- injection H as <- <-. exists (v0 ++ cands). split; [left; reflexivity|].
           apply in_app_iff. left. exact Hx.
        -- exists v. auto.
        -- exists (v0 ++ cands). split; [left; reflexivity|]. apply in_app_iff. right. exact Hx.
    + unfold entry_in in *. simpl. split.
      * intros [v [[H|H] Hx]].
        -- injection H as <- <-. left. exists v0. auto.
        -- destruct (proj1 (IH k cands k' x)) as [[v' [Hv' Hx']]|Hr].
           ++ exists v. auto.
           ++ left. exists v'. auto.
           ++ right. exact Hr.
      * intros [[v [[H|H] Hx]]|Hr].
        -- injection H as <- <-. exists v0. auto.
        -- destruct (proj2 (IH k cands k' x)) as [v' [Hv' Hx']].
           ++ left. exists v. auto.
           ++ exists v'. auto.
        -- destruct (proj2 (IH k cands k' x)) as [v' [Hv' Hx']].
           ++ right. exact Hr.
           ++ exists v'. auto.
Qed.

Lemma minus_In : forall a b x, In x (minus a b) <-> In x a /\ ~ In x b.
Proof.
  intros a b x. unfold minus. rewrite filter_In. split.
  - intros [Ha Hb]. split; [exact Ha|]. intro Hx. apply str_mem_In in Hx.
    rewrite Hx in Hb. discriminate.
  - intros [Ha Hb]. split; [exact Ha|].
    destruct (str_mem x b) eqn:Hm; [|reflexivity]. apply str_mem_In in Hm. contradiction.
Qed.

(* the fold of __call__: an entry of the final dictionary is an entry of the
   initial one or a candidate of one of the visited parts of speech *)
Lemma call_fold_entry : forall (cand : str -> list str) ps d k x,
    entry_in (fold_left (fun res p => match cand p with
                                      | [] => res
                                      | _ => dict_update res (Some p) (cand p)
                                      end) ps d) k x <->
    entry_in d k x \/ (exists p, In p ps /\ k = Some p /\ In x (cand p)).
Proof.
  intros cand. induction ps as [|p ps IH]; intros d k x; simpl.
  - split; [auto | intros [H|[p [[] _]]]; exact H].
  - rewrite IH. destruct (cand p) as [|c cs] eqn:Hc.
    + split.
      * intros [H|[q [Hq Hr]]]; [auto|]. right. exists q. auto.
      * intros [H|[q [[->|Hq] [Hk Hx]]]]; [auto| |].
        -- rewrite Hc in Hx. contradiction.
        -- right. exists q. auto.
    + rewrite dict_update_entry. split.
      * intros [[H|[-> Hx]]|[q [Hq Hr]]]; [auto| |].
        -- right. exists p. rewrite Hc. auto.
        -- right. exists q. auto.
      * intros [H|[q [[->|Hq] [Hk Hx]]]]; [auto| |].
        -- left. right. rewrite Hc in Hx. auto.
        -- right. exists q. auto.
Qed.

Definition pos_list (T : rules_tbl) (pos : option str) : list str :=
  match pos with
  | None => rule_keys T
  | Some p => if str_mem p (rule_keys T) then [p] else []
  end.

Lemma pos_list_spec : forall T pos p,
    In p (pos_list T pos) <-> In p (rule_keys T) /\ (pos = None \/ pos = Some p).
Proof.
  intros T [q|] p; simpl.
  - destruct (str_mem q (rule_keys T)) eqn:Hm; simpl.
    + apply str_mem_In in Hm. split.
      * intros [<-|[]]. auto.
      * intros [Hp [H|H]]; [discriminate|]. injection H as ->. auto.
    + split; [contradiction|]. intros [Hp [H|H]]; [discriminate|]. injection H as ->.
      apply str_mem_In in Hp. congruence.
  - split; [auto | tauto].
Qed.

(* __call__ characterised: what is under which key of the result *)
Theorem morphy_call_spec : forall T init W form pos k x,
    entry_in (morphy_call T init W form pos) k x <->
    (init = false /\ k = pos /\ x = form)
    \/ (exists p, k = Some p /\ In p (pos_list T pos)
                  /\ In x (morphstr T init W form p)
                  /\ ~ (init = false /\ pos = None /\ x = form)).
Proof.
  intros T init W form pos k x. unfold morphy_call. fold (pos_list T pos).
  set (no_pos := match pos with None => if init then [] else [form] | Some _ => [] end).
  rewrite (call_fold_entry (fun p => minus (morphstr T init W form p) no_pos)).
  assert (Hnp : forall y, In y no_pos <-> (init = false /\ pos = None /\ y = form)).
  { intro y. subst no_pos. destruct pos as [q|]; simpl.
    - split; [contradiction | intros [_ [H _]]; discriminate].
    - destruct init; simpl.
      + split; [contradiction | intros [H _]; discriminate].
      + split; [intros [<-|[]]; auto | intros [_ [_ ->]]; auto]. }
  split.
  - intros [[v [Hv Hx]]|[p [Hp [-> Hx]]]].
    + left. destruct init; simpl in Hv; [contradiction|].
      destruct Hv as [Hv|[]]. injection Hv as <- <-. destruct Hx as [<-|[]]. auto.
    + right. apply minus_In in Hx. destruct Hx as [Hx Hn]. exists p.
      repeat split; try assumption. intro H. apply Hn. apply Hnp. exact H.
  - intros [[-> [-> ->]]|[p [-> [Hp [Hx Hn]]]]].
    + left. exists [form]. simpl. auto.
    + right. exists p. repeat split; try assumption.
      apply minus_In. split; [exact Hx|]. intro H. apply Hn. apply Hnp. exact H.
Qed.

(* ---------- facts about the rule table the code has now (Gen) ---------- *)

Definition all_suffixes_nonempty (T : rules_tbl) : bool :=
  forallb (fun kv => forallb (fun r : rule => negb (Nat.eqb (length (fst r)) 0)) (snd kv)) T.

Lemma wn_rules_suffixes_nonempty : all_suffixes_nonempty wn_rules = true.
Proof. vm_compute. reflexivity. Qed.

Lemma rules_for_In : forall T p r, In r (rules_for T p) -> exists kv, In kv T /\ In r (snd kv).
Proof.
  intros T p r. unfold rules_for.
  destruct (find (fun kv => str_eqb (fst kv) p) T) as [kv|] eqn:Hf; [|contradiction].
  apply find_some in Hf. intro H. exists kv. tauto.
Qed.

Lemma wn_rule_suffix_nonempty : forall p suf rep,
    In (suf, rep) (rules_for wn_rules p) -> suf <> [].
Proof.
  intros p suf rep H. apply rules_for_In in H. destruct H as [kv [Hkv Hr]].
  pose proof wn_rules_suffixes_nonempty as Hall. unfold all_suffixes_nonempty in Hall.
  rewrite forallb_forall in Hall. specialize (Hall kv Hkv).
  rewrite forallb_forall in Hall. specialize (Hall (suf, rep) Hr). simpl in Hall.
  intro E. subst. discriminate.
Qed.

Lemma wn_rule_keys_are_pos : forallb (fun p => str_mem p parts_of_speech) (rule_keys wn_rules) = true.
Proof. vm_compute. reflexivity. Qed.

Definition sa (s : string) : str := str_of_string s.

Lemma adj_sat_shares_adj_rules :
  rules_for wn_rules (sa pos_ADJ_SAT) = rules_for wn_rules (sa pos_ADJ)
  /\ str_mem (sa pos_ADJ_SAT) (rule_keys wn_rules) = true.
Proof. vm_compute. split; reflexivity. Qed.

(* The detachment rules documented for Princeton WordNet's morphy(7WN). *)
Definition pwn_documented : list (string * list (string * string)) :=
  [ ("n", [("s", ""); ("ses", "s"); ("xes", "x"); ("zes", "z"); ("ches", "ch");
           ("shes", "sh"); ("men", "man"); ("ies", "y")]);
    ("v", [("s", ""); ("ies", "y"); ("es", "e"); ("es", ""); ("ed", "e"); ("ed", "");
           ("ing", "e"); ("ing", "")]);
    ("a", [("er", ""); ("est", ""); ("er", "e"); ("est", "e")]) ]%string.

Definition rule_eqb (a b : rule) : bool := str_eqb (fst a) (fst b) && str_eqb (snd a) (snd b).
Definition pwn_rules_included (T : rules_tbl) : bool :=
  forallb (fun kv : string * list (string * string) =>
             forallb (fun r : string * string =>
                        existsb (rule_eqb (sa (fst r), sa (snd r))) (rules_for T (sa (fst kv))))
                     (snd kv))
          pwn_documented.

Lemma wn_rules_include_pwn : pwn_rules_included wn_rules = true.
Proof. vm_compute. reflexivity. Qed.
