(* Proofs/Compose2.v — second stage of the capstone of C01 (continues Proofs/Compose.v):
   the members, children and attributes of the senses and synsets of a newly added lexicon, as the battery
   of Model/Core.v observes them ([project_sense], [project_synset]).

   Setting (as in Compose.v): a resource r with ONE new, non-extension lexicon L,
   add_lexical_resource d r nt = Ok d', T := conv d', lexid := next_rowid (lexicons of d), and any Wordnet w
   with wn_lexicon_ids w = [lexid] and wn_default_mode w = false (in the examples w comes from Wordnet_init).
   Hypotheses beyond Compose.v (booleans, with Examples [ex5_hypotheses]):
     wf_db5 d  : the stored child rows (sense/synset examples, counts, definitions, syntactic behaviours) carry
                 lexicon rowids below lexid; stored adjpositions / syntactic_behaviour_senses refer to sense
                 rowids, stored proposed_ilis to synset rowids, below the next ones  (implied by
                 AddProofs.fk_ok: [fk_ok_wf_db5])
     wf_lex5 L : the local senses have non-empty, pairwise distinct string ids; senses that are external or
                 belong to an external entry carry no examples / counts, external synsets no examples /
                 definitions
     rowids_okb "ilis" d, rowids_okb "lexfiles" d : rowids pairwise distinct in the two lookup tables of d
                 (preserved by add: [add_one_lexicon_rowids_ok]); only used for the ILI and the lexfile.

   Theorems (Forall2 against the document, i.e. in document order; the projections are list equalities):
     K5a_word_senses     Word_senses T x = the local senses of the entry, in document order (ids), each one a
                         listed sense
     K5a_synset_members  Synset_senses T y = [doc_members L ss]: the senses of L whose synset is ss, in document
                         order, STABLY SORTED BY [member_rank] = the position of the sense id in the `members`
                         of the (last) local synset naming it, 127 (DEFAULT_MEMBER_RANK) when none does; ties
                         (all the 127s) stay in document (= rowid) order.  So: the declared order for the
                         senses that `members` lists, followed by the unlisted ones in document order.
     K5b_senses          per listed sense [sense_report]: examples (texts, document order), counts (values),
                         adjposition, lexicalized flag, and frames = [doc_frames synbhrs s] for
                         _collect_frames L = Ok synbhrs: one frame text per occurrence of the sense id in the
                         senses of a collected frame, in the order of the frame map (a list equality: the
                         query scans syntactic_behaviour_senses in rowid order)
     K5c_synsets         per listed synset [synset_report]: lexicalized flag, examples, FIRST definition;
                         ss_ili = the document's ili when the ilis table of d' has a row for it (it was
                         there or was created as "presupposed"), None otherwise; Synset_lexfile likewise for
                         lexfiles; for ili = "in": Synset_ili is the proposed ILI with the text of the
                         ILIDefinition ([doc_ili_definition]) and no id
     (the part of speech of a synset is K2 of Compose.v)
     K6 (an extension of an installed base)
       ex6_extension / ex6_setting   databases built by the model from two documents: the base word lists the
                         base senses and the extension's new sense; the base sense / synset list the base
                         example followed by the extension's
       ex6_new_sense_not_last        "the base senses FOLLOWED BY the new sense" is FALSE for the model: the new
                         sense has entry_rank 0 (ranks restart from 0 in the extension) and is listed before
                         the second base sense — witness with exact ranks
       K6_new_sense      the general theorem for the new-sense part: the new local sense of an external entry
                         of an extension is listed by Word_senses of the base word, attached to the base
                         entry and base synset, with entry_rank = its position in the extension's entry;
                         [ex6_by_theorem] instantiates it

   METADATA: conv reads every metadata cell as NULL, so nothing here speaks about metadata: the metadata of
   examples, counts, definitions, senses, synsets, and the relations (whose dc:type lives in metadata) are
   outside this composition.  Counts are compared by value, examples / definitions by text. *)
From Coq Require Import ZArith List Bool Lia String Sorting.Sorted.
Import ListNotations.
Require Import WnV.Base.Sx WnV.Model.Spec WnV.Model.Val.
Require WnV.Model.Rel WnV.Model.Add WnV.Proofs.AddProofs WnV.Proofs.AddContent.
Require Import WnV.Model.Tables WnV.Model.Query WnV.Model.Core.
Require Import WnV.Proofs.CoreLemmas WnV.Proofs.QueryFacts WnV.Proofs.ScopeProofs WnV.Proofs.SearchProofs
        WnV.Proofs.NavProofs.
Require Import WnV.Proofs.Compose.
Local Open Scope Z_scope.
Local Open Scope string_scope.

(* ====================================================================== *)
(* Generic list lemmas                                                     *)
(* ====================================================================== *)
Lemma filter_map_comm : forall {X Y} (f : X -> Y) (p : Y -> bool) l,
    filter p (map f l) = map f (filter (fun x => p (f x)) l).
Proof.
  intros X Y f p l. induction l as [|x l IH]; simpl; [reflexivity|].
  destruct (p (f x)); simpl; rewrite IH; reflexivity.
Qed.
Lemma filter_ext_in' : forall {X} (p q : X -> bool) l, (forall x, In x l -> p x = q x) -> filter p l = filter q l.
Proof.
  intros X p q l H. induction l as [|x l IH]; simpl; [reflexivity|].
  rewrite (H x (or_introl eq_refl)), IH; [reflexivity|]. intros y Hy. apply H. right. exact Hy.
Qed.
Lemma insert_sorted_map : forall {X Y} (f : X -> Y) (le : Y -> Y -> bool) (le' : X -> X -> bool) x l,
    (forall a b, le (f a) (f b) = le' a b) ->
    insert_sorted le (f x) (map f l) = map f (insert_sorted le' x l).
Proof.
  intros X Y f le le' x l H. induction l as [|y l IH]; simpl; [reflexivity|].
  rewrite H. destruct (le' x y); simpl; [reflexivity|]. rewrite IH. reflexivity.
Qed.
Lemma stable_sort_map : forall {X Y} (f : X -> Y) (le : Y -> Y -> bool) (le' : X -> X -> bool) l,
    (forall a b, le (f a) (f b) = le' a b) ->
    stable_sort le (map f l) = map f (stable_sort le' l).
Proof.
  intros X Y f le le' l H. induction l as [|x l IH]; simpl; [reflexivity|].
  rewrite IH. apply insert_sorted_map. exact H.
Qed.
Lemma Sorted_unmap : forall {X Y} (Rl : Y -> Y -> Prop) (f : X -> Y) l,
    Sorted Rl (map f l) -> Sorted (fun a b => Rl (f a) (f b)) l.
Proof.
  intros X Y Rl f l. induction l as [|a l IH]; intro H; [constructor|].
  simpl in H. inversion H as [|a0 l0 Hs Hhd]. subst. constructor; [apply IH; exact Hs|].
  destruct l as [|b l']; constructor. simpl in Hhd. inversion Hhd. assumption.
Qed.
Lemma flat_map_flat_map : forall {X Y Z0} (f : Y -> list Z0) (g : X -> list Y) l,
    flat_map f (flat_map g l) = flat_map (fun x => flat_map f (g x)) l.
Proof.
  intros X Y Z0 f g l. induction l as [|x l IH]; simpl; [reflexivity|]. rewrite flat_map_app, IH. reflexivity.
Qed.
Lemma StronglySorted_impl : forall {X} (P Q : X -> X -> Prop) l,
    (forall a b, P a b -> Q a b) -> StronglySorted P l -> StronglySorted Q l.
Proof.
  intros X P Q l H Hs. induction Hs as [|a l Hs IH Hall]; constructor; [exact IH|].
  eapply Forall_impl; [|exact Hall]. intros b Hb. apply H. exact Hb.
Qed.
Lemma stable_sort_ext : forall {X} (le le' : X -> X -> bool) l,
    (forall a b, le a b = le' a b) -> stable_sort le l = stable_sort le' l.
Proof.
  intros X le le' l H. induction l as [|x l IH]; simpl; [reflexivity|]. rewrite IH.
  generalize (stable_sort le' l) as m. induction m as [|y m IHm]; simpl; [reflexivity|].
  rewrite H, IHm. reflexivity.
Qed.
Lemma Forall2_enum_in : forall {X Y} (P : Y -> X -> Prop) (f : Z * X -> Y) (l : list X) n,
    (forall kx, In kx (A.enumerate_from n l) -> P (f kx) (snd kx)) ->
    Forall2 P (map f (A.enumerate_from n l)) l.
Proof.
  intros X Y P f l n H. rewrite <- (enumerate_snd l n) at 2.
  induction (A.enumerate_from n l) as [|kx E IH]; simpl; constructor.
  - apply H. left. reflexivity.
  - apply IH. intros kx' Hkx'. apply H. right. exact Hkx'.
Qed.
(* filtering an enumeration on a property of the elements *)
Lemma map_filter_enum : forall {X Y} (g : X -> Y) (p : X -> bool) l n,
    map (fun kx : Z * X => g (snd kx)) (filter (fun kx : Z * X => p (snd kx)) (A.enumerate_from n l))
    = map g (filter p l).
Proof.
  intros X Y g p l. induction l as [|x l IH]; intro n; simpl; [reflexivity|].
  destruct (p x); simpl; rewrite IH; reflexivity.
Qed.
(* rows of the children of a list of parents: the children of one parent *)
Lemma filter_flat_map_own : forall {P0 C} (key : P0 -> Z) (rows : P0 -> list C) (q : C -> bool) ps p,
    NoDup (map key ps) -> In p ps ->
    (forall p' r, In p' ps -> In r (rows p') -> q r = Z.eqb (key p') (key p)) ->
    filter q (flat_map rows ps) = rows p.
Proof.
  intros P0 C key rows q ps p. induction ps as [|p0 ps IH]; intros Hnd Hin Hq; [destruct Hin|].
  simpl in Hnd. inversion Hnd as [|k0 ks Hnot Hnd']. subst. cbn [flat_map]. rewrite filter_app.
  destruct Hin as [->|Hin].
  - rewrite filter_all_in.
    2:{ intros r Hr. rewrite (Hq p r (or_introl eq_refl) Hr). apply Z.eqb_refl. }
    rewrite filter_none_in; [apply app_nil_r|].
    intros r Hr. apply in_flat_map in Hr. destruct Hr as [p' [Hp' Hr]].
    rewrite (Hq p' r (or_intror Hp') Hr). apply Z.eqb_neq. intro E. apply Hnot. rewrite <- E.
    apply in_map. exact Hp'.
  - rewrite filter_none_in.
    2:{ intros r Hr. rewrite (Hq p0 r (or_introl eq_refl) Hr). apply Z.eqb_neq. intro E. apply Hnot.
        rewrite E. apply in_map. exact Hin. }
    cbn [app]. apply IH; [exact Hnd'|exact Hin|].
    intros p' r Hp' Hr. apply Hq; [right; exact Hp'|exact Hr].
Qed.
(* reading numbered rows through readers that ignore the rowid *)
Lemma map_filter_numbered : forall {C Y} (typed : R.row -> C) (p : C -> bool) (f : C -> Y)
                                   (q : list R.cell -> bool) (f' : list R.cell -> Y) rows n,
    (forall k0 r, p (typed (R.CInt k0 :: r)) = q r) -> (forall k0 r, f (typed (R.CInt k0 :: r)) = f' r) ->
    map f (filter p (map typed (AC.number_from n rows))) = map f' (filter q rows).
Proof.
  intros C Y typed p f q f' rows n Hp Hf. revert n. induction rows as [|r rows IH]; intro n; simpl; [reflexivity|].
  rewrite Hp. destruct (q r); simpl; rewrite IH; [rewrite Hf|]; reflexivity.
Qed.

(* ====================================================================== *)
(* Ranks of the typed sense rows                                           *)
(* ====================================================================== *)
(* the rank of a sense among the members of its synset: its position in the last `members` list of a
   local synset that names it (ssrank is a dict: later entries overwrite), DEFAULT_MEMBER_RANK (127)
   when no local synset names it *)
Definition member_rank (L s : val) : Z :=
  match A.dict_get (AC.ssrank_of (A._synsets L)) (A.vgetk s "id") with
  | Some r => r
  | None => Constants.DEFAULT_MEMBER_RANK
  end.
Definition doc_bool (v : val) : bool :=
  match v with VBool b => b | VInt n => negb (Z.eqb n 0) | _ => false end.

Lemma mkS_ranks : forall L d d' k0 x,
    se_entry_rank (mkS L d d' (k0, x)) = Some (fst (snd x))
    /\ se_synset_rank (mkS L d d' (k0, x)) = Some (member_rank L (snd (snd x)))
    /\ se_lexicalized (mkS L d d' (k0, x))
       = doc_bool (A.vget_def (snd (snd x)) "lexicalized" (VBool true))
    /\ se_rowid (mkS L d d' (k0, x)) = k0
    /\ se_lexicon_rowid (mkS L d d' (k0, x)) = R.next_rowid (R.get_table d "lexicons").
Proof.
  intros L d d' k0 [[ke e] [j s]]. unfold mkS, rowS. cbn [fst snd]. rewrite sense_row_cells.
  unfold typed_sense, sense_of_row. cbn [se_entry_rank se_synset_rank se_lexicalized se_rowid se_lexicon_rowid].
  rewrite !col_conv_row. unfold R.cell_at. cbn [nth]. unfold member_rank. rewrite pv_vreq.
  repeat split; try reflexivity.
  destruct (A.vget_def s "lexicalized" (VBool true)) as [|b|n|t|l|kvs]; try reflexivity. destruct b; reflexivity.
Qed.

(* ====================================================================== *)
Section Added2.
Variables (nt : A.normtable) (L : val) (d d' : R.db).
Hypothesis Hadd : A.add_one_lexicon nt L d = R.Ok d'.
Hypothesis Hext : vtruthy (A.vgetk L "extends") = false.
Hypothesis Hdb : wf_db d = true.
Hypothesis HL : wf_lex_facts L.
Variable w : Wordnet.
Hypothesis Hw : wn_lexicon_ids w = [R.next_rowid (R.get_table d "lexicons")].
Hypothesis Hm : wn_default_mode w = false.

Local Notation lexid := (R.next_rowid (R.get_table d "lexicons")).
Local Notation les := (A._local_entries (A._entries L)).
Local Notation lss := (A._local_synsets (A._synsets L)).
Local Notation nE := (R.next_rowid (R.get_table d "entries")).
Local Notation nS := (R.next_rowid (R.get_table d "synsets")).
Local Notation nN := (R.next_rowid (R.get_table d "senses")).
Local Notation T := (conv d').
Local Notation X := (A.enumerate_from nN (sense_items_from nE les)).
Local Notation sitem := (Z * ((Z * val) * (Z * val)))%type.

Lemma scope_w : forall lx, _get_lexicon_ids T w lx = [lexid].
Proof. intro lx. unfold _get_lexicon_ids. rewrite Hm. exact Hw. Qed.

Lemma X_items : forall kx, In kx X -> In (snd kx) (sense_items_from nE les).
Proof. intros kx H. apply (enum_sense_items L d kx H). Qed.

(* the synset row a new sense refers to *)
Lemma X_synset : forall kx, In kx X ->
    exists ky, In ky (A.enumerate_from nS lss) /\ A.vgetk (snd (snd (snd kx))) "synset" = VStr (sid (snd ky))
               /\ se_synset_rowid (mkS L d d' kx) = fst ky /\ se_entry_rowid (mkS L d d' kx) = fst (fst (snd kx)).
Proof.
  intros [k0 x] Hkx. pose proof (X_items _ Hkx) as Hx. cbn [snd] in Hx.
  destruct (sense_synset_resolves L d HL x Hx) as [ky [Hky Ey]]. exists ky. cbn [fst snd].
  destruct (mkS_fields nt L d d' Hadd Hdb HL k0 x ky Hx Hky Ey) as (_ & _ & _ & F4 & F5).
  repeat split; assumption.
Qed.

(* the member / entry-sense query on the new lexicon *)
Definition src_of (st : sourcetype) (s : sense_row) : Z :=
  match st with by_entry => se_entry_rowid s | by_synset => se_synset_rowid s end.
Definition rank_of (st : sourcetype) (s : sense_row) : option Z :=
  match st with by_entry => se_entry_rank s | by_synset => se_synset_rank s end.

Lemma get_senses_new : forall rowid st,
    _get_senses T rowid st [lexid]
    = map (qOf d)
          (stable_sort (fun a b : sitem => oz_leb (rank_of st (mkS L d d' a)) (rank_of st (mkS L d d' b)))
                       (filter (fun kx : sitem => Z.eqb (src_of st (mkS L d d' kx)) rowid) X)).
Proof.
  intros rowid st. unfold _get_senses. fold (src_of st). fold (rank_of st).
  rewrite (typed_senses nt L d d' Hadd Hext HL), filter_app.
  rewrite (filter_none_in _ (t_senses (conv d))).
  2:{ intros s Hs. pose proof (wf_db_senses d s Hdb Hs) as Hlt. apply andb_false_iff. right.
      unfold z_in. cbn [existsb]. rewrite orb_false_r. apply Z.eqb_neq. lia. }
  cbn [app]. rewrite filter_map_comm.
  rewrite (filter_ext_in' _ (fun kx : sitem => Z.eqb (src_of st (mkS L d d' kx)) rowid)).
  2:{ intros [k0 x] _. destruct (mkS_ranks L d d' k0 x) as (_ & _ & _ & _ & E). rewrite E.
      unfold z_in. cbn [existsb]. rewrite Z.eqb_refl. cbn [orb]. apply andb_true_r. }
  unfold sort_by_oz.
  rewrite (stable_sort_map (mkS L d d') _
             (fun a b : sitem => oz_leb (rank_of st (mkS L d d' a)) (rank_of st (mkS L d d' b))))
    by (intros a b; reflexivity).
  rewrite flat_map_map. apply flat_map_single_in.
  intros kx Hkx. apply stable_sort_In in Hkx. apply filter_In in Hkx. destruct Hkx as [Hkx _].
  destruct (sense_columns_new nt L d d' Hadd Hdb HL kx (X_items kx Hkx)) as [ky [_ [_ Esc]]].
  rewrite Esc. reflexivity.
Qed.

(* ---------------------------------------------------------------------- *)
(* K5a — Word.senses()                                                     *)
(* ---------------------------------------------------------------------- *)
(* the sense items of one entry *)
Lemma sense_items_of_entry : forall l n ke,
    In ke (A.enumerate_from n l) ->
    filter (fun x : (Z * val) * (Z * val) => Z.eqb (fst (fst x)) (fst ke)) (sense_items_from n l)
    = map (fun js : Z * val => (ke, js)) (A.enumerate_from 0 (A._local_senses (A._senses (snd ke)))).
Proof.
  induction l as [|e l IH]; intros n ke Hin; [destruct Hin|].
  unfold sense_items_from. cbn [A.enumerate_from flat_map]. fold (sense_items_from (n + 1) l).
  rewrite filter_app. cbn [A.enumerate_from] in Hin. destruct Hin as [<-|Hin].
  - cbn [fst snd]. rewrite filter_all_in by (intros x Hx; apply in_map_iff in Hx; destruct Hx as [js [<- _]]; apply Z.eqb_refl).
    rewrite filter_none_in; [apply app_nil_r|].
    intros x Hx. destruct (sense_items_In _ _ _ Hx) as [Hk _]. apply enumerate_fst_ge in Hk.
    apply Z.eqb_neq. lia.
  - pose proof (enumerate_fst_ge _ _ _ Hin) as Hge.
    rewrite filter_none_in.
    2:{ intros x Hx. apply in_map_iff in Hx. destruct Hx as [js [<- _]]. cbn [fst]. apply Z.eqb_neq. lia. }
    cbn [app]. apply IH. exact Hin.
Qed.

Lemma Word_senses_new : forall ke x,
    In ke (A.enumerate_from nE les) -> wd__id x = fst ke -> wd_wordnet x = w ->
    Word_senses T x
    = map (fun kx : sitem => mk_Sense w (qOf d kx))
          (filter (fun kx : sitem => Z.eqb (fst (fst (snd kx))) (fst ke)) X).
Proof.
  intros ke x Hke Eid Ew. unfold Word_senses, get_entry_senses. rewrite Ew, scope_w, get_senses_new, Eid.
  rewrite map_map.
  rewrite (filter_ext_in' _ (fun kx : sitem => Z.eqb (fst (fst (snd kx))) (fst ke))).
  2:{ intros kx Hkx. destruct (X_synset kx Hkx) as [ky (_ & _ & _ & E)]. cbn [src_of]. rewrite E. reflexivity. }
  rewrite stable_sort_sorted_id; [reflexivity|].
  (* the entry ranks of the senses of one entry are their positions: already sorted *)
  set (F := filter (fun kx : sitem => Z.eqb (fst (fst (snd kx))) (fst ke)) X).
  assert (map (fun kx : sitem => fst (snd (snd kx))) F
          = map fst (A.enumerate_from 0 (A._local_senses (A._senses (snd ke))))) as Ej.
  { unfold F. rewrite (map_filter_enum (fun x0 : (Z * val) * (Z * val) => fst (snd x0))
                                       (fun x0 => Z.eqb (fst (fst x0)) (fst ke))).
    rewrite (sense_items_of_entry les nE ke Hke), map_map. reflexivity. }
  apply (Sorted_impl (fun a b : sitem => fst (snd (snd a)) <= fst (snd (snd b)))).
  - intros [ka xa] [kb xb] Hab. cbn [rank_of].
    destruct (mkS_ranks L d d' ka xa) as (Ea & _). destruct (mkS_ranks L d d' kb xb) as (Eb & _).
    rewrite Ea, Eb. cbn [oz_leb fst snd] in *. apply Z.leb_le. exact Hab.
  - apply (Sorted_unmap Z.le (fun kx : sitem => fst (snd (snd kx)))). rewrite Ej.
    apply StronglySorted_Sorted.
    apply (StronglySorted_map Z.le fst).
    apply (StronglySorted_impl (fun a b : Z * val => fst a < fst b)); [intros a b Hab; lia|].
    apply enumerate_StronglySorted.
Qed.
Lemma X_in_senses : forall kx, In kx X -> In (mk_Sense w (qOf d kx)) (Wordnet_senses T w None None).
Proof.
  intros kx H. rewrite (K4_rows nt L d d' Hadd Hext Hdb HL w Hw).
  apply (in_map (fun kx0 : sitem => mk_Sense w (qOf d kx0))). exact H.
Qed.

Lemma K5a_words_section :
  Forall2 (fun (x : Word) (e : val) =>
             map sn_id (Word_senses T x)
             = map (fun s => doc_text (A.vgetk s "id")) (A._local_senses (A._senses e))
             /\ forall sn, In sn (Word_senses T x) -> In sn (Wordnet_senses T w None None))
          (Wordnet_words T w None None) les.
Proof.
  rewrite (K3_rows nt L d d' Hadd Hext Hdb HL w Hw). apply Forall2_map_l.
  rewrite <- (enumerate_snd les nE) at 2. apply items_Forall2.
  intros nf ke Hke.
  rewrite (Word_senses_new ke _ Hke) by (cbn [mk_Word word_of_item wd__id wd_wordnet qw_rowid fst]; first [apply mkE_rowid|reflexivity]).
  split.
  - rewrite map_map. cbn [mk_Sense sn_id qOf qs_id].
    rewrite (map_filter_enum (fun x0 : (Z * val) * (Z * val) => doc_text (A.vgetk (snd (snd x0)) "id"))
                             (fun x0 => Z.eqb (fst (fst x0)) (fst ke))).
    rewrite (sense_items_of_entry les nE ke Hke), map_map. cbn [snd].
    rewrite <- (enumerate_snd (A._local_senses (A._senses (snd ke))) 0) at 2. rewrite map_map. reflexivity.
  - intros sn Hsn. apply in_map_iff in Hsn. destruct Hsn as [kx [<- Hkx]]. apply filter_In in Hkx.
    apply X_in_senses. tauto.
Qed.

(* ---------------------------------------------------------------------- *)
(* K5a — Synset.senses() (the members)                                     *)
(* ---------------------------------------------------------------------- *)
(* what the model yields: the senses of the lexicon that refer to the synset, in document order,
   stably sorted by [member_rank] *)
Definition refers_to (ss : val) (es : val * val) : bool :=
  str_eqb (doc_text (A.vgetk (snd es) "synset")) (sid ss).
Definition member_le (L0 : val) (a b : val * val) : bool :=
  Z.leb (member_rank L0 (snd a)) (member_rank L0 (snd b)).
Definition doc_members (L0 ss : val) : list (val * val) :=
  stable_sort (member_le L0) (filter (refers_to ss) (doc_senses L0)).

Local Notation g_es := (fun kx : sitem => (snd (fst (snd kx)), snd (snd (snd kx)))).

Lemma X_doc : map g_es X = doc_senses L.
Proof.
  rewrite <- (map_map snd (fun x0 : (Z * val) * (Z * val) => (snd (fst x0), snd (snd x0)))).
  rewrite enumerate_snd. apply sense_items_doc.
Qed.

Lemma X_refers : forall ky kx, In ky (A.enumerate_from nS lss) -> In kx X ->
    Z.eqb (se_synset_rowid (mkS L d d' kx)) (fst ky) = refers_to (snd ky) (g_es kx).
Proof.
  intros ky kx Hky Hkx. destruct (X_synset kx Hkx) as [ky' (Hky' & Ey & E & _)]. rewrite E.
  unfold refers_to. cbn [snd]. rewrite Ey. cbn [doc_text doc_otext].
  destruct (Z.eqb (fst ky') (fst ky)) eqn:Ek.
  - apply Z.eqb_eq in Ek.
    rewrite (NoDup_map_inj fst _ ky' ky (enumerate_fst_NoDup lss nS) Hky' Hky Ek). symmetry. apply str_eqb_refl.
  - destruct (str_eqb (sid (snd ky')) (sid (snd ky))) eqn:Es; [|reflexivity]. apply str_eqb_eq in Es.
    assert (ky' = ky) as ->.
    { apply (NoDup_map_inj (fun kx0 : Z * val => sid (snd kx0)) (A.enumerate_from nS lss)); try assumption.
      rewrite <- (map_map snd sid), enumerate_snd. exact (wl_synset_nodup L HL). }
    rewrite Z.eqb_refl in Ek. discriminate.
Qed.

Lemma Synset_senses_new : forall ky y,
    In ky (A.enumerate_from nS lss) -> ss__id y = fst ky -> ss_wordnet y = w ->
    exists G : list sitem,
      Synset_senses T y = map (fun kx : sitem => mk_Sense w (qOf d kx)) G
      /\ (forall kx, In kx G -> In kx X)
      /\ map g_es G = doc_members L (snd ky).
Proof.
  intros ky y Hky Eid Ew. unfold Synset_senses, get_synset_members. rewrite Ew, scope_w, get_senses_new, Eid.
  rewrite map_map. eexists. split; [reflexivity|]. split.
  - intros kx Hkx. apply stable_sort_In in Hkx. apply filter_In in Hkx. tauto.
  - unfold doc_members. rewrite <- X_doc.
    rewrite (stable_sort_ext _ (fun a b : sitem => member_le L (g_es a) (g_es b))).
    2:{ intros [ka xa] [kb xb]. cbn [rank_of].
        destruct (mkS_ranks L d d' ka xa) as (_ & Ea & _). destruct (mkS_ranks L d d' kb xb) as (_ & Eb & _).
        rewrite Ea, Eb. reflexivity. }
    rewrite <- (stable_sort_map g_es (member_le L)) by (intros a b; reflexivity). f_equal.
    rewrite filter_map_comm. f_equal. apply filter_ext_in'. intros kx Hkx. cbn [src_of].
    apply (X_refers ky kx Hky Hkx).
Qed.

Lemma K5a_synsets_section :
  Forall2 (fun (y : Synset) (ss : val) =>
             map (fun sn => (sn_entry_id sn, sn_id sn)) (Synset_senses T y)
             = map (fun es : val * val => (sid (fst es), doc_text (A.vgetk (snd es) "id"))) (doc_members L ss)
             /\ forall sn, In sn (Synset_senses T y) -> In sn (Wordnet_senses T w None None))
          (Wordnet_synsets T w None None None) lss.
Proof.
  rewrite (K2_rows nt L d d' w Hadd Hdb Hw). apply Forall2_enum_in. intros ky Hky.
  destruct (Synset_senses_new ky (doc_Synset T w d' lexid ky) Hky) as [G (EG & HG & Edoc)].
  - unfold doc_Synset. cbn [mk_Synset ss__id synset_columns qy_rowid]. apply (mkY_rowid d d' ky).
  - reflexivity.
  - rewrite EG. split.
    + rewrite <- Edoc, !map_map. reflexivity.
    + intros sn Hsn. apply in_map_iff in Hsn. destruct Hsn as [kx [<- Hkx]]. apply X_in_senses. apply HG. exact Hkx.
Qed.
End Added2.

(* ====================================================================== *)
(* The child tables of d', with the (empty) lexidmap made explicit          *)
(* ====================================================================== *)
Lemma children_tables : forall nt L d d',
    A.add_one_lexicon nt L d = R.Ok d' -> vtruthy (A.vgetk L "extends") = false ->
    let lx := R.next_rowid (R.get_table d "lexicons") in
    exists synbhrs,
      A._collect_frames L = R.Ok synbhrs
      /\ AC.App "counts" d d' (flat_map (AC.entry_count_rows d' lx []) (A._entries L))
      /\ AC.App "adjpositions" d d' (flat_map (AC.adjposition_rows d' lx []) (A._entries L))
      /\ AC.App "sense_examples" d d'
                (flat_map (AC.sense_example_rows d' lx []) (flat_map A._senses (A._entries L)))
      /\ AC.App "synset_examples" d d' (flat_map (AC.synset_example_rows d' lx []) (A._synsets L))
      /\ AC.App "definitions" d d' (flat_map (AC.definition_rows d' lx []) (A._synsets L))
      /\ AC.App "syntactic_behaviours" d d' (map (AC.sb_row lx) synbhrs)
      /\ AC.App "syntactic_behaviour_senses" d d' (flat_map (AC.sbs_rows d' lx []) (AC.framemap_of synbhrs)).
Proof.
  intros nt L d d' H Hext. AC.one_inv H.
  destruct (AC.app_insert_lexicon _ _ _ _ _ H2) as [_ Hlex].
  assert (m = []) as -> by (eapply not_extension_lexidmap; eassumption).
  destruct (AC.ins_insert_counts _ _ _ _ _ H10) as [Acnt _].
  destruct (AC.ins_insert_adjpositions _ _ _ _ _ H9) as [Aadj _].
  destruct (AC.ins_insert_sense_examples _ _ _ _ _ H15) as [Asex _].
  destruct (AC.ins_insert_synset_examples _ _ _ _ _ H16) as [Assx _].
  destruct (AC.ins_insert_synset_definitions _ _ _ _ _ H14) as [Adef _].
  destruct (AC.ins_insert_syntactic_behaviours _ _ _ _ _ H11) as (Asb1 & Asb2 & _).
  AC.oc_facts.
  assert (lexid = R.next_rowid (R.get_table d "lexicons")) as <-.
  { rewrite Hlex. AC.tbl_eq "lexicons". reflexivity. }
  cbv zeta. exists sb. split; [exact Hsb|]. repeat split.
  - rewrite (flat_map_ext _ (AC.entry_count_rows d9 lexid [])).
    + unfold AC.App in *. AC.tbl_eq "counts". rewrite Acnt. AC.tbl_eq "counts". reflexivity.
    + intro e. unfold AC.entry_count_rows. apply flat_map_ext. intro s. apply map_ext. intro c.
      apply AC.count_row_ext. AC.tbl_eq "senses". reflexivity.
  - rewrite (flat_map_ext _ (AC.adjposition_rows d8 lexid [])).
    + unfold AC.App in *. AC.tbl_eq "adjpositions". rewrite Aadj. AC.tbl_eq "adjpositions". reflexivity.
    + intro e. apply AC.adjposition_rows_ext. AC.tbl_eq "senses". reflexivity.
  - rewrite (flat_map_ext _ (AC.sense_example_rows d14 lexid [])).
    + unfold AC.App in *. AC.tbl_eq "sense_examples". rewrite Asex. AC.tbl_eq "sense_examples". reflexivity.
    + intro s. unfold AC.sense_example_rows. rewrite (AC.sense_ref_ext d14 d'); [reflexivity|].
      AC.tbl_eq "senses". reflexivity.
  - rewrite (flat_map_ext _ (AC.synset_example_rows d15 lexid [])).
    + unfold AC.App in *. rewrite Assx. AC.tbl_eq "synset_examples". reflexivity.
    + intro s. unfold AC.synset_example_rows. rewrite (AC.synset_ref_ext d15 d'); [reflexivity|].
      AC.tbl_eq "synsets". reflexivity.
  - rewrite (flat_map_ext _ (AC.definition_rows d13 lexid [])).
    + unfold AC.App in *. AC.tbl_eq "definitions". rewrite Adef. AC.tbl_eq "definitions". reflexivity.
    + intro s. unfold AC.definition_rows. apply map_ext. intro df.
      apply AC.definition_row_ext; [AC.tbl_eq "synsets"|AC.tbl_eq "senses"]; reflexivity.
  - unfold AC.App in *. AC.tbl_eq "syntactic_behaviours". rewrite Asb1. AC.tbl_eq "syntactic_behaviours". reflexivity.
  - rewrite (flat_map_ext _ (AC.sbs_rows d11 lexid [])).
    + unfold AC.App in *. AC.tbl_eq "syntactic_behaviour_senses". rewrite Asb2.
      AC.tbl_eq "syntactic_behaviour_senses". reflexivity.
    + intros [fr sids]. unfold AC.sbs_rows. cbn [fst snd]. apply map_ext. intro sid0.
      apply AC.sbs_row_ext; [AC.tbl_eq "syntactic_behaviours"|AC.tbl_eq "senses"]; reflexivity.
Qed.

(* ---------- the bridge for the child tables ---------- *)
Lemma conv_sense_examples : forall d,
    t_sense_examples (conv d) = map (fun r => example_of_row (conv_row r)) (R.get_table d "sense_examples").
Proof. intro d. unfold conv, db_of_sx. cbn [t_sense_examples]. rewrite table_rows_conv, map_map. reflexivity. Qed.
Lemma conv_synset_examples : forall d,
    t_synset_examples (conv d) = map (fun r => example_of_row (conv_row r)) (R.get_table d "synset_examples").
Proof. intro d. unfold conv, db_of_sx. cbn [t_synset_examples]. rewrite table_rows_conv, map_map. reflexivity. Qed.
Lemma conv_counts : forall d,
    t_counts (conv d) = map (fun r => count_of_row (conv_row r)) (R.get_table d "counts").
Proof. intro d. unfold conv, db_of_sx. cbn [t_counts]. rewrite table_rows_conv, map_map. reflexivity. Qed.
Lemma conv_adjpositions : forall d,
    t_adjpositions (conv d) = map (fun r => adjposition_of_row (conv_row r)) (R.get_table d "adjpositions").
Proof. intro d. unfold conv, db_of_sx. cbn [t_adjpositions]. rewrite table_rows_conv, map_map. reflexivity. Qed.
Lemma conv_definitions : forall d,
    t_definitions (conv d) = map (fun r => definition_of_row (conv_row r)) (R.get_table d "definitions").
Proof. intro d. unfold conv, db_of_sx. cbn [t_definitions]. rewrite table_rows_conv, map_map. reflexivity. Qed.
Lemma conv_syntactic_behaviours : forall d,
    t_syntactic_behaviours (conv d)
    = map (fun r => syntactic_behaviour_of_row (conv_row r)) (R.get_table d "syntactic_behaviours").
Proof. intro d. unfold conv, db_of_sx. cbn [t_syntactic_behaviours]. rewrite table_rows_conv, map_map. reflexivity. Qed.
Lemma conv_syntactic_behaviour_senses : forall d,
    t_syntactic_behaviour_senses (conv d)
    = map (fun r => syntactic_behaviour_sense_of_row (conv_row r)) (R.get_table d "syntactic_behaviour_senses").
Proof. intro d. unfold conv, db_of_sx. cbn [t_syntactic_behaviour_senses]. rewrite table_rows_conv, map_map. reflexivity. Qed.
Lemma conv_proposed_ilis : forall d,
    t_proposed_ilis (conv d) = map (fun r => proposed_ili_of_row (conv_row r)) (R.get_table d "proposed_ilis").
Proof. intro d. unfold conv, db_of_sx. cbn [t_proposed_ilis]. rewrite table_rows_conv, map_map. reflexivity. Qed.
Lemma conv_ilis : forall d,
    t_ilis (conv d) = map (fun r => ili_of_row (conv_row r)) (R.get_table d "ilis").
Proof. intro d. unfold conv, db_of_sx. cbn [t_ilis]. rewrite table_rows_conv, map_map. reflexivity. Qed.
Lemma conv_lexfiles : forall d,
    t_lexfiles (conv d) = map (fun r => lexfile_of_row (conv_row r)) (R.get_table d "lexfiles").
Proof. intro d. unfold conv, db_of_sx. cbn [t_lexfiles]. rewrite table_rows_conv, map_map. reflexivity. Qed.

(* ====================================================================== *)
(* Hypotheses of K5b / K5c                                                 *)
(* ====================================================================== *)
(* the database: the stored child rows refer to lexicons / senses / synsets that exist
   (all follow from the foreign keys: [fk_ok_wf_db5]) *)
Definition oz_below (n : Z) (o : option Z) : bool := match o with Some z => Z.ltb z n | None => true end.
Definition wf_db5 (d : R.db) : bool :=
  let T := conv d in
  let lexid := R.next_rowid (R.get_table d "lexicons") in
  let nN := R.next_rowid (R.get_table d "senses") in
  let nS := R.next_rowid (R.get_table d "synsets") in
  forallb (fun r => Z.ltb (ex_lexicon_rowid r) lexid) (t_sense_examples T)
  && forallb (fun r => Z.ltb (ex_lexicon_rowid r) lexid) (t_synset_examples T)
  && forallb (fun r => Z.ltb (ct_lexicon_rowid r) lexid) (t_counts T)
  && forallb (fun r => Z.ltb (df_lexicon_rowid r) lexid) (t_definitions T)
  && forallb (fun r => Z.ltb (aj_sense_rowid r) nN) (t_adjpositions T)
  && forallb (fun r => Z.ltb (sbs_sense_rowid r) nN) (t_syntactic_behaviour_senses T)
  && forallb (fun r => oz_below nS (pi_synset_rowid r)) (t_proposed_ilis T)
  && forallb (fun r => Z.ltb (sb_lexicon_rowid r) lexid) (t_syntactic_behaviours T).

Record wf_db5_facts (d : R.db) : Prop := {
  w5_sense_examples : forall r, In r (t_sense_examples (conv d)) -> ex_lexicon_rowid r < R.next_rowid (R.get_table d "lexicons");
  w5_synset_examples : forall r, In r (t_synset_examples (conv d)) -> ex_lexicon_rowid r < R.next_rowid (R.get_table d "lexicons");
  w5_counts : forall r, In r (t_counts (conv d)) -> ct_lexicon_rowid r < R.next_rowid (R.get_table d "lexicons");
  w5_definitions : forall r, In r (t_definitions (conv d)) -> df_lexicon_rowid r < R.next_rowid (R.get_table d "lexicons");
  w5_adjpositions : forall r, In r (t_adjpositions (conv d)) -> aj_sense_rowid r < R.next_rowid (R.get_table d "senses");
  w5_sbs : forall r, In r (t_syntactic_behaviour_senses (conv d)) -> sbs_sense_rowid r < R.next_rowid (R.get_table d "senses");
  w5_proposed : forall r z, In r (t_proposed_ilis (conv d)) -> pi_synset_rowid r = Some z -> z < R.next_rowid (R.get_table d "synsets");
  w5_sb : forall r, In r (t_syntactic_behaviours (conv d)) -> sb_lexicon_rowid r < R.next_rowid (R.get_table d "lexicons")
}.
Lemma wf_db5_spec : forall d, wf_db5 d = true -> wf_db5_facts d.
Proof.
  intros d H. unfold wf_db5 in H. cbv zeta in H.
  apply andb_true_iff in H. destruct H as [H G8].
  apply andb_true_iff in H. destruct H as [H G7]. apply andb_true_iff in H. destruct H as [H G6].
  apply andb_true_iff in H. destruct H as [H G5]. apply andb_true_iff in H. destruct H as [H G4].
  apply andb_true_iff in H. destruct H as [H G3]. apply andb_true_iff in H. destruct H as [G1 G2].
  rewrite forallb_forall in G1, G2, G3, G4, G5, G6, G7, G8.
  constructor; intros r; try (intro Hr; apply Z.ltb_lt; auto).
  intros z Hr Ez. specialize (G7 r Hr). rewrite Ez in G7. apply Z.ltb_lt. exact G7.
Qed.

(* the lexicon: the local senses have non-empty, pairwise distinct string ids; senses and synsets that
   are external (or belong to an external entry) carry no examples, counts or definitions *)
Definition local_senses_of (L : val) : list val := map snd (doc_senses L).
Definition childless_sense (s : val) : bool :=
  match A.vlistk s "examples", A.vlistk s "counts" with [], [] => true | _, _ => false end.
Definition childless_synset (ss : val) : bool :=
  match A.vlistk ss "examples", A.vlistk ss "definitions" with [], [] => true | _, _ => false end.
Definition wf_lex5 (L : val) : bool :=
  forallb is_sid (local_senses_of L) && nodup_strb (map sid (local_senses_of L))
  && forallb (fun e => forallb (fun s => negb (A._is_external e || A._is_external s) || childless_sense s)
                               (A._senses e)) (A._entries L)
  && forallb (fun ss => negb (A._is_external ss) || childless_synset ss) (A._synsets L).

Record wf_lex5_facts (L : val) : Prop := {
  w5_sense_ids : forall s, In s (local_senses_of L) -> is_sid s = true;
  w5_sense_nodup : NoDup (map sid (local_senses_of L));
  w5_childless : forall e s, In e (A._entries L) -> In s (A._senses e) ->
                             A._is_external e = true \/ A._is_external s = true ->
                             A.vlistk s "examples" = [] /\ A.vlistk s "counts" = [];
  w5_childless_synset : forall ss, In ss (A._synsets L) -> A._is_external ss = true ->
                                   A.vlistk ss "examples" = [] /\ A.vlistk ss "definitions" = []
}.
Lemma wf_lex5_spec : forall L, wf_lex5 L = true -> wf_lex5_facts L.
Proof.
  intros L H. unfold wf_lex5 in H.
  apply andb_true_iff in H. destruct H as [H G4]. apply andb_true_iff in H. destruct H as [H G3].
  apply andb_true_iff in H. destruct H as [G1 G2].
  rewrite forallb_forall in G1, G3, G4. constructor.
  - exact G1.
  - apply nodup_strb_NoDup. exact G2.
  - intros e s He Hs Hx. specialize (G3 e He). rewrite forallb_forall in G3. specialize (G3 s Hs).
    assert (A._is_external e || A._is_external s = true) as Hb by (apply orb_true_iff; exact Hx).
    rewrite Hb in G3. cbn [negb orb] in G3. unfold childless_sense in G3.
    destruct (A.vlistk s "examples"); [|discriminate]. destruct (A.vlistk s "counts"); [|discriminate].
    split; reflexivity.
  - intros ss Hss Hx. specialize (G4 ss Hss). rewrite Hx in G4. cbn [negb orb] in G4.
    unfold childless_synset in G4.
    destruct (A.vlistk ss "examples"); [|discriminate]. destruct (A.vlistk ss "definitions"); [|discriminate].
    split; reflexivity.
Qed.

(* ---------- lookup by (id, lexicon) among rows just added, for any kind of element ---------- *)
Lemma id_lookup_resolve_gen : forall {X0} (elt : X0 -> val) (mk : X0 -> list R.cell) (old : R.table)
                                     (l : list X0) n lexid k0 x,
    (forall r, In r old -> c_int (conv_cell (R.cell_at 2 r)) <> lexid) ->
    (forall y, R.cell_at 0 (mk y) = R.coerce "TEXT" (AC.pcell (A.preq (elt y) "id"))
               /\ R.cell_at 1 (mk y) = R.CInt lexid) ->
    (forall y, In y l -> is_sid (elt y) = true) -> NoDup (map (fun y => sid (elt y)) l) ->
    In (k0, x) (A.enumerate_from n l) ->
    find (AC.syn_pred (R.CText (sid (elt x))) lexid)
         (old ++ map (fun kx : Z * X0 => R.CInt (fst kx) :: mk (snd kx)) (A.enumerate_from n l))%list
    = Some (R.CInt k0 :: mk x).
Proof.
  intros X0 elt mk old l n lexid k0 x Hold Hmk Hids Hnd Hin.
  assert (forall k1 y, In y l ->
            AC.syn_pred (R.CText (sid (elt x))) lexid (R.CInt k1 :: mk y) = str_eqb (sid (elt y)) (sid (elt x))) as Hp.
  { intros k1 y Hy. unfold AC.syn_pred. destruct (Hmk y) as [E1 E2].
    change (R.cell_at 1 (R.CInt k1 :: mk y)) with (R.cell_at 0 (mk y)).
    change (R.cell_at 2 (R.CInt k1 :: mk y)) with (R.cell_at 1 (mk y)). rewrite E1, E2.
    destruct (is_sid_spec (elt y) (Hids y Hy)) as [Ey _]. rewrite (preq_VStr _ _ _ Ey).
    simpl. rewrite Z.eqb_refl, andb_true_r. reflexivity. }
  assert (forall kx, In kx (A.enumerate_from n l) -> In (snd kx) l) as Hsnd.
  { intros kx Hkx. rewrite <- (enumerate_snd l n). apply in_map. exact Hkx. }
  apply (find_resolve _ (fun kx : Z * X0 => R.CInt (fst kx) :: mk (snd kx)) old _ (k0, x)).
  - intros r Hr. unfold AC.syn_pred. rewrite (sql_eq_int_false _ _ (Hold r Hr)). apply andb_false_r.
  - exact Hin.
  - cbn [fst snd]. rewrite Hp by (apply (Hsnd (k0, x) Hin)). apply str_eqb_refl.
  - intros [k1 y] Hin' Hp'. cbn [fst snd] in Hp'. rewrite Hp in Hp' by (apply (Hsnd (k1, y) Hin')).
    apply str_eqb_eq in Hp'.
    apply (NoDup_map_inj (fun kx : Z * X0 => sid (elt (snd kx))) (A.enumerate_from n l)); try assumption.
    rewrite <- (map_map snd (fun y => sid (elt y))), enumerate_snd. exact Hnd.
Qed.
Lemma SENSE_QUERY_pred : forall d idc lexid,
    A.SENSE_QUERY d idc (R.CInt lexid) = R.select_rowid d "senses" (AC.syn_pred idc lexid).
Proof. reflexivity. Qed.

Definition doc_int (v : val) : Z :=
  match v with VInt n => n | VBool b => if b then 1 else 0 | _ => 0 end.
Lemma int_preq : forall x key,
    c_int (conv_cell (R.coerce "INTEGER" (AC.pcell (A.preq x key)))) = doc_int (A.vgetk x key).
Proof.
  intros x key. rewrite coerce_integer. unfold A.preq, A.vreq, A.vgetk. destruct (vhas x (A.k key)) eqn:E.
  - cbn [R.bind]. destruct (vget x (A.k key)) as [|b|n|s|l|kvs]; reflexivity.
  - rewrite (vhas_false_vget _ _ E). reflexivity.
Qed.
Lemma hd_map_match : forall {X Y} (f : X -> Y) l,
    match l with a :: _ => Some (f a) | [] => None end = hd_error (map f l).
Proof. intros X Y f [|a l]; reflexivity. Qed.

(* ====================================================================== *)
Section Added3.
Variables (nt : A.normtable) (L : val) (d d' : R.db).
Hypothesis Hadd : A.add_one_lexicon nt L d = R.Ok d'.
Hypothesis Hext : vtruthy (A.vgetk L "extends") = false.
Hypothesis Hdb : wf_db d = true.
Hypothesis HL : wf_lex_facts L.
Hypothesis Hdb5 : wf_db5_facts d.
Hypothesis HL5 : wf_lex5_facts L.
Variable w : Wordnet.
Hypothesis Hw : wn_lexicon_ids w = [R.next_rowid (R.get_table d "lexicons")].
Hypothesis Hm : wn_default_mode w = false.

Local Notation lexid := (R.next_rowid (R.get_table d "lexicons")).
Local Notation les := (A._local_entries (A._entries L)).
Local Notation lss := (A._local_synsets (A._synsets L)).
Local Notation nE := (R.next_rowid (R.get_table d "entries")).
Local Notation nS := (R.next_rowid (R.get_table d "synsets")).
Local Notation nN := (R.next_rowid (R.get_table d "senses")).
Local Notation T := (conv d').
Local Notation sitems := (sense_items_from nE les).
Local Notation X := (A.enumerate_from nN sitems).
Local Notation sitem := (Z * ((Z * val) * (Z * val)))%type.
Local Notation s_of := (fun x : (Z * val) * (Z * val) => snd (snd x)).
Local Notation lsenses := (fun e : val => A._local_senses (A._senses e)).

Lemma s_of_items : forall l n, map s_of (sense_items_from n l) = flat_map lsenses l.
Proof.
  intros l n. rewrite <- (map_map (fun x : (Z * val) * (Z * val) => (snd (fst x), snd (snd x))) snd).
  rewrite sense_items_doc. induction l as [|e l IH]; simpl; [reflexivity|].
  rewrite map_app, map_map, IH. cbn [snd]. rewrite map_id. reflexivity.
Qed.
Lemma s_of_local : map s_of sitems = local_senses_of L.
Proof.
  unfold local_senses_of, doc_senses. rewrite <- (sense_items_doc les nE), map_map. reflexivity.
Qed.

(* ---------- SENSE_QUERY resolves to the row of the local sense ---------- *)
Lemma old_sense_lex : forall r, In r (R.get_table d "senses") -> c_int (conv_cell (R.cell_at 2 r)) <> lexid.
Proof.
  intros r Hr. assert (In (sense_of_row (conv_row r)) (t_senses (conv d))) as Hin.
  { rewrite conv_senses. apply (in_map (fun r => sense_of_row (conv_row r))). exact Hr. }
  pose proof (wf_db_senses d _ Hdb Hin) as Hlt. unfold sense_of_row in Hlt. cbn [se_lexicon_rowid] in Hlt.
  rewrite col_conv_row in Hlt. lia.
Qed.
Lemma sense_ref_resolve : forall kx, In kx X ->
    AC.sense_ref d' lexid [] (s_of (snd kx)) = R.CInt (fst kx).
Proof.
  intros [k0 x] Hin. cbn [fst snd].
  assert (In x sitems) as Hx by (apply (enum_sense_items L d _ Hin)).
  assert (is_sid (s_of x) = true) as Hs.
  { apply (w5_sense_ids L HL5). rewrite <- s_of_local. apply (in_map s_of). exact Hx. }
  destruct (is_sid_spec _ Hs) as [Es _].
  unfold AC.sense_ref. rewrite lexidmap_get_nil, (preq_VStr _ _ _ Es). cbn [AC.pcell].
  rewrite SENSE_QUERY_pred. unfold R.select_rowid. rewrite (senses_table nt L d d' Hadd Hext HL).
  rewrite (id_lookup_resolve_gen s_of (rowS L d d') _ sitems nN lexid k0 x); [reflexivity| | | | |exact Hin].
  - exact old_sense_lex.
  - intros [[ke e] [j s]]. unfold rowS. cbn [fst snd]. rewrite sense_row_cells. split; reflexivity.
  - intros y Hy. apply (w5_sense_ids L HL5). rewrite <- s_of_local. apply (in_map s_of). exact Hy.
  - rewrite <- (map_map s_of sid), s_of_local. exact (w5_sense_nodup L HL5).
Qed.

(* ---------- the children of the senses: from all senses to the local ones ---------- *)
Lemma all_senses_local : forall {C} (rowsC : val -> list C),
    (forall e s, In e (A._entries L) -> In s (A._senses e) ->
                 A._is_external e = true \/ A._is_external s = true -> rowsC s = []) ->
    flat_map rowsC (flat_map A._senses (A._entries L)) = flat_map rowsC (map s_of sitems).
Proof.
  intros C rowsC Hnil. rewrite s_of_items, !flat_map_flat_map.
  unfold A._local_entries. rewrite <- (flat_map_filter_nil _ (fun x => negb (A._is_external x))).
  - apply AC.flat_map_ext_in_eq. intros e He. unfold A._local_senses.
    apply (flat_map_filter_nil _ (fun x => negb (A._is_external x))).
    intros s Hs Hx. apply negb_false_iff in Hx. apply (Hnil e s He Hs). right. exact Hx.
  - intros e He Hx. apply negb_false_iff in Hx. apply flat_map_nil_in. intros s Hs.
    unfold A._local_senses in Hs. apply filter_In in Hs. destruct Hs as [Hs _].
    apply (Hnil e s He Hs). left. exact Hx.
Qed.

(* the typed children of one new sense, read through readers that ignore the child's rowid *)
Lemma sense_children : forall {C Y} (typed : R.row -> C) (p : C -> bool) (f : C -> Y)
                              (q : list R.cell -> bool) (f' : list R.cell -> Y)
                              (oldrows : R.table) n (rowsC : val -> list (list R.cell)) kx,
    (forall r, In r oldrows -> p (typed r) = false) ->
    (forall k0 r, p (typed (R.CInt k0 :: r)) = q r) -> (forall k0 r, f (typed (R.CInt k0 :: r)) = f' r) ->
    In kx X ->
    (forall kx' r, In kx' X -> In r (rowsC (s_of (snd kx'))) -> q r = Z.eqb (fst kx') (fst kx)) ->
    map f (filter p (map typed (oldrows ++ AC.number_from n (flat_map rowsC (map s_of sitems)))%list))
    = map f' (rowsC (s_of (snd kx))).
Proof.
  intros C Y typed p f q f' oldrows n rowsC kx Hold Hp Hf Hkx Hq.
  rewrite map_app, filter_app. rewrite filter_none_in.
  2:{ intros c Hc. apply in_map_iff in Hc. destruct Hc as [r [<- Hr]]. apply Hold. exact Hr. }
  cbn [app]. rewrite (map_filter_numbered typed p f q f' _ n Hp Hf). f_equal.
  rewrite <- (enumerate_snd sitems nN) at 1. rewrite map_map, flat_map_map.
  apply (filter_flat_map_own fst (fun kx0 : sitem => rowsC (s_of (snd kx0))) q X kx
                             (enumerate_fst_NoDup sitems nN) Hkx Hq).
Qed.

(* ---------------------------------------------------------------------- *)
(* K5b — examples, counts, adjposition, lexicalized of a sense             *)
(* ---------------------------------------------------------------------- *)
Local Notation Sn := (fun kx : sitem => mk_Sense w (qOf d kx)).

Lemma scope_w3 : forall lx, _get_lexicon_ids T w lx = [lexid].
Proof. intro lx. unfold _get_lexicon_ids. rewrite Hm. exact Hw. Qed.

Lemma z_in_single : forall a b, z_in a [b] = Z.eqb a b.
Proof. intros a b. unfold z_in. cbn [existsb]. apply orb_false_r. Qed.

Lemma example_row_cells : forall t ref lx ex, t = "sense_examples" \/ t = "synset_examples" ->
    AC.example_row t ref lx ex
    = [R.CInt lx; R.coerce "INTEGER" ref; R.coerce "TEXT" (AC.pcell (A.preq ex "text"));
       R.coerce "TEXT" (AC.pcell (A.param (A.vgetk ex "language"))); R.coerce "META" (AC.pcell (A.preq ex "meta"))].
Proof. intros t ref lx ex [->| ->]; reflexivity. Qed.

Theorem Sense_examples_new : forall kx, In kx X ->
    Sense_examples T (Sn kx)
    = Ok (map (fun ex => doc_otext (A.vgetk ex "text")) (A.vlistk (s_of (snd kx)) "examples")).
Proof.
  intros kx Hkx. unfold Sense_examples. cbn [mk_Sense sn_wordnet sn_lexid sn__id qOf qs_rowid].
  rewrite scope_w3. unfold get_examples. change (str_eqb s_senses s_senses) with true. cbv iota beta.
  cbn [bind]. f_equal. rewrite map_map.
  destruct (children_tables nt L d d' Hadd Hext) as [sb (_ & _ & _ & HA & _)]. cbv zeta in HA.
  rewrite conv_sense_examples. unfold AC.App in HA. rewrite HA.
  rewrite (all_senses_local (AC.sense_example_rows d' lexid [])).
  2:{ intros e s He Hs Hx. unfold AC.sense_example_rows.
      destruct (w5_childless L HL5 e s He Hs Hx) as [-> _]. reflexivity. }
  rewrite (sense_children (fun r => example_of_row (conv_row r)) _ _
             (fun r => Z.eqb (c_int (conv_cell (R.cell_at 1 r))) (fst kx)
                       && Z.eqb (c_int (conv_cell (R.cell_at 0 r))) lexid)
             (fun r => c_otext (conv_cell (R.cell_at 2 r))) _ _ _ kx); [| | | |exact Hkx|].
  - unfold AC.sense_example_rows. rewrite map_map. apply map_ext. intro ex.
    rewrite example_row_cells by (left; reflexivity). unfold R.cell_at. cbn [nth]. apply otext_preq.
  - intros r Hr. apply andb_false_iff. right. rewrite z_in_single. apply Z.eqb_neq.
    assert (In (example_of_row (conv_row r)) (t_sense_examples (conv d))) as Hin
        by (rewrite conv_sense_examples; apply (in_map (fun r0 => example_of_row (conv_row r0))); exact Hr).
    pose proof (w5_sense_examples d Hdb5 _ Hin). lia.
  - intros k0 r. unfold example_of_row. cbn [ex_owner_rowid ex_lexicon_rowid].
    rewrite !col_conv_row, z_in_single. reflexivity.
  - intros k0 r. unfold example_of_row. cbn [ex_example]. rewrite col_conv_row. reflexivity.
  - intros kx' r Hkx' Hr. unfold AC.sense_example_rows in Hr. apply in_map_iff in Hr. destruct Hr as [ex [<- _]].
    rewrite example_row_cells by (left; reflexivity). unfold R.cell_at. cbn [nth].
    rewrite (sense_ref_resolve kx' Hkx'), coerce_integer. cbn [conv_cell c_int].
    rewrite Z.eqb_refl. apply andb_true_r.
Qed.

Lemma count_row_cells : forall d0 lx m s c,
    AC.count_row d0 lx m s c
    = [R.CInt lx; R.coerce "INTEGER" (AC.sense_ref d0 lx m s); R.coerce "INTEGER" (AC.pcell (A.preq c "value"));
       R.coerce "META" (AC.pcell (A.preq c "meta"))].
Proof. reflexivity. Qed.

Theorem Sense_counts_new : forall kx, In kx X ->
    map fst (Sense_counts T (Sn kx))
    = map (fun c => doc_int (A.vgetk c "value")) (A.vlistk (s_of (snd kx)) "counts").
Proof.
  intros kx Hkx. unfold Sense_counts. cbn [mk_Sense sn_wordnet sn_lexid sn__id qOf qs_rowid].
  rewrite scope_w3. unfold get_sense_counts. rewrite map_map. cbn [fst].
  destruct (children_tables nt L d d' Hadd Hext) as [sb (_ & HA & _)]. cbv zeta in HA.
  rewrite conv_counts. unfold AC.App in HA. rewrite HA.
  assert (flat_map (AC.entry_count_rows d' lexid []) (A._entries L)
          = flat_map (fun s => map (AC.count_row d' lexid [] s) (A.vlistk s "counts"))
                     (flat_map A._senses (A._entries L))) as ->.
  { rewrite flat_map_flat_map. reflexivity. }
  rewrite (all_senses_local (fun s => map (AC.count_row d' lexid [] s) (A.vlistk s "counts"))).
  2:{ intros e s He Hs Hx. destruct (w5_childless L HL5 e s He Hs Hx) as [_ ->]. reflexivity. }
  rewrite (sense_children (fun r => count_of_row (conv_row r)) _ _
             (fun r => Z.eqb (c_int (conv_cell (R.cell_at 1 r))) (fst kx)
                       && Z.eqb (c_int (conv_cell (R.cell_at 0 r))) lexid)
             (fun r => c_int (conv_cell (R.cell_at 2 r))) _ _ _ kx); [| | | |exact Hkx|].
  - rewrite map_map. apply map_ext. intro c. rewrite count_row_cells.
    unfold R.cell_at. cbn [nth]. apply int_preq.
  - intros r Hr. apply andb_false_iff. right. rewrite z_in_single. apply Z.eqb_neq.
    assert (In (count_of_row (conv_row r)) (t_counts (conv d))) as Hin
        by (rewrite conv_counts; apply (in_map (fun r0 => count_of_row (conv_row r0))); exact Hr).
    pose proof (w5_counts d Hdb5 _ Hin). lia.
  - intros k0 r. unfold count_of_row. cbn [ct_sense_rowid ct_lexicon_rowid].
    rewrite !col_conv_row, z_in_single. reflexivity.
  - intros k0 r. unfold count_of_row. cbn [ct_count]. rewrite col_conv_row. reflexivity.
  - intros kx' r Hkx' Hr. apply in_map_iff in Hr. destruct Hr as [c [<- _]]. rewrite count_row_cells.
    unfold R.cell_at. cbn [nth]. rewrite (sense_ref_resolve kx' Hkx'), coerce_integer. cbn [conv_cell c_int].
    rewrite Z.eqb_refl. apply andb_true_r.
Qed.
Lemma local_senses_all_entries : forall {C} (rowsC : val -> list C),
    flat_map (fun e => flat_map rowsC (lsenses e)) (A._entries L) = flat_map rowsC (map s_of sitems).
Proof.
  intros C rowsC. rewrite s_of_items, flat_map_flat_map. unfold A._local_entries.
  apply (flat_map_filter_nil _ (fun x => negb (A._is_external x))).
  intros e He Hx. apply negb_false_iff in Hx.
  assert (A._local_senses (A._senses e) = []) as ->; [|reflexivity].
  unfold A._local_senses. apply filter_none_in. intros s Hs.
  destruct (wl_inert L HL e He Hx) as [_ Hs']. rewrite (Hs' s Hs). reflexivity.
Qed.

Definition adj_rows (dd : R.db) (lx : Z) (s : val) : list (list R.cell) :=
  if vtruthy (A.vgetk s "adjposition")
  then [[R.coerce "INTEGER" (AC.sense_ref dd lx [] s); R.coerce "TEXT" (AC.pcell (A.preq s "adjposition"))]]
  else [].
Lemma adjposition_rows_eq : forall dd lx e,
    AC.adjposition_rows dd lx [] e = flat_map (adj_rows dd lx) (lsenses e).
Proof. reflexivity. Qed.

Theorem Sense_adjposition_new : forall kx, In kx X ->
    Sense_adjposition T (Sn kx)
    = if vtruthy (A.vgetk (s_of (snd kx)) "adjposition")
      then Some (doc_text (A.vgetk (s_of (snd kx)) "adjposition")) else None.
Proof.
  intros kx Hkx. unfold Sense_adjposition, get_adjposition. cbn [mk_Sense sn__id qOf qs_rowid].
  rewrite hd_map_match.
  destruct (children_tables nt L d d' Hadd Hext) as [sb (_ & _ & HA & _)]. cbv zeta in HA.
  rewrite conv_adjpositions. unfold AC.App in HA. rewrite HA.
  rewrite (flat_map_ext _ _ (adjposition_rows_eq d' lexid)), local_senses_all_entries.
  rewrite (sense_children (fun r => adjposition_of_row (conv_row r)) _ _
             (fun r => Z.eqb (c_int (conv_cell (R.cell_at 0 r))) (fst kx))
             (fun r => c_text (conv_cell (R.cell_at 1 r))) _ _ _ kx); [| | | |exact Hkx|].
  - unfold adj_rows. destruct (vtruthy (A.vgetk (s_of (snd kx)) "adjposition")); [|reflexivity].
    cbn [map hd_error]. unfold R.cell_at. cbn [nth]. rewrite text_preq. reflexivity.
  - intros r Hr. apply Z.eqb_neq.
    assert (In (adjposition_of_row (conv_row r)) (t_adjpositions (conv d))) as Hin
        by (rewrite conv_adjpositions; apply (in_map (fun r0 => adjposition_of_row (conv_row r0))); exact Hr).
    pose proof (w5_adjpositions d Hdb5 _ Hin) as Hlt. pose proof (enumerate_fst_ge _ _ _ Hkx). lia.
  - intros k0 r. unfold adjposition_of_row. cbn [aj_sense_rowid]. rewrite col_conv_row. reflexivity.
  - intros k0 r. unfold adjposition_of_row. cbn [aj_adjposition]. rewrite col_conv_row. reflexivity.
  - intros kx' r Hkx' Hr. unfold adj_rows in Hr. destruct (vtruthy (A.vgetk (s_of (snd kx')) "adjposition")); [|destruct Hr].
    destruct Hr as [<-|[]]. unfold R.cell_at. cbn [nth].
    rewrite (sense_ref_resolve kx' Hkx'), coerce_integer. reflexivity.
Qed.

Lemma old_sense_rowid : forall x, In x (t_senses (conv d)) -> se_rowid x < nN.
Proof.
  intros x H. rewrite conv_senses in H. apply in_map_iff in H. destruct H as [r [<- Hr]].
  unfold sense_of_row. cbn [se_rowid]. rewrite col_conv_row, c_int_rowid. apply AP.next_rowid_fresh. exact Hr.
Qed.
Lemma find_new_sense : forall kx, In kx X -> find_by se_rowid (fst kx) (t_senses T) = Some (mkS L d d' kx).
Proof.
  intros kx Hkx. rewrite (typed_senses nt L d d' Hadd Hext HL), find_by_app_none.
  - apply find_by_map_enum; [|apply enumerate_fst_NoDup|exact Hkx].
    intros [k0 x]. destruct (mkS_ranks L d d' k0 x) as (_ & _ & _ & E & _). exact E.
  - intros x Hx. pose proof (old_sense_rowid x Hx). apply enumerate_fst_ge in Hkx. lia.
Qed.
Lemma nonrowid_neq : forall k0 rows, R.next_rowid rows <= k0 -> Z.eqb k0 NON_ROWID = false.
Proof. intros k0 rows H. pose proof (next_rowid_pos rows). apply Z.eqb_neq. unfold NON_ROWID. lia. Qed.

Theorem Sense_lexicalized_new : forall kx, In kx X ->
    Sense_lexicalized T (Sn kx) = Ok (doc_bool (A.vget_def (s_of (snd kx)) "lexicalized" (VBool true))).
Proof.
  intros kx Hkx. unfold Sense_lexicalized, get_lexicalized. cbn [mk_Sense sn__id qOf qs_rowid].
  change (str_eqb s_senses s_senses) with true. cbv iota.
  rewrite (nonrowid_neq _ _ (enumerate_fst_ge _ _ _ Hkx)), (find_new_sense kx Hkx).
  destruct kx as [k0 x]. destruct (mkS_ranks L d d' k0 x) as (_ & _ & E & _). rewrite E. reflexivity.
Qed.
(* ---------------------------------------------------------------------- *)
(* K5c — lexicalized, examples, first definition of a synset               *)
(* ---------------------------------------------------------------------- *)
Local Notation Y := (A.enumerate_from nS lss).
Local Notation Sy := (doc_Synset T w d' lexid).

Lemma Sy_id : forall ky, ss__id (Sy ky) = fst ky.
Proof. intro ky. unfold doc_Synset. cbn [mk_Synset ss__id synset_columns qy_rowid]. apply (mkY_rowid d d' ky). Qed.
Lemma Y_local : forall ky, In ky Y -> In (snd ky) lss.
Proof. intros ky H. rewrite <- (enumerate_snd lss nS). apply in_map. exact H. Qed.

Lemma mkY_more : forall ky,
    sy_lexicalized (mkY d d' ky) = doc_bool (A.vget_def (snd ky) "lexicalized" (VBool true))
    /\ sy_ili_rowid (mkY d d' ky) = c_oint (conv_cell (AC.ili_lookup d' (AC.ilic_of (snd ky))))
    /\ sy_lexfile_rowid (mkY d d' ky)
       = c_oint (conv_cell (A.LEXFILE_QUERY d' (AC.pcell (A.param (A.vgetk (snd ky) "lexfile"))))).
Proof.
  intros [k0 ss]. unfold mkY. cbn [fst snd]. rewrite synset_row_cells.
  unfold typed_synset, synset_of_row. cbn [sy_lexicalized sy_ili_rowid sy_lexfile_rowid].
  rewrite !col_conv_row. unfold R.cell_at. cbn [nth]. rewrite !coerce_integer. repeat split; try reflexivity.
  destruct (A.vget_def ss "lexicalized" (VBool true)) as [|b|n|t|l|kvs]; try reflexivity. destruct b; reflexivity.
Qed.

Theorem Synset_lexicalized_new : forall ky, In ky Y ->
    Synset_lexicalized T (Sy ky) = Ok (doc_bool (A.vget_def (snd ky) "lexicalized" (VBool true))).
Proof.
  intros ky Hky. unfold Synset_lexicalized, get_lexicalized. rewrite Sy_id.
  change (str_eqb s_synsets s_senses) with false. change (str_eqb s_synsets s_synsets) with true. cbv iota.
  rewrite (nonrowid_neq _ _ (enumerate_fst_ge _ _ _ Hky)), (find_new_synset nt L d d' Hadd ky Hky).
  destruct (mkY_more ky) as (E & _). rewrite E. reflexivity.
Qed.

(* SYNSET_QUERY by the id of a local synset *)
Lemma synset_ref_resolve : forall ky, In ky Y -> AC.synset_ref d' lexid [] (snd ky) = R.CInt (fst ky).
Proof.
  intros [k0 ss] Hky. cbn [fst snd].
  destruct (is_sid_spec ss (wl_synset_ids L HL ss (Y_local _ Hky))) as [Es _].
  unfold AC.synset_ref. rewrite lexidmap_get_nil, (preq_VStr _ _ _ Es). cbn [AC.pcell].
  apply (synset_query_resolve nt L d d' Hadd Hdb HL k0 ss Hky).
Qed.

Lemma all_synsets_local : forall {C} (rowsC : val -> list C),
    (forall ss, In ss (A._synsets L) -> A._is_external ss = true -> rowsC ss = []) ->
    flat_map rowsC (A._synsets L) = flat_map rowsC lss.
Proof.
  intros C rowsC Hnil. unfold A._local_synsets. apply (flat_map_filter_nil _ (fun x => negb (A._is_external x))).
  intros ss Hss Hx. apply negb_false_iff in Hx. apply Hnil; assumption.
Qed.

Lemma synset_children : forall {C Y0} (typed : R.row -> C) (p : C -> bool) (f : C -> Y0)
                               (q : list R.cell -> bool) (f' : list R.cell -> Y0)
                               (oldrows : R.table) n (rowsC : val -> list (list R.cell)) ky,
    (forall r, In r oldrows -> p (typed r) = false) ->
    (forall k0 r, p (typed (R.CInt k0 :: r)) = q r) -> (forall k0 r, f (typed (R.CInt k0 :: r)) = f' r) ->
    In ky Y ->
    (forall ky' r, In ky' Y -> In r (rowsC (snd ky')) -> q r = Z.eqb (fst ky') (fst ky)) ->
    map f (filter p (map typed (oldrows ++ AC.number_from n (flat_map rowsC lss))%list))
    = map f' (rowsC (snd ky)).
Proof.
  intros C Y0 typed p f q f' oldrows n rowsC ky Hold Hp Hf Hky Hq.
  rewrite map_app, filter_app. rewrite filter_none_in.
  2:{ intros c Hc. apply in_map_iff in Hc. destruct Hc as [r [<- Hr]]. apply Hold. exact Hr. }
  cbn [app]. rewrite (map_filter_numbered typed p f q f' _ n Hp Hf). f_equal.
  rewrite <- (enumerate_snd lss nS) at 1. rewrite flat_map_map.
  apply (filter_flat_map_own fst (fun ky0 : Z * val => rowsC (snd ky0)) q Y ky
                             (enumerate_fst_NoDup lss nS) Hky Hq).
Qed.

Theorem Synset_examples_new : forall ky, In ky Y ->
    Synset_examples T (Sy ky)
    = Ok (map (fun ex => doc_otext (A.vgetk ex "text")) (A.vlistk (snd ky) "examples")).
Proof.
  intros ky Hky. unfold Synset_examples. rewrite Sy_id.
  unfold doc_Synset at 1. cbn [mk_Synset ss_wordnet]. rewrite scope_w3. unfold get_examples.
  change (str_eqb s_synsets s_senses) with false. change (str_eqb s_synsets s_synsets) with true. cbv iota beta.
  cbn [bind]. f_equal. rewrite map_map.
  destruct (children_tables nt L d d' Hadd Hext) as [sb (_ & _ & _ & _ & HA & _)]. cbv zeta in HA.
  rewrite conv_synset_examples. unfold AC.App in HA. rewrite HA.
  rewrite (all_synsets_local (AC.synset_example_rows d' lexid [])).
  2:{ intros ss Hss Hx. unfold AC.synset_example_rows.
      destruct (w5_childless_synset L HL5 ss Hss Hx) as [-> _]. reflexivity. }
  rewrite (synset_children (fun r => example_of_row (conv_row r)) _ _
             (fun r => Z.eqb (c_int (conv_cell (R.cell_at 1 r))) (fst ky)
                       && Z.eqb (c_int (conv_cell (R.cell_at 0 r))) lexid)
             (fun r => c_otext (conv_cell (R.cell_at 2 r))) _ _ _ ky); [| | | |exact Hky|].
  - unfold AC.synset_example_rows. rewrite map_map. apply map_ext. intro ex.
    rewrite example_row_cells by (right; reflexivity). unfold R.cell_at. cbn [nth]. apply otext_preq.
  - intros r Hr. apply andb_false_iff. right. rewrite z_in_single. apply Z.eqb_neq.
    assert (In (example_of_row (conv_row r)) (t_synset_examples (conv d))) as Hin
        by (rewrite conv_synset_examples; apply (in_map (fun r0 => example_of_row (conv_row r0))); exact Hr).
    pose proof (w5_synset_examples d Hdb5 _ Hin). lia.
  - intros k0 r. unfold example_of_row. cbn [ex_owner_rowid ex_lexicon_rowid].
    rewrite !col_conv_row, z_in_single. reflexivity.
  - intros k0 r. unfold example_of_row. cbn [ex_example]. rewrite col_conv_row. reflexivity.
  - intros ky' r Hky' Hr. unfold AC.synset_example_rows in Hr. apply in_map_iff in Hr. destruct Hr as [ex [<- _]].
    rewrite example_row_cells by (right; reflexivity). unfold R.cell_at. cbn [nth].
    rewrite (synset_ref_resolve ky' Hky'), coerce_integer. cbn [conv_cell c_int].
    rewrite Z.eqb_refl. apply andb_true_r.
Qed.

Lemma definition_row_cells : forall d0 lx m ss df,
    AC.definition_row d0 lx m ss df
    = [R.CInt lx; R.coerce "INTEGER" (AC.synset_ref d0 lx m ss); R.coerce "TEXT" (AC.pcell (A.preq df "text"));
       R.coerce "TEXT" (AC.pcell (A.param (A.vgetk df "language")));
       R.coerce "INTEGER" (A.SENSE_QUERY d0 (AC.pcell (A.param (A.vgetk df "sourceSense")))
                                         (A.lexidmap_get m (A.vget_def df "sourceSense" (A.vs "")) lx));
       R.coerce "META" (AC.pcell (A.preq df "meta"))].
Proof. reflexivity. Qed.

(* Synset.definition(): the text of the first Definition element *)
Theorem Synset_definition_new : forall ky, In ky Y ->
    Synset_definition T (Sy ky)
    = match A.vlistk (snd ky) "definitions" with
      | [] => None
      | df :: _ => doc_otext (A.vgetk df "text")
      end.
Proof.
  intros ky Hky. unfold Synset_definition. rewrite Sy_id.
  unfold doc_Synset at 1. cbn [mk_Synset ss_wordnet]. rewrite scope_w3. unfold get_definitions.
  match goal with
  | |- match map ?g ?l with _ => _ end = _ =>
      assert (match map g l with (text, _, _, _) :: _ => text | [] => None end
              = match hd_error (map df_definition l) with Some t0 => t0 | None => None end) as ->
          by (destruct l; reflexivity)
  end.
  destruct (children_tables nt L d d' Hadd Hext) as [sb (_ & _ & _ & _ & _ & HA & _)]. cbv zeta in HA.
  rewrite conv_definitions. unfold AC.App in HA. rewrite HA.
  rewrite (all_synsets_local (AC.definition_rows d' lexid [])).
  2:{ intros ss Hss Hx. unfold AC.definition_rows.
      destruct (w5_childless_synset L HL5 ss Hss Hx) as [_ ->]. reflexivity. }
  rewrite (synset_children (fun r => definition_of_row (conv_row r)) _ _
             (fun r => Z.eqb (c_int (conv_cell (R.cell_at 1 r))) (fst ky)
                       && Z.eqb (c_int (conv_cell (R.cell_at 0 r))) lexid)
             (fun r => c_otext (conv_cell (R.cell_at 2 r))) _ _ _ ky); [| | | |exact Hky|].
  - unfold AC.definition_rows. destruct (A.vlistk (snd ky) "definitions") as [|df dfs]; [reflexivity|].
    cbn [map hd_error]. rewrite definition_row_cells. unfold R.cell_at. cbn [nth]. apply otext_preq.
  - intros r Hr. apply andb_false_iff. right. rewrite z_in_single. apply Z.eqb_neq.
    assert (In (definition_of_row (conv_row r)) (t_definitions (conv d))) as Hin
        by (rewrite conv_definitions; apply (in_map (fun r0 => definition_of_row (conv_row r0))); exact Hr).
    pose proof (w5_definitions d Hdb5 _ Hin). lia.
  - intros k0 r. unfold definition_of_row. cbn [df_synset_rowid df_lexicon_rowid].
    rewrite !col_conv_row, z_in_single. reflexivity.
  - intros k0 r. unfold definition_of_row. cbn [df_definition]. rewrite col_conv_row. reflexivity.
  - intros ky' r Hky' Hr. unfold AC.definition_rows in Hr. apply in_map_iff in Hr. destruct Hr as [df [<- _]].
    rewrite definition_row_cells. unfold R.cell_at. cbn [nth].
    rewrite (synset_ref_resolve ky' Hky'), coerce_integer. cbn [conv_cell c_int].
    rewrite Z.eqb_refl. apply andb_true_r.
Qed.
End Added3.

(* ====================================================================== *)
(* Rowids stay pairwise distinct in the lookup tables ilis and lexfiles     *)
(* ====================================================================== *)
Definition rowids_ok (t : string) (d : R.db) : Prop := NoDup (map R.rowid_of (R.get_table d t)).
Definition rowids_okb (t : string) (d : R.db) : bool := nodup_zb (map R.rowid_of (R.get_table d t)).
Lemma rowids_okb_ok : forall t d, rowids_okb t d = true -> rowids_ok t d.
Proof. intros t d H. apply nodup_zb_NoDup. exact H. Qed.

Lemma NoDup_snoc : forall {X} (l : list X) x, NoDup l -> ~ In x l -> NoDup (l ++ [x])%list.
Proof.
  intros X l x Hnd Hx. induction Hnd as [|a l Ha Hnd IH]; simpl; [constructor; [intros []|constructor]|].
  constructor.
  - intro Hin. apply in_app_or in Hin. destruct Hin as [Hin|[->|[]]]; [contradiction|]. apply Hx. left. reflexivity.
  - apply IH. intro Hin. apply Hx. right. exact Hin.
Qed.
Lemma rowids_ok_ioi : forall t d t' vals, rowids_ok t d -> rowids_ok t (R.insert_or_ignore d t' vals).
Proof.
  intros t d t' vals H. destruct (AP.insert_or_ignore_inv d t' vals) as [->| ->]; [exact H|].
  unfold rowids_ok. destruct (String.eqb t' t) eqn:E.
  - apply String.eqb_eq in E. subst t'. rewrite AP.get_set_same, map_app. apply NoDup_snoc; [exact H|].
    cbn [map R.rowid_of]. intro Hin. apply in_map_iff in Hin. destruct Hin as [r [Er Hr]].
    pose proof (AP.next_rowid_fresh _ r Hr). lia.
  - apply String.eqb_neq in E. rewrite AP.get_set_other by exact E. exact H.
Qed.
Lemma rowids_ok_insert_other : forall t d t' vals d1,
    R.insert d t' vals = R.Ok d1 -> t' <> t -> rowids_ok t d -> rowids_ok t d1.
Proof.
  intros t d t' vals d1 H Hne Hok. apply AP.insert_inv in H. subst d1. unfold rowids_ok.
  rewrite AP.get_set_other by exact Hne. exact Hok.
Qed.
Lemma rowids_ok_oc : forall ts t d d1, AC.only_changes ts d d1 -> ~ In t ts -> rowids_ok t d -> rowids_ok t d1.
Proof. intros ts t d d1 Hoc Ht H. unfold rowids_ok. rewrite (Hoc t Ht). exact H. Qed.

Lemma rowids_ok_update_lookup_tables : forall t L d d1,
    A._update_lookup_tables L d = R.Ok d1 -> rowids_ok t d -> rowids_ok t d1.
Proof.
  intros t L d d1 H Hok. unfold A._update_lookup_tables in H.
  apply AP.bind_ok in H. destruct H as [rt1 [_ H]]. apply AP.bind_ok in H. destruct H as [rt2 [_ H]].
  apply AP.bind_ok in H. destruct H as [reltypes [_ H]]. apply AP.bind_ok in H. destruct H as [d0 [F1 H]].
  apply AP.bind_ok in H. destruct H as [lexfiles [_ H]].
  revert H. apply AP.foldM_inv with (P := rowids_ok t).
  - clear. intros s x s' Hs Hstep. cbv beta in Hstep. repeat AP.mstep. apply rowids_ok_ioi. exact Hs.
  - revert F1. apply AP.foldM_inv with (P := rowids_ok t); [|exact Hok].
    clear. intros s x s' Hs Hstep. cbv beta in Hstep. repeat AP.mstep. apply rowids_ok_ioi. exact Hs.
Qed.
Lemma rowids_ok_insert_synsets : forall synsets lexid d d1,
    A._insert_synsets synsets lexid d = R.Ok d1 -> rowids_ok "ilis" d -> rowids_ok "ilis" d1.
Proof.
  intros synsets lexid d d1 H Hok. rewrite AC.insert_synsets_unfold in H.
  revert H. apply AP.foldM_inv with (P := rowids_ok "ilis"); [|exact Hok].
  clear. intros s b s' Hs Hstep. unfold AC.batch_step in Hstep.
  apply AP.bind_ok in Hstep. destruct Hstep as [s1 [P1 Hstep]].
  apply AP.bind_ok in Hstep. destruct Hstep as [s2 [P2 P3]].
  destruct (AC.ph2_fold _ _ _ _ P2) as [_ O2]. destruct (AC.ph3_fold _ _ _ _ P3) as [_ O3].
  unfold rowids_ok. rewrite O3, O2 by discriminate.
  revert P1. apply AP.foldM_inv with (P := rowids_ok "ilis"); [|exact Hs].
  clear. intros s x s' Hs Hstep. unfold AC.ph1 in Hstep. repeat AP.mstep; try exact Hs.
  apply rowids_ok_ioi. exact Hs.
Qed.

Lemma add_one_lexicon_rowids_ok : forall nt L d d',
    A.add_one_lexicon nt L d = R.Ok d' ->
    (rowids_ok "ilis" d -> rowids_ok "ilis" d') /\ (rowids_ok "lexfiles" d -> rowids_ok "lexfiles" d').
Proof.
  intros nt L d d' H. AC.one_inv H.
  pose proof (rowids_ok_update_lookup_tables "ilis" _ _ _ H1) as I1.
  pose proof (rowids_ok_update_lookup_tables "lexfiles" _ _ _ H1) as F1.
  pose proof (rowids_ok_insert_synsets _ _ _ _ H3) as I3.
  AC.oc_facts. split; intro Hok.
  - apply I1 in Hok. apply (rowids_ok_oc _ "ilis" _ _ H2) in Hok; [|AC.not_in]. apply I3 in Hok.
    unfold rowids_ok in *. AC.tbl_eq "ilis". exact Hok.
  - apply F1 in Hok. unfold rowids_ok in *. AC.tbl_eq "lexfiles". exact Hok.
Qed.

(* ====================================================================== *)
(* K5c — ILI, proposed ILI, lexfile                                        *)
(* ====================================================================== *)
Lemma lookup_join : forall {C} (typed : R.row -> C) (key : C -> Z) (rows : R.table) p r,
    (forall r0, key (typed r0) = R.rowid_of r0) -> NoDup (map R.rowid_of rows) -> find p rows = Some r ->
    find_by key (R.rowid_of r) (map typed rows) = Some (typed r).
Proof.
  intros C typed key rows p r Hkey Hnd Hf. rewrite <- (Hkey r). apply find_by_unique.
  - unfold unique_keys. rewrite map_map, (map_ext _ R.rowid_of) by exact Hkey. exact Hnd.
  - apply in_map. apply find_some in Hf. tauto.
Qed.
Lemma sql_eq_text : forall x c,
    R.sql_eq x (R.coerce "TEXT" c) = true -> exists a, x = R.CText a /\ R.coerce "TEXT" c = R.CText a.
Proof.
  intros [|m|a|v] [|n|b|u] H; simpl in H; try discriminate.
  - apply str_eqb_eq in H. subst. eexists. split; reflexivity.
  - apply str_eqb_eq in H. subst. eexists. split; reflexivity.
Qed.
Lemma find_never : forall {X0} (p : X0 -> bool) l, (forall x, p x = false) -> find p l = None.
Proof. intros X0 p l H. induction l as [|a l IH]; simpl; [reflexivity|]. rewrite H. exact IH. Qed.
Lemma LEXFILE_QUERY_pred : forall d name,
    A.LEXFILE_QUERY d name = R.select_rowid d "lexfiles" (fun r => R.sql_eq (R.cell_at 1 r) (A.as_text name)).
Proof. reflexivity. Qed.

(* the text a document value is compared with in a TEXT column *)
Definition lexfile_pred (ss : val) (r : R.row) : bool :=
  R.sql_eq (R.cell_at 1 r) (A.as_text (AC.pcell (A.param (A.vgetk ss "lexfile")))).
(* the definition of a proposed ILI as stored: the text of the ILIDefinition element *)
Definition doc_ili_definition (ss : val) : option str :=
  c_otext (conv_cell (R.coerce "TEXT" (AC.ili_def_text ss))).
Lemma doc_ili_definition_text : forall ss t,
    vtruthy (A.vgetk ss "ili_definition") = true ->
    A.vgetk (A.vgetk ss "ili_definition") "text" = VStr t ->
    vhas (A.vgetk ss "ili_definition") (A.k "meta") = true ->
    (match vget (A.vgetk ss "ili_definition") (A.k "meta") with VList _ => false | _ => true end) = true ->
    doc_ili_definition ss = Some t.
Proof.
  intros ss t Ht Etext Hm Hnl. unfold doc_ili_definition, AC.ili_def_text, A.ili_definition_cells.
  rewrite Ht, (preq_VStr _ _ _ Etext). cbn [R.bind]. unfold A.preq, A.vreq. rewrite Hm. cbn [R.bind].
  destruct (vget (A.vgetk ss "ili_definition") (A.k "meta")); try discriminate; reflexivity.
Qed.

Section Added4.
Variables (nt : A.normtable) (L : val) (d d' : R.db).
Hypothesis Hadd : A.add_one_lexicon nt L d = R.Ok d'.
Hypothesis Hdb : wf_db d = true.
Hypothesis HL : wf_lex_facts L.
Hypothesis Hdb5 : wf_db5_facts d.
Variable w : Wordnet.

Local Notation lexid := (R.next_rowid (R.get_table d "lexicons")).
Local Notation lss := (A._local_synsets (A._synsets L)).
Local Notation nS := (R.next_rowid (R.get_table d "synsets")).
Local Notation T := (conv d').
Local Notation Y := (A.enumerate_from nS lss).
Local Notation Sy := (doc_Synset T w d' lexid).

Lemma mkY_refs : forall ky,
    sy_ili_rowid (mkY d d' ky) = c_oint (conv_cell (AC.ili_lookup d' (AC.ilic_of (snd ky))))
    /\ sy_lexfile_rowid (mkY d d' ky)
       = c_oint (conv_cell (A.LEXFILE_QUERY d' (AC.pcell (A.param (A.vgetk (snd ky) "lexfile"))))).
Proof.
  intros [k0 ss]. unfold mkY. cbn [fst snd]. rewrite synset_row_cells.
  unfold typed_synset, synset_of_row. cbn [sy_ili_rowid sy_lexfile_rowid].
  rewrite !col_conv_row. unfold R.cell_at. cbn [nth]. rewrite !coerce_integer. split; reflexivity.
Qed.

(* (K5c, ILI) Synset.ili as an attribute: the document's ili when a row of ilis carries it (it was there,
   or it was created as "presupposed"), None otherwise (no ili, ili = "in", or the ILI could not be created) *)
Theorem ss_ili_new : forall ky, rowids_ok "ilis" d ->
    ss_ili (Sy ky)
    = match find (AC.ili_pred (AC.ilic_of (snd ky))) (R.get_table d' "ilis") with
      | Some _ => doc_otext (A.vgetk (snd ky) "ili")
      | None => None
      end.
Proof.
  intros ky Hok. apply (proj1 (add_one_lexicon_rowids_ok nt L d d' Hadd)) in Hok.
  unfold doc_Synset. cbn [mk_Synset ss_ili synset_columns qy_ili]. fold (mkY d d' ky).
  destruct (mkY_refs ky) as [E _]. rewrite E. unfold AC.ili_lookup, R.select_rowid.
  destruct (find (AC.ili_pred (AC.ilic_of (snd ky))) (R.get_table d' "ilis")) as [r|] eqn:Ef; [|reflexivity].
  cbn [conv_cell c_oint]. unfold ili_id_of. cbn [ofind_by]. rewrite conv_ilis.
  rewrite (lookup_join (fun r0 => ili_of_row (conv_row r0)) il_rowid _ (AC.ili_pred (AC.ilic_of (snd ky))) r); [| |exact Hok|exact Ef].
  2:{ intro r0. unfold ili_of_row. cbn [il_rowid]. rewrite col_conv_row. apply c_int_rowid. }
  unfold ili_of_row. cbn [il_id]. rewrite col_conv_row.
  apply find_some in Ef. destruct Ef as [_ Hp]. unfold AC.ili_pred, A.as_text in Hp.
  unfold AC.ilic_of in Hp. destruct (AC.presupposed (snd ky)).
  - rewrite pv_vreq in Hp. apply sql_eq_text in Hp. destruct Hp as [a [E1 E2]].
    rewrite E1. cbn [conv_cell c_text]. rewrite <- otext_param, E2. reflexivity.
  - destruct (R.cell_at 1 r); discriminate.
Qed.

(* (K5c, lexfile) the name of the lexfile when the lexfiles table carries it *)
Theorem Synset_lexfile_new : forall ky, In ky Y -> rowids_ok "lexfiles" d ->
    Synset_lexfile T (Sy ky)
    = match find (lexfile_pred (snd ky)) (R.get_table d' "lexfiles") with
      | Some _ => doc_otext (A.vgetk (snd ky) "lexfile")
      | None => None
      end.
Proof.
  intros ky Hky Hok. apply (proj2 (add_one_lexicon_rowids_ok nt L d d' Hadd)) in Hok.
  unfold Synset_lexfile, get_lexfile.
  assert (ss__id (Sy ky) = fst ky) as -> by (unfold doc_Synset; cbn [mk_Synset ss__id synset_columns qy_rowid]; apply (mkY_rowid d d' ky)).
  rewrite (find_new_synset nt L d d' Hadd ky Hky). destruct (mkY_refs ky) as [_ E]. rewrite E.
  rewrite LEXFILE_QUERY_pred. unfold R.select_rowid. fold (lexfile_pred (snd ky)).
  destruct (find (lexfile_pred (snd ky)) (R.get_table d' "lexfiles")) as [r|] eqn:Ef; [|reflexivity].
  cbn [conv_cell c_oint ofind_by]. rewrite conv_lexfiles.
  rewrite (lookup_join (fun r0 => lexfile_of_row (conv_row r0)) lf_rowid _ (lexfile_pred (snd ky)) r); [| |exact Hok|exact Ef].
  2:{ intro r0. unfold lexfile_of_row. cbn [lf_rowid]. rewrite col_conv_row. apply c_int_rowid. }
  unfold lexfile_of_row. cbn [lf_name]. rewrite col_conv_row.
  apply find_some in Ef. destruct Ef as [_ Hp]. unfold lexfile_pred, A.as_text in Hp.
  apply sql_eq_text in Hp. destruct Hp as [a [E1 E2]].
  rewrite E1. cbn [conv_cell c_text]. rewrite <- otext_param, E2. reflexivity.
Qed.
End Added4.

Section Added5.
Variables (nt : A.normtable) (L : val) (d d' : R.db).
Hypothesis Hadd : A.add_one_lexicon nt L d = R.Ok d'.
Hypothesis Hext : vtruthy (A.vgetk L "extends") = false.
Hypothesis Hdb : wf_db d = true.
Hypothesis HL : wf_lex_facts L.
Hypothesis Hdb5 : wf_db5_facts d.
Hypothesis HL5 : wf_lex5_facts L.
Variable w : Wordnet.
Hypothesis Hw : wn_lexicon_ids w = [R.next_rowid (R.get_table d "lexicons")].
Hypothesis Hm : wn_default_mode w = false.

Local Notation lexid := (R.next_rowid (R.get_table d "lexicons")).
Local Notation les := (A._local_entries (A._entries L)).
Local Notation lss := (A._local_synsets (A._synsets L)).
Local Notation nE := (R.next_rowid (R.get_table d "entries")).
Local Notation nS := (R.next_rowid (R.get_table d "synsets")).
Local Notation nN := (R.next_rowid (R.get_table d "senses")).
Local Notation T := (conv d').
Local Notation sitems := (sense_items_from nE les).
Local Notation X := (A.enumerate_from nN sitems).
Local Notation sitem := (Z * ((Z * val) * (Z * val)))%type.
Local Notation Y := (A.enumerate_from nS lss).
Local Notation Sy := (doc_Synset T w d' lexid).
Local Notation Sn := (fun kx : sitem => mk_Sense w (qOf d kx)).

Definition prop_rows (dd : R.db) (lx : Z) (ss : val) : list (list R.cell) :=
  if A.is_in (A.vgetk ss "ili")
  then [[R.coerce "INTEGER" (AC.synset_ref dd lx [] ss); R.coerce "TEXT" (AC.ili_def_text ss);
         R.coerce "META" (AC.ili_def_meta ss)]]
  else [].
Lemma proposed_rows_eq : forall dd lx ss, AC.proposed_rows dd lx ss = prop_rows dd lx ss.
Proof.
  intros dd lx ss. unfold AC.proposed_rows, prop_rows. rewrite pv_vreq.
  destruct (A.is_in (A.vgetk ss "ili")); reflexivity.
Qed.

(* (K5c, proposed ILI) a synset with ili = "in" has the proposed ILI made of its ILIDefinition *)
Theorem Synset_ili_proposed : forall ky, In ky Y -> rowids_ok "ilis" d ->
    A.is_in (A.vgetk (snd ky) "ili") = true ->
    ss_ili (Sy ky) = None
    /\ exists i, Synset_ili T (Sy ky) = Some i /\ ili_id i = None /\ ili_status i = s_proposed
                 /\ ili_definition i = doc_ili_definition (snd ky).
Proof.
  intros ky Hky Hok Hin.
  assert (ss_ili (Sy ky) = None) as Eili.
  { rewrite (ss_ili_new nt L d d' Hadd w ky Hok).
    assert (AC.ilic_of (snd ky) = R.CNull) as ->.
    { unfold AC.ilic_of, AC.presupposed. rewrite pv_vreq, Hin, andb_false_r. reflexivity. }
    rewrite (find_never _ _ AC.ili_pred_null). reflexivity. }
  split; [exact Eili|].
  unfold Synset_ili. rewrite Eili. cbn [truthy].
  assert (ss__id (Sy ky) = fst ky) as -> by (unfold doc_Synset; cbn [mk_Synset ss__id synset_columns qy_rowid]; apply (mkY_rowid d d' ky)).
  unfold find_proposed_ilis. cbn [nonempty].
  destruct (AC.one_lexicon_synsets nt L d d' Hadd) as [_ HA]. cbv zeta in HA. unfold AC.App in HA.
  rewrite conv_proposed_ilis, HA. rewrite (flat_map_ext _ _ (proposed_rows_eq d' lexid)).
  match goal with |- context [filter ?p ?l] => set (F := filter p l) end.
  assert (map pi_definition F
          = map (fun r => c_otext (conv_cell (R.cell_at 1 r))) (prop_rows d' lexid (snd ky))) as Hmap.
  { unfold F.
    apply (synset_children L d (fun r => proposed_ili_of_row (conv_row r))
                (fun p => oz_is (pi_synset_rowid p) (fst ky) && true) pi_definition
                (fun r => oz_is (c_oint (conv_cell (R.cell_at 0 r))) (fst ky) && true)
                (fun r => c_otext (conv_cell (R.cell_at 1 r)))
                (R.get_table d "proposed_ilis") (R.next_rowid (R.get_table d "proposed_ilis"))
                (prop_rows d' lexid) ky).
    - intros r Hr. rewrite andb_true_r.
      assert (In (proposed_ili_of_row (conv_row r)) (t_proposed_ilis (conv d))) as Hin0
          by (rewrite conv_proposed_ilis; apply (in_map (fun r0 => proposed_ili_of_row (conv_row r0))); exact Hr).
      destruct (pi_synset_rowid (proposed_ili_of_row (conv_row r))) as [z|] eqn:Ez; [|reflexivity].
      pose proof (w5_proposed d Hdb5 _ z Hin0 Ez). pose proof (enumerate_fst_ge _ _ _ Hky).
      cbn [oz_is]. apply Z.eqb_neq. lia.
    - intros k0 r. unfold proposed_ili_of_row. cbn [pi_synset_rowid]. rewrite col_conv_row. reflexivity.
    - intros k0 r. unfold proposed_ili_of_row. cbn [pi_definition]. rewrite col_conv_row. reflexivity.
    - exact Hky.
    - intros ky' r Hky' Hr. unfold prop_rows in Hr. destruct (A.is_in (A.vgetk (snd ky') "ili")); [|destruct Hr].
      destruct Hr as [<-|[]]. unfold R.cell_at. cbn [nth].
      rewrite (synset_ref_resolve nt L d d' Hadd Hdb HL ky' Hky'), coerce_integer. cbn [conv_cell c_oint oz_is].
      apply andb_true_r. }
  unfold prop_rows in Hmap. rewrite Hin in Hmap. cbn [map] in Hmap.
  destruct F as [|p0 F']; [discriminate|]. cbn [map] in Hmap. injection Hmap as E0 _.
  eexists. split; [reflexivity|]. cbn [mk_ILI ili_id ili_status ili_definition qi_id qi_status qi_definition].
  repeat split. rewrite E0. unfold R.cell_at. cbn [nth]. reflexivity.
Qed.
(* ---------------------------------------------------------------------- *)
(* K5b — subcategorization frames                                          *)
(* ---------------------------------------------------------------------- *)
(* [names v s]: the value v (an element of a frame's list of sense ids) is the id of the sense s;
   [ftext frame]: the frame as text *)
Definition names (v s : val) : bool := match doc_otext v with Some t => str_eqb t (sid s) | None => false end.
Definition ftext (frame : val) : list str := match doc_otext frame with Some t => [t] | None => [] end.
(* the frames of a sense: for every frame of _collect_frames, in order, once for every occurrence of the
   sense's id in the frame's list of senses *)
Definition doc_frames (synbhrs : list A.synbhr) (s : val) : list str :=
  flat_map (fun fs : val * list val => flat_map (fun v => if names v s then ftext (fst fs) else []) (snd fs))
           (AC.framemap_of synbhrs).

Lemma as_text_param : forall v,
    match doc_otext v with
    | Some t => A.as_text (AC.pcell (A.param v)) = R.CText t
    | None => forall x, R.sql_eq x (A.as_text (AC.pcell (A.param v))) = false
    end.
Proof. intros [|b|n|t|l|kvs]; simpl; try reflexivity; intros [|m|a|u]; reflexivity. Qed.

Lemma X_sid : forall kx, In kx X -> A.vgetk (snd (snd (snd kx))) "id" = VStr (sid (snd (snd (snd kx)))).
Proof.
  intros kx Hkx. apply is_sid_spec. apply (w5_sense_ids L HL5). unfold local_senses_of, doc_senses.
  rewrite <- (sense_items_doc les nE), map_map. cbn [snd].
  apply (in_map (fun x0 : (Z * val) * (Z * val) => snd (snd x0))). apply (enum_sense_items L d kx Hkx).
Qed.
Lemma X_sid_inj : forall kx kx', In kx X -> In kx' X ->
    sid (snd (snd (snd kx))) = sid (snd (snd (snd kx'))) -> kx = kx'.
Proof.
  intros kx kx' H H' E.
  apply (NoDup_map_inj (fun k : sitem => sid (snd (snd (snd k)))) X); try assumption.
  rewrite <- (map_map snd (fun x0 : (Z * val) * (Z * val) => sid (snd (snd x0)))), enumerate_snd.
  rewrite <- (map_map (fun x0 : (Z * val) * (Z * val) => snd (snd x0)) sid).
  assert (map (fun x0 : (Z * val) * (Z * val) => snd (snd x0)) sitems = local_senses_of L) as ->.
  { unfold local_senses_of, doc_senses. rewrite <- (sense_items_doc les nE), map_map. reflexivity. }
  exact (w5_sense_nodup L HL5).
Qed.

(* SENSE_QUERY with a bound value v finds the row of the sense s exactly when v names s *)
Lemma sense_query_iff : forall v kx, In kx X ->
    Z.eqb (c_int (conv_cell (A.SENSE_QUERY d' (AC.pcell (A.param v)) (R.CInt lexid)))) (fst kx)
    = names v (snd (snd (snd kx))).
Proof.
  intros v kx Hkx. rewrite SENSE_QUERY_pred. unfold R.select_rowid, names, AC.syn_pred.
  rewrite (senses_table nt L d d' Hadd Hext HL).
  assert (1 <= fst kx) as Hpos.
  { pose proof (enumerate_fst_ge _ _ _ Hkx). pose proof (next_rowid_pos (R.get_table d "senses")). lia. }
  assert (forall k1 x1, In (k1, x1) X ->
            forall t, R.sql_eq (R.cell_at 1 (R.CInt k1 :: rowS L d d' x1)) (R.CText t)
                      && R.sql_eq (R.cell_at 2 (R.CInt k1 :: rowS L d d' x1)) (R.CInt lexid)
                      = str_eqb (sid (snd (snd x1))) t) as Hnew.
  { intros k1 [[ke e] [j s]] H1 t. unfold rowS. cbn [fst snd]. rewrite sense_row_cells.
    unfold R.cell_at. cbn [nth]. pose proof (X_sid _ H1) as Es. cbn [snd] in Es.
    rewrite (preq_VStr _ _ _ Es). simpl. rewrite Z.eqb_refl. apply andb_true_r. }
  pose proof (as_text_param v) as Hv. destruct (doc_otext v) as [t|].
  - rewrite Hv.
    match goal with |- context [find ?p ?l] => destruct (find p l) as [r|] eqn:Ef end.
    + apply find_some in Ef. destruct Ef as [Hr Hp]. apply in_app_or in Hr. destruct Hr as [Hr|Hr].
      * exfalso. rewrite (sql_eq_int_false _ _ (old_sense_lex d Hdb r Hr)) in Hp.
        rewrite andb_false_r in Hp. discriminate.
      * apply in_map_iff in Hr. destruct Hr as [[k1 x1] [<- H1]]. cbn [fst snd] in *.
        rewrite (Hnew k1 x1 H1 t) in Hp. apply str_eqb_eq in Hp. subst t.
        cbn [R.rowid_of conv_cell c_int]. destruct (Z.eqb k1 (fst kx)) eqn:Ek.
        -- apply Z.eqb_eq in Ek.
           assert ((k1, x1) = kx) as <- by (apply (NoDup_map_inj fst X); [apply enumerate_fst_NoDup|assumption|assumption|exact Ek]).
           symmetry. apply str_eqb_refl.
        -- destruct (str_eqb (sid (snd (snd x1))) (sid (snd (snd (snd kx))))) eqn:Es; [|reflexivity].
           apply str_eqb_eq in Es. pose proof (X_sid_inj (k1, x1) kx H1 Hkx Es) as Eq.
           rewrite <- Eq in Ek. cbn [fst] in Ek. rewrite Z.eqb_refl in Ek. discriminate.
    + cbn [conv_cell c_int]. assert (Z.eqb 0 (fst kx) = false) as -> by (apply Z.eqb_neq; lia).
      destruct (str_eqb t (sid (snd (snd (snd kx))))) eqn:Es; [|reflexivity]. apply str_eqb_eq in Es. subst t.
      exfalso. destruct kx as [k0 x0].
      pose proof (find_none _ _ Ef (R.CInt k0 :: rowS L d d' x0)) as Hn. cbv beta in Hn.
      rewrite (Hnew k0 x0 Hkx), str_eqb_refl in Hn. cbn [fst snd] in Hn.
      assert (true = false) as C; [|discriminate C]. apply Hn. apply in_or_app. right.
      apply (in_map (fun k : sitem => R.CInt (fst k) :: rowS L d d' (snd k)) X (k0, x0)). exact Hkx.
  - rewrite find_never by (intro r; rewrite Hv; reflexivity).
    cbn [conv_cell c_int]. apply Z.eqb_neq. lia.
Qed.
Lemma sb_row_cells : forall lx sb,
    AC.sb_row lx sb
    = [R.coerce "TEXT" (AC.pcell (A.param (if vtruthy (A.sb_get_id sb) then A.sb_get_id sb else VNone)));
       R.CInt lx; R.coerce "TEXT" (AC.pcell (A.param (A.sb_frame sb)))].
Proof. reflexivity. Qed.
Lemma sbs_row_cells : forall d0 lx frame v,
    AC.sbs_row d0 lx [] frame v
    = [R.coerce "INTEGER" (AC.sb_lookup d0 lx frame);
       R.coerce "INTEGER" (A.SENSE_QUERY d0 (AC.pcell (A.param v)) (R.CInt lx))].
Proof. reflexivity. Qed.
Lemma sb_lookup_pred : forall d0 lx frame,
    AC.sb_lookup d0 lx frame
    = R.select_rowid d0 "syntactic_behaviours"
        (fun r => R.sql_eq (R.cell_at 2 r) (R.CInt lx)
                  && R.sql_eq (R.cell_at 3 r) (A.as_text (AC.pcell (A.param frame)))).
Proof. reflexivity. Qed.

(* the keys of the frame map are frames of the collected syntactic behaviours *)
Lemma dict_set_keys : forall {V} (m : list (val * V)) k0 v kv,
    In kv (A.dict_set m k0 v) -> In (fst kv) (map fst m) \/ fst kv = k0.
Proof.
  intros V m k0 v kv. induction m as [|[k1 v1] m IH]; simpl; intro H.
  - destruct H as [<-|[]]. right. reflexivity.
  - destruct (val_eqb k1 k0).
    + destruct H as [<-|H]; [left; left; reflexivity|]. left. right. apply in_map. exact H.
    + destruct H as [<-|H]; [left; left; reflexivity|]. destruct (IH H) as [H'|H']; [left; right; exact H'|right; exact H'].
Qed.
Lemma framemap_keys : forall synbhrs fs, In fs (AC.framemap_of synbhrs) ->
    exists sb, In sb synbhrs /\ A.sb_frame sb = fst fs.
Proof.
  intros synbhrs fs. unfold AC.framemap_of.
  assert (forall l (m : list (val * list val)),
             (forall kv, In kv m -> exists sb, In sb (synbhrs) /\ A.sb_frame sb = fst kv) ->
             (forall sb, In sb l -> In sb synbhrs) ->
             forall kv, In kv (fold_left (fun m0 sb => A.dict_set m0 (A.sb_frame sb) (A.sb_senses sb)) l m) ->
                        exists sb, In sb synbhrs /\ A.sb_frame sb = fst kv) as G.
  { induction l as [|sb l IH]; intros m Hmk Hl kv Hkv; simpl in Hkv; [apply Hmk; exact Hkv|].
    apply (IH (A.dict_set m (A.sb_frame sb) (A.sb_senses sb))); [| |exact Hkv].
    - intros kv' Hkv'. destruct (dict_set_keys _ _ _ _ Hkv') as [Hin|E].
      + apply in_map_iff in Hin. destruct Hin as [kv0 [E0 Hin0]]. rewrite <- E0. apply Hmk. exact Hin0.
      + exists sb. split; [apply Hl; left; reflexivity|symmetry; exact E].
    - intros sb' Hsb'. apply Hl. right. exact Hsb'. }
  apply (G synbhrs []); [intros kv []|intros sb Hsb; exact Hsb].
Qed.

Lemma flat_map_filter : forall {X0 Y0} (g : X0 -> list Y0) (q : X0 -> bool) l,
    flat_map g (filter q l) = flat_map (fun x => if q x then g x else []) l.
Proof.
  intros X0 Y0 g q l. induction l as [|x l IH]; simpl; [reflexivity|].
  destruct (q x); simpl; rewrite IH; reflexivity.
Qed.
Lemma flat_map_filter_numbered : forall {C Y0} (typed : R.row -> C) (p : C -> bool) (g : C -> list Y0)
                                        (q : list R.cell -> bool) (g' : list R.cell -> list Y0) rows n,
    (forall k0 r, p (typed (R.CInt k0 :: r)) = q r) -> (forall k0 r, g (typed (R.CInt k0 :: r)) = g' r) ->
    flat_map g (filter p (map typed (AC.number_from n rows))) = flat_map g' (filter q rows).
Proof.
  intros C Y0 typed p g q g' rows n Hp Hg. revert n. induction rows as [|r rows IH]; intro n; simpl; [reflexivity|].
  rewrite Hp. destruct (q r); simpl; rewrite IH; [rewrite Hg|]; reflexivity.
Qed.

Section Frames.
Variable synbhrs : list A.synbhr.
Hypothesis Hcf : A._collect_frames L = R.Ok synbhrs.
Local Notation nB := (R.next_rowid (R.get_table d "syntactic_behaviours")).
Local Notation mkB := (fun kb : Z * A.synbhr => R.CInt (fst kb) :: AC.sb_row lexid (snd kb)).
Local Notation typedB := (fun r : R.row => syntactic_behaviour_of_row (conv_row r)).

Lemma sb_table :
  R.get_table d' "syntactic_behaviours"
  = (R.get_table d "syntactic_behaviours" ++ map mkB (A.enumerate_from nB synbhrs))%list.
Proof.
  destruct (children_tables nt L d d' Hadd Hext) as [sb (Hsb & _ & _ & _ & _ & _ & HA & _)]. cbv zeta in HA.
  rewrite Hcf in Hsb. injection Hsb as <-. unfold AC.App in HA. rewrite HA, number_from_map. reflexivity.
Qed.
Lemma sbs_table :
  R.get_table d' "syntactic_behaviour_senses"
  = (R.get_table d "syntactic_behaviour_senses"
     ++ AC.number_from (R.next_rowid (R.get_table d "syntactic_behaviour_senses"))
          (flat_map (AC.sbs_rows d' lexid []) (AC.framemap_of synbhrs)))%list.
Proof.
  destruct (children_tables nt L d d' Hadd Hext) as [sb (Hsb & _ & _ & _ & _ & _ & _ & HA)]. cbv zeta in HA.
  rewrite Hcf in Hsb. injection Hsb as <-. exact HA.
Qed.

Lemma old_sb_facts : forall r, In r (R.get_table d "syntactic_behaviours") ->
    sb_lexicon_rowid (typedB r) < lexid /\ sb_rowid (typedB r) < nB.
Proof.
  intros r Hr. split.
  - apply (w5_sb d Hdb5). rewrite conv_syntactic_behaviours. apply (in_map typedB). exact Hr.
  - unfold syntactic_behaviour_of_row. cbn [sb_rowid]. rewrite col_conv_row, c_int_rowid.
    apply AP.next_rowid_fresh. exact Hr.
Qed.
Lemma new_sb_fields : forall kb,
    sb_rowid (typedB (mkB kb)) = fst kb /\ sb_lexicon_rowid (typedB (mkB kb)) = lexid
    /\ sb_frame (typedB (mkB kb)) = c_text (conv_cell (R.coerce "TEXT" (AC.pcell (A.param (A.sb_frame (snd kb)))))).
Proof.
  intros [k0 sb]. cbn [fst snd]. rewrite sb_row_cells. unfold syntactic_behaviour_of_row.
  cbn [sb_rowid sb_lexicon_rowid sb_frame]. rewrite !col_conv_row. repeat split; reflexivity.
Qed.

(* the join of a syntactic_behaviour_senses row with its syntactic behaviour *)
Definition frame_of_ref (ref : Z) : list str :=
  match find_by sb_rowid ref (t_syntactic_behaviours T) with
  | Some sb => if z_in (sb_lexicon_rowid sb) [lexid] then [sb_frame sb] else []
  | None => []
  end.
Lemma frame_join : forall frame,
    (exists sb, In sb synbhrs /\ A.sb_frame sb = frame) ->
    frame_of_ref (c_int (conv_cell (AC.sb_lookup d' lexid frame))) = ftext frame.
Proof.
  intros frame [sb0 [Hsb0 Efr]]. unfold frame_of_ref, ftext. rewrite sb_lookup_pred. unfold R.select_rowid.
  rewrite conv_syntactic_behaviours, sb_table.
  assert (forall r, In r (R.get_table d "syntactic_behaviours") -> R.sql_eq (R.cell_at 2 r) (R.CInt lexid) = false) as Hold.
  { intros r Hr. apply sql_eq_int_false. destruct (old_sb_facts r Hr) as [Hlt _].
    unfold syntactic_behaviour_of_row in Hlt. cbn [sb_lexicon_rowid] in Hlt. rewrite col_conv_row in Hlt. lia. }
  pose proof (as_text_param frame) as Hv. destruct (doc_otext frame) as [t|] eqn:Et.
  - rewrite Hv.
    match goal with |- context [find ?p ?l] => destruct (find p l) as [r|] eqn:Ef end.
    + apply find_some in Ef. destruct Ef as [Hr Hp]. apply in_app_or in Hr. destruct Hr as [Hr|Hr].
      * rewrite (Hold r Hr) in Hp. discriminate.
      * apply in_map_iff in Hr. destruct Hr as [kb [<- Hkb]].
        cbn [R.rowid_of conv_cell c_int]. rewrite map_app, find_by_app_none.
        2:{ intros x Hx. apply in_map_iff in Hx. destruct Hx as [r0 [<- Hr0]].
            destruct (old_sb_facts r0 Hr0) as [_ Hlt]. pose proof (enumerate_fst_ge _ _ _ Hkb). lia. }
        rewrite map_map.
        rewrite (find_by_map_enum sb_rowid (fun kb0 : Z * A.synbhr => typedB (mkB kb0)) _ kb);
          [|intro kb0; apply (new_sb_fields kb0)|apply enumerate_fst_NoDup|exact Hkb].
        destruct (new_sb_fields kb) as (_ & E2 & E3). rewrite E2, E3, z_in_single, Z.eqb_refl.
        apply andb_true_iff in Hp. destruct Hp as [_ Hp]. rewrite sb_row_cells in Hp. unfold R.cell_at in Hp.
        cbn [nth] in Hp. destruct (R.coerce "TEXT" (AC.pcell (A.param (A.sb_frame (snd kb))))) as [|m|a|u]; try discriminate.
        simpl in Hp. apply str_eqb_eq in Hp. subst a. reflexivity.
    + exfalso. destruct (enumerate_In_snd synbhrs nB sb0 Hsb0) as [k0 Hk0].
      assert (In (mkB (k0, sb0)) (R.get_table d "syntactic_behaviours" ++ map mkB (A.enumerate_from nB synbhrs))%list)
        as Hmem by (apply in_or_app; right; apply (in_map mkB _ (k0, sb0)); exact Hk0).
      assert (R.sql_eq (R.cell_at 2 (mkB (k0, sb0))) (R.CInt lexid)
              && R.sql_eq (R.cell_at 3 (mkB (k0, sb0))) (R.CText t) = true) as Hpt.
      { cbn [fst snd]. rewrite sb_row_cells. unfold R.cell_at. cbn [nth]. rewrite Efr.
        change (R.coerce "TEXT" (AC.pcell (A.param frame))) with (A.as_text (AC.pcell (A.param frame))).
        rewrite Hv. simpl. rewrite Z.eqb_refl, str_eqb_refl. reflexivity. }
      pose proof (find_none _ _ Ef (mkB (k0, sb0)) Hmem) as Hn. cbv beta in Hn. rewrite Hpt in Hn. discriminate Hn.
  - rewrite find_never by (intro r; rewrite Hv; apply andb_false_r).
    cbn [conv_cell c_int].
    destruct (find_by sb_rowid 0 (map typedB (R.get_table d "syntactic_behaviours" ++ map mkB (A.enumerate_from nB synbhrs))%list))
      as [sb|] eqn:Ef; [|reflexivity].
    apply find_by_Some in Ef. destruct Ef as [Hin E0]. apply in_map_iff in Hin. destruct Hin as [r [<- Hr]].
    apply in_app_or in Hr. destruct Hr as [Hr|Hr].
    + destruct (old_sb_facts r Hr) as [Hlt _]. rewrite z_in_single.
      assert (Z.eqb (sb_lexicon_rowid (typedB r)) lexid = false) as -> by (apply Z.eqb_neq; lia). reflexivity.
    + exfalso. apply in_map_iff in Hr. destruct Hr as [kb [<- Hkb]]. destruct (new_sb_fields kb) as (E1 & _).
      rewrite E1 in E0. pose proof (enumerate_fst_ge _ _ _ Hkb). pose proof (next_rowid_pos (R.get_table d "syntactic_behaviours")). lia.
Qed.

(* (K5b, frames) Sense.frames(): the frames that _collect_frames links to the sense, in the order of the
   frame map *)
Theorem Sense_frames_new : forall kx, In kx X ->
    Sense_frames T (Sn kx) = doc_frames synbhrs (snd (snd (snd kx))).
Proof.
  intros kx Hkx. unfold Sense_frames. cbn [mk_Sense sn_wordnet sn_lexid sn__id qOf qs_rowid].
  rewrite (scope_w3 d d' w Hw Hm). unfold get_syntactic_behaviours.
  rewrite conv_syntactic_behaviour_senses, sbs_table, map_app, filter_app, flat_map_app.
  rewrite filter_none_in.
  2:{ intros c Hc. apply in_map_iff in Hc. destruct Hc as [r [<- Hr]]. apply Z.eqb_neq.
      assert (In (syntactic_behaviour_sense_of_row (conv_row r)) (t_syntactic_behaviour_senses (conv d))) as Hin
          by (rewrite conv_syntactic_behaviour_senses;
              apply (in_map (fun r0 => syntactic_behaviour_sense_of_row (conv_row r0))); exact Hr).
      pose proof (w5_sbs d Hdb5 _ Hin). pose proof (enumerate_fst_ge _ _ _ Hkx). lia. }
  cbn [flat_map app].
  rewrite (flat_map_filter_numbered (fun r => syntactic_behaviour_sense_of_row (conv_row r)) _ _
             (fun r => Z.eqb (c_int (conv_cell (R.cell_at 1 r))) (fst kx))
             (fun r => frame_of_ref (c_int (conv_cell (R.cell_at 0 r))))).
  2:{ intros k0 r. unfold syntactic_behaviour_sense_of_row. cbn [sbs_sense_rowid]. rewrite col_conv_row. reflexivity. }
  2:{ intros k0 r. unfold syntactic_behaviour_sense_of_row, frame_of_ref. cbn [sbs_syntactic_behaviour_rowid].
      rewrite col_conv_row. reflexivity. }
  rewrite flat_map_filter, flat_map_flat_map. unfold doc_frames. apply AC.flat_map_ext_in_eq.
  intros [frame sids] Hfs. unfold AC.sbs_rows. cbn [fst snd]. rewrite flat_map_map. apply flat_map_ext.
  intro v. rewrite sbs_row_cells. unfold R.cell_at. cbn [nth]. rewrite !coerce_integer.
  rewrite (sense_query_iff v kx Hkx).
  destruct (names v (snd (snd (snd kx)))); [|reflexivity].
  apply frame_join. destruct (framemap_keys synbhrs _ Hfs) as [sb [Hsb E]]. exists sb. split; [exact Hsb|exact E].
Qed.
End Frames.
End Added5.

(* ====================================================================== *)
(* The theorems, from add_lexical_resource                                 *)
(* ====================================================================== *)
Lemma Forall2_enum_map : forall {X0 Y0 Z0} (P : Y0 -> Z0 -> Prop) (F : Z * X0 -> Y0) (G : X0 -> Z0) l n,
    (forall kx, In kx (A.enumerate_from n l) -> P (F kx) (G (snd kx))) ->
    Forall2 P (map F (A.enumerate_from n l)) (map G l).
Proof.
  intros X0 Y0 Z0 P F G l n H. rewrite <- (enumerate_snd l n) at 2. rewrite map_map.
  induction (A.enumerate_from n l) as [|kx E IH]; simpl; constructor.
  - apply H. left. reflexivity.
  - apply IH. intros kx' Hkx'. apply H. right. exact Hkx'.
Qed.

Lemma Forall2_impl : forall {X0 Y0} (P Q : X0 -> Y0 -> Prop) l l',
    (forall a b, P a b -> Q a b) -> Forall2 P l l' -> Forall2 Q l l'.
Proof. intros X0 Y0 P Q l l' Hi HF. induction HF; constructor; [apply Hi; assumption|assumption]. Qed.

(* what the API reports about one sense / one synset, in terms of the document *)
Definition sense_report (T : Tables.db) (L : val) (sn : Sense) (s : val) : Prop :=
  Sense_examples T sn = Ok (map (fun ex => doc_otext (A.vgetk ex "text")) (A.vlistk s "examples"))
  /\ map fst (Sense_counts T sn) = map (fun c => doc_int (A.vgetk c "value")) (A.vlistk s "counts")
  /\ Sense_adjposition T sn
     = (if vtruthy (A.vgetk s "adjposition") then Some (doc_text (A.vgetk s "adjposition")) else None)
  /\ Sense_lexicalized T sn = Ok (doc_bool (A.vget_def s "lexicalized" (VBool true)))
  /\ forall synbhrs, A._collect_frames L = R.Ok synbhrs -> Sense_frames T sn = doc_frames synbhrs s.

Definition synset_report (T : Tables.db) (d' : R.db) (y : Synset) (ss : val) : Prop :=
  Synset_lexicalized T y = Ok (doc_bool (A.vget_def ss "lexicalized" (VBool true)))
  /\ Synset_examples T y = Ok (map (fun ex => doc_otext (A.vgetk ex "text")) (A.vlistk ss "examples"))
  /\ Synset_definition T y
     = match A.vlistk ss "definitions" with [] => None | df :: _ => doc_otext (A.vgetk df "text") end
  /\ ss_ili y = match find (AC.ili_pred (AC.ilic_of ss)) (R.get_table d' "ilis") with
                | Some _ => doc_otext (A.vgetk ss "ili") | None => None end
  /\ Synset_lexfile T y = match find (lexfile_pred ss) (R.get_table d' "lexfiles") with
                          | Some _ => doc_otext (A.vgetk ss "lexfile") | None => None end
  /\ (A.is_in (A.vgetk ss "ili") = true ->
      exists i, Synset_ili T y = Some i /\ ili_id i = None /\ ili_status i = s_proposed
                /\ ili_definition i = doc_ili_definition ss).

Section FromResource.
Variables (d : R.db) (r : val) (nt : A.normtable) (d' : R.db) (L : val) (w : Wordnet).
Hypothesis H : A.add_lexical_resource d r nt = R.Ok d'.
Hypothesis Hr : A.vreq r "lexicons" = R.Ok (VList [L]).
Hypothesis Hn : new_lexicon d L = true.
Hypothesis Hdb : wf_db d = true.
Hypothesis Hl : wf_lex L = true.
Hypothesis Hw : wn_lexicon_ids w = [R.next_rowid (R.get_table d "lexicons")].
Hypothesis Hm : wn_default_mode w = false.
Local Notation T := (conv d').

(* (K5a) Word.senses(): the local senses of the entry, in document order; they are listed senses *)
Theorem K5a_word_senses :
  Forall2 (fun (x : Word) (e : val) =>
             map sn_id (Word_senses T x)
             = map (fun s => doc_text (A.vgetk s "id")) (A._local_senses (A._senses e))
             /\ forall sn, In sn (Word_senses T x) -> In sn (Wordnet_senses T w None None))
          (Wordnet_words T w None None) (A._local_entries (A._entries L)).
Proof.
  apply (K5a_words_section nt L d d' (single_new_lexicon d r nt d' L H Hr Hn) (new_lexicon_not_extension d L Hn)
                           Hdb (wf_lex_spec L Hl) w Hw Hm).
Qed.

(* (K5a) Synset.senses(): the senses of the lexicon that refer to the synset, in document order, stably
   sorted by [member_rank] (the position in the `members` of the synset when it lists them; 127 otherwise) *)
Theorem K5a_synset_members :
  Forall2 (fun (y : Synset) (ss : val) =>
             map (fun sn => (sn_entry_id sn, sn_id sn)) (Synset_senses T y)
             = map (fun es : val * val => (sid (fst es), doc_text (A.vgetk (snd es) "id"))) (doc_members L ss)
             /\ forall sn, In sn (Synset_senses T y) -> In sn (Wordnet_senses T w None None))
          (Wordnet_synsets T w None None None) (A._local_synsets (A._synsets L)).
Proof.
  apply (K5a_synsets_section nt L d d' (single_new_lexicon d r nt d' L H Hr Hn) (new_lexicon_not_extension d L Hn)
                             Hdb (wf_lex_spec L Hl) w Hw Hm).
Qed.

Hypothesis Hdb5 : wf_db5 d = true.
Hypothesis Hl5 : wf_lex5 L = true.

(* (K5b) every listed sense reports the document's examples, counts, adjposition, lexicalized flag and
   the frames that _collect_frames links to it *)
Theorem K5b_senses :
  Forall2 (fun (sn : Sense) (es : val * val) => sense_report T L sn (snd es))
          (Wordnet_senses T w None None) (doc_senses L).
Proof.
  pose proof (single_new_lexicon d r nt d' L H Hr Hn) as Hadd.
  pose proof (new_lexicon_not_extension d L Hn) as Hext.
  pose proof (wf_lex_spec L Hl) as HL. pose proof (wf_db5_spec d Hdb5) as HD5. pose proof (wf_lex5_spec L Hl5) as HL5.
  rewrite (K4_rows nt L d d' Hadd Hext Hdb HL w Hw).
  unfold doc_senses. rewrite <- (sense_items_doc _ (R.next_rowid (R.get_table d "entries"))).
  apply (Forall2_enum_map (fun (sn : Sense) (es : val * val) => sense_report T L sn (snd es))).
  intros kx Hkx. cbn [snd]. unfold sense_report. split; [|split; [|split; [|split]]].
  - eapply Sense_examples_new; eassumption.
  - eapply Sense_counts_new; eassumption.
  - eapply Sense_adjposition_new; eassumption.
  - eapply Sense_lexicalized_new; eassumption.
  - intros synbhrs Hcf. eapply Sense_frames_new; eassumption.
Qed.

Hypothesis Hri : rowids_okb "ilis" d = true.
Hypothesis Hrl : rowids_okb "lexfiles" d = true.

(* (K5c) every listed synset reports the document's lexicalized flag, examples and first definition; its
   ILI and lexfile when the lookup tables carry them; the proposed ILI when ili = "in" *)
Theorem K5c_synsets :
  Forall2 (synset_report T d') (Wordnet_synsets T w None None None) (A._local_synsets (A._synsets L)).
Proof.
  pose proof (single_new_lexicon d r nt d' L H Hr Hn) as Hadd.
  pose proof (new_lexicon_not_extension d L Hn) as Hext.
  pose proof (wf_lex_spec L Hl) as HL. pose proof (wf_db5_spec d Hdb5) as HD5. pose proof (wf_lex5_spec L Hl5) as HL5.
  pose proof (rowids_okb_ok _ _ Hri) as Ri. pose proof (rowids_okb_ok _ _ Hrl) as Rl.
  rewrite (K2_rows nt L d d' w Hadd Hdb Hw). apply Forall2_enum_in. intros ky Hky.
  unfold synset_report. split; [|split; [|split; [|split; [|split]]]].
  - eapply Synset_lexicalized_new; eassumption.
  - eapply Synset_examples_new; eassumption.
  - eapply Synset_definition_new; eassumption.
  - eapply ss_ili_new; eassumption.
  - eapply Synset_lexfile_new; eassumption.
  - intro Hin. eapply Synset_ili_proposed; eassumption.
Qed.
End FromResource.

(* ====================================================================== *)
(* wf_db5 follows from referential integrity                               *)
(* ====================================================================== *)
Lemma fk_cell_below_o : forall d p c,
    AP.fk_cell_ok d p c = true -> oz_below (R.next_rowid (R.get_table d p)) (c_oint (conv_cell c)) = true.
Proof.
  intros d p [|n|s|v] Hc; simpl in *; try discriminate; try reflexivity.
  apply Z.ltb_lt. apply AP.zmem_z_In in Hc. unfold AP.rowids in Hc. apply in_map_iff in Hc.
  destruct Hc as [r [<- Hr]]. apply AP.next_rowid_fresh. exact Hr.
Qed.
Theorem fk_ok_wf_db5 : forall d, AP.fk_ok d = true -> wf_db5 d = true.
Proof.
  intros d Hok. unfold wf_db5. cbv zeta.
  rewrite conv_sense_examples, conv_synset_examples, conv_counts, conv_definitions, conv_adjpositions,
    conv_syntactic_behaviour_senses, conv_proposed_ilis, conv_syntactic_behaviours.
  repeat (apply andb_true_iff; split); apply forallb_forall; intros x Hx; apply in_map_iff in Hx;
    destruct Hx as [r [<- Hr]].
  - apply Z.ltb_lt. unfold example_of_row. cbn [ex_lexicon_rowid]. rewrite col_conv_row.
    apply (fk_cell_below d "lexicons"). apply (fk_ok_col d "sense_examples" "lexicon_rowid" "lexicons" eq_refl Hok r Hr).
  - apply Z.ltb_lt. unfold example_of_row. cbn [ex_lexicon_rowid]. rewrite col_conv_row.
    apply (fk_cell_below d "lexicons"). apply (fk_ok_col d "synset_examples" "lexicon_rowid" "lexicons" eq_refl Hok r Hr).
  - apply Z.ltb_lt. unfold count_of_row. cbn [ct_lexicon_rowid]. rewrite col_conv_row.
    apply (fk_cell_below d "lexicons"). apply (fk_ok_col d "counts" "lexicon_rowid" "lexicons" eq_refl Hok r Hr).
  - apply Z.ltb_lt. unfold definition_of_row. cbn [df_lexicon_rowid]. rewrite col_conv_row.
    apply (fk_cell_below d "lexicons"). apply (fk_ok_col d "definitions" "lexicon_rowid" "lexicons" eq_refl Hok r Hr).
  - apply Z.ltb_lt. unfold adjposition_of_row. cbn [aj_sense_rowid]. rewrite col_conv_row.
    apply (fk_cell_below d "senses"). apply (fk_ok_col d "adjpositions" "sense_rowid" "senses" eq_refl Hok r Hr).
  - apply Z.ltb_lt. unfold syntactic_behaviour_sense_of_row. cbn [sbs_sense_rowid]. rewrite col_conv_row.
    apply (fk_cell_below d "senses").
    apply (fk_ok_col d "syntactic_behaviour_senses" "sense_rowid" "senses" eq_refl Hok r Hr).
  - unfold proposed_ili_of_row. cbn [pi_synset_rowid]. rewrite col_conv_row.
    apply (fk_cell_below_o d "synsets"). apply (fk_ok_col d "proposed_ilis" "synset_rowid" "synsets" eq_refl Hok r Hr).
  - apply Z.ltb_lt. unfold syntactic_behaviour_of_row. cbn [sb_lexicon_rowid]. rewrite col_conv_row.
    apply (fk_cell_below d "lexicons").
    apply (fk_ok_col d "syntactic_behaviours" "lexicon_rowid" "lexicons" eq_refl Hok r Hr).
Qed.

(* ====================================================================== *)
(* Worked example for K5 (non-vacuity)                                     *)
(* ====================================================================== *)
(* to Compose.ex_d (AddProofs.ex_db with the lexicon ba:1 added) add the lexicon zz:2 below: a lexicon-level
   frame linked through `subcat`, an entry-level frame naming a sense, examples, counts, adjposition and
   lexicalized="false" on a sense; a synset with declared members (in an order that differs from the
   document order of the senses), lexfile, two definitions, an example and an existing ILI; a synset with
   ili="in" and an ILIDefinition *)
Definition ex5_L : val :=
  AP.vd [("id", A.vs "zz"); ("label", A.vs "Zed"); ("language", A.vs "en"); ("email", A.vs "z@z.z");
      ("license", A.vs "CC"); ("version", A.vs "2"); ("meta", VNone);
      ("frames", VList [AP.vd [("id", A.vs "fr1"); ("subcategorizationFrame", A.vs "NP V")]]);
      ("entries", VList [
         AP.vd [("id", A.vs "w1");
             ("lemma", AP.vd [("writtenForm", A.vs "cat"); ("partOfSpeech", A.vs "n")]);
             ("meta", VNone);
             ("frames", VList [AP.vd [("subcategorizationFrame", A.vs "V NP"); ("senses", VList [A.vs "w1-s2"])]]);
             ("senses", VList [
                AP.vd [("id", A.vs "w1-s1"); ("synset", A.vs "y1"); ("meta", VNone); ("subcat", VList [A.vs "fr1"]);
                       ("adjposition", A.vs "a"); ("lexicalized", VBool false);
                       ("examples", VList [AP.vd [("text", A.vs "a cat sat"); ("meta", VNone)];
                                           AP.vd [("text", A.vs "cats sit"); ("language", A.vs "en"); ("meta", VNone)]]);
                       ("counts", VList [AP.vd [("value", VInt 7); ("meta", VNone)];
                                         AP.vd [("value", VInt 2); ("meta", VNone)]])];
                AP.vd [("id", A.vs "w1-s2"); ("synset", A.vs "y2"); ("meta", VNone); ("subcat", VList [A.vs "fr1"])]])];
         AP.vd [("id", A.vs "w2");
             ("lemma", AP.vd [("writtenForm", A.vs "dog"); ("partOfSpeech", A.vs "v")]);
             ("meta", VNone);
             ("senses", VList [AP.vd [("id", A.vs "w2-s1"); ("synset", A.vs "y1"); ("meta", VNone)]])]]);
      ("synsets", VList [
         AP.vd [("id", A.vs "y1"); ("ili", A.vs "i1"); ("partOfSpeech", A.vs "n"); ("meta", VNone);
                ("members", VList [A.vs "w2-s1"; A.vs "w1-s1"]); ("lexfile", A.vs "noun.animal");
                ("definitions", VList [AP.vd [("text", A.vs "first def"); ("meta", VNone)];
                                       AP.vd [("text", A.vs "second def"); ("meta", VNone)]]);
                ("examples", VList [AP.vd [("text", A.vs "syn ex"); ("meta", VNone)]])];
         AP.vd [("id", A.vs "y2"); ("ili", A.vs "in"); ("partOfSpeech", A.vs "v"); ("meta", VNone);
                ("lexicalized", VBool false);
                ("ili_definition", AP.vd [("text", A.vs "a proposed concept"); ("meta", VNone)])]])].
Definition ex5_r : val := AP.ex_resource [ex5_L].
Definition ex5_d' : R.db := match A.add_lexical_resource ex_d ex5_r [] with R.Ok d0 => d0 | _ => [] end.
Definition ex5_w : Wordnet :=
  match Wordnet_init (conv ex5_d') (Some (S_ "zz:2")) None None false [] None true with
  | Ok w0 => w0
  | _ => {| wn_lexicon_ids := []; wn_expanded_ids := []; wn_default_mode := true; wn_warned := false;
            wn_normalizer := false; wn_norm_table := []; wn_lemmatizer := None; wn_search_all_forms := false |}
  end.

Example ex5_hypotheses :
  A.add_lexical_resource ex_d ex5_r [] = R.Ok ex5_d'
  /\ A.vreq ex5_r "lexicons" = R.Ok (VList [ex5_L])
  /\ new_lexicon ex_d ex5_L = true /\ wf_db ex_d = true /\ wf_lex ex5_L = true
  /\ wf_db5 ex_d = true /\ wf_lex5 ex5_L = true
  /\ rowids_okb "ilis" ex_d = true /\ rowids_okb "lexfiles" ex_d = true
  /\ Wordnet_init (conv ex5_d') (Some (S_ "zz:2")) None None false [] None true = Ok ex5_w
  /\ wn_lexicon_ids ex5_w = [R.next_rowid (R.get_table ex_d "lexicons")] /\ wn_default_mode ex5_w = false
  /\ AP.fk_ok ex_d = true.
Proof. vm_compute. repeat split. Qed.

(* the API on the example, by evaluation of the query model *)
Example ex5_by_evaluation :
  let T := conv ex5_d' in
  map (fun x => (wd_id x, map sn_id (Word_senses T x))) (Wordnet_words T ex5_w None None)
  = [(S_ "w1", [S_ "w1-s1"; S_ "w1-s2"]); (S_ "w2", [S_ "w2-s1"])]
  /\ map (fun y => (ss_id y, ss_ili y, map sn_id (Synset_senses T y), Synset_definition T y,
                    Synset_examples T y, Synset_lexfile T y, Synset_lexicalized T y))
         (Wordnet_synsets T ex5_w None None None)
     = [(S_ "y1", Some (S_ "i1"), [S_ "w2-s1"; S_ "w1-s1"], Some (S_ "first def"), Ok [Some (S_ "syn ex")],
         Some (S_ "noun.animal"), Ok true);
        (S_ "y2", None, [S_ "w1-s2"], None, Ok [], None, Ok false)]
  /\ map (fun s => (sn_id s, Sense_examples T s, map fst (Sense_counts T s), Sense_adjposition T s,
                    Sense_lexicalized T s, Sense_frames T s))
         (Wordnet_senses T ex5_w None None)
     = [(S_ "w1-s1", Ok [Some (S_ "a cat sat"); Some (S_ "cats sit")], [7; 2], Some (S_ "a"), Ok false, [S_ "NP V"]);
        (S_ "w1-s2", Ok [], [], None, Ok true, [S_ "NP V"; S_ "V NP"]);
        (S_ "w2-s1", Ok [], [], None, Ok true, [])]
  /\ map (fun y => match Synset_ili T y with Some i => Some (ili_id i, ili_status i, ili_definition i) | None => None end)
         (Wordnet_synsets T ex5_w None None None)
     = [Some (Some (S_ "i1"), S_ "deprecated", Some (S_ "changed"));
        Some (None, S_ "proposed", Some (S_ "a proposed concept"))].
Proof. vm_compute. repeat split. Qed.

(* the same facts obtained FROM the theorems K5a-K5c: the document-side expressions evaluate to them *)
Example ex5_by_theorems :
  let T := conv ex5_d' in
  Forall2 (fun x e => map sn_id (Word_senses T x) = map (fun s => doc_text (A.vgetk s "id")) (A._local_senses (A._senses e)))
          (Wordnet_words T ex5_w None None) (A._local_entries (A._entries ex5_L))
  /\ Forall2 (fun y ss => map (fun sn => (sn_entry_id sn, sn_id sn)) (Synset_senses T y)
                          = map (fun es : val * val => (sid (fst es), doc_text (A.vgetk (snd es) "id"))) (doc_members ex5_L ss))
             (Wordnet_synsets T ex5_w None None None) (A._local_synsets (A._synsets ex5_L))
  /\ Forall2 (fun sn es => sense_report T ex5_L sn (snd es)) (Wordnet_senses T ex5_w None None) (doc_senses ex5_L)
  /\ Forall2 (synset_report T ex5_d') (Wordnet_synsets T ex5_w None None None) (A._local_synsets (A._synsets ex5_L)).
Proof.
  destruct ex5_hypotheses as (H & Hr & Hn & Hdb & Hl & Hdb5 & Hl5 & Hri & Hrl & _ & Hw & Hm & _).
  cbv zeta. split; [|split; [|split]].
  - eapply Forall2_impl; [|exact (K5a_word_senses ex_d ex5_r [] ex5_d' ex5_L ex5_w H Hr Hn Hdb Hl Hw Hm)].
    intros x e HE. destruct HE as [E _]. exact E.
  - eapply Forall2_impl; [|exact (K5a_synset_members ex_d ex5_r [] ex5_d' ex5_L ex5_w H Hr Hn Hdb Hl Hw Hm)].
    intros y ss HE. destruct HE as [E _]. exact E.
  - exact (K5b_senses ex_d ex5_r [] ex5_d' ex5_L ex5_w H Hr Hn Hdb Hl Hw Hm Hdb5 Hl5).
  - exact (K5c_synsets ex_d ex5_r [] ex5_d' ex5_L ex5_w H Hr Hn Hdb Hl Hw Hm Hdb5 Hl5 Hri Hrl).
Qed.
(* the document-side expressions of the theorems on the example *)
Example ex5_document_side :
  map (fun ss => map (fun es : val * val => doc_text (A.vgetk (snd es) "id")) (doc_members ex5_L ss))
      (A._local_synsets (A._synsets ex5_L))
  = [[S_ "w2-s1"; S_ "w1-s1"]; [S_ "w1-s2"]]
  /\ match A._collect_frames ex5_L with
     | R.Ok synbhrs => map (fun es : val * val => doc_frames synbhrs (snd es)) (doc_senses ex5_L)
                       = [[S_ "NP V"]; [S_ "NP V"; S_ "V NP"]; []]
     | _ => False
     end
  /\ map doc_ili_definition (A._local_synsets (A._synsets ex5_L)) = [None; Some (S_ "a proposed concept")].
Proof. vm_compute. repeat split. Qed.

(* ====================================================================== *)
(* K6 — one step beyond a single lexicon: an extension of an installed base  *)
(* ====================================================================== *)
(* a base lexicon bb:1 (one entry with two senses, the first with an example; two synsets, the first with
   an example) is added to AddProofs.ex_db; then its extension xx:1: the ExternalLexicalEntry e1 gets a new
   sense e1-s9 (synset: the external synset y2), the ExternalSense e1-s1 and the ExternalSynset y1 get a new
   example each.  Both databases are built by the add model from the two documents. *)
Definition ex6_B : val :=
  AP.vd [("id", A.vs "bb"); ("label", A.vs "Base"); ("language", A.vs "en"); ("email", A.vs "b@b.b");
      ("license", A.vs "CC"); ("version", A.vs "1"); ("meta", VNone);
      ("entries", VList [
         AP.vd [("id", A.vs "e1");
             ("lemma", AP.vd [("writtenForm", A.vs "cat"); ("partOfSpeech", A.vs "n")]); ("meta", VNone);
             ("senses", VList [
                AP.vd [("id", A.vs "e1-s1"); ("synset", A.vs "y1"); ("meta", VNone);
                       ("examples", VList [AP.vd [("text", A.vs "base example"); ("meta", VNone)]])];
                AP.vd [("id", A.vs "e1-s2"); ("synset", A.vs "y2"); ("meta", VNone)]])]]);
      ("synsets", VList [
         AP.vd [("id", A.vs "y1"); ("ili", A.vs ""); ("partOfSpeech", A.vs "n"); ("meta", VNone);
                ("examples", VList [AP.vd [("text", A.vs "base synset example"); ("meta", VNone)]])];
         AP.vd [("id", A.vs "y2"); ("ili", A.vs ""); ("partOfSpeech", A.vs "n"); ("meta", VNone)]])].
Definition ex6_E : val :=
  AP.vd [("id", A.vs "xx"); ("label", A.vs "Ext"); ("language", A.vs "en"); ("email", A.vs "x@x.x");
      ("license", A.vs "CC"); ("version", A.vs "1"); ("meta", VNone);
      ("extends", AP.vd [("id", A.vs "bb"); ("version", A.vs "1")]);
      ("entries", VList [
         AP.vd [("id", A.vs "e1"); ("external", VBool true);
             ("senses", VList [
                AP.vd [("id", A.vs "e1-s1"); ("external", VBool true);
                       ("examples", VList [AP.vd [("text", A.vs "extension example"); ("meta", VNone)]])];
                AP.vd [("id", A.vs "e1-s9"); ("synset", A.vs "y2"); ("meta", VNone)]])]]);
      ("synsets", VList [
         AP.vd [("id", A.vs "y1"); ("external", VBool true);
                ("examples", VList [AP.vd [("text", A.vs "extension synset example"); ("meta", VNone)]])];
         AP.vd [("id", A.vs "y2"); ("external", VBool true)]])].
Definition ex6_d : R.db :=
  match A.add_lexical_resource AP.ex_db (AP.ex_resource [ex6_B]) [] with R.Ok d0 => d0 | _ => [] end.
Definition ex6_d' : R.db :=
  match A.add_lexical_resource ex6_d (AP.ex_resource [ex6_E]) [] with R.Ok d0 => d0 | _ => [] end.
(* the Wordnet restricted to the base and its extension, from the model's Wordnet.__init__ *)
Definition ex6_w : Wordnet :=
  match Wordnet_init (conv ex6_d') (Some (S_ "bb:1 xx:1")) None None false [] None true with
  | Ok w0 => w0
  | _ => {| wn_lexicon_ids := []; wn_expanded_ids := []; wn_default_mode := true; wn_warned := false;
            wn_normalizer := false; wn_norm_table := []; wn_lemmatizer := None; wn_search_all_forms := false |}
  end.

Example ex6_setting :
  A.add_lexical_resource AP.ex_db (AP.ex_resource [ex6_B]) [] = R.Ok ex6_d
  /\ A.add_lexical_resource ex6_d (AP.ex_resource [ex6_E]) [] = R.Ok ex6_d'
  /\ map (fun l => (lex_rowid l, lex_id l)) (t_lexicons (conv ex6_d')) = [(1, S_ "bb"); (2, S_ "xx")]
  /\ wn_lexicon_ids ex6_w = [1; 2] /\ wn_default_mode ex6_w = false
  /\ db_ok (conv ex6_d') = true /\ AP.fk_ok ex6_d' = true.
Proof. vm_compute. repeat split. Qed.

(* (K6, example) the base word lists the base senses and the extension's new sense; the base sense lists
   the base example followed by the extension's; likewise for the base synset and its members *)
Example ex6_extension :
  let T := conv ex6_d' in
  map (fun x => (wd_id x, wd_lexid x,
                 map (fun s => (sn_id s, sn_lexid s, Sense_examples T s)) (Word_senses T x)))
      (Wordnet_words T ex6_w None None)
  = [(S_ "e1", 1,
      [(S_ "e1-s1", 1, Ok [Some (S_ "base example"); Some (S_ "extension example")]);
       (S_ "e1-s9", 2, Ok []);
       (S_ "e1-s2", 1, Ok [])])]
  /\ map (fun y => (ss_id y, ss_lexid y, Synset_examples T y, map sn_id (Synset_senses T y)))
         (Wordnet_synsets T ex6_w None None None)
     = [(S_ "y1", 1, Ok [Some (S_ "base synset example"); Some (S_ "extension synset example")], [S_ "e1-s1"]);
        (S_ "y2", 1, Ok [], [S_ "e1-s2"; S_ "e1-s9"])].
Proof. vm_compute. repeat split. Qed.

(* (K6, FALSE as phrased) "Word_senses of the base word lists the base senses FOLLOWED BY the extension's new
   sense" does not hold for the model: _insert_senses numbers the local senses of an (external) entry of the
   extension from 0 again ( enumerate(_local_senses(_senses(entry))) ), so the new sense e1-s9 has entry_rank 0
   like the first base sense, and ORDER BY entry_rank puts it BEFORE the second base sense e1-s2 (rank 1);
   among equal ranks the model keeps rowid order.  Witness: the example above. *)
Example ex6_new_sense_not_last :
  let T := conv ex6_d' in
  map (fun x => map sn_id (Word_senses T x)) (Wordnet_words T ex6_w None None)
  = [[S_ "e1-s1"; S_ "e1-s9"; S_ "e1-s2"]]
  /\ map (fun sr => (se_id sr, se_lexicon_rowid sr, se_entry_rowid sr, se_entry_rank sr)) (t_senses T)
     = [(S_ "e1-s1", 1, 1, Some 0); (S_ "e1-s2", 1, 1, Some 1); (S_ "e1-s9", 2, 1, Some 0)].
Proof. vm_compute. repeat split. Qed.

(* ---------------------------------------------------------------------- *)
(* K6, general theorem for the new-sense part                              *)
(* ---------------------------------------------------------------------- *)
Lemma insert_lexicon_extid : forall L d d2 lexid extid,
    vtruthy (A.vgetk L "extends") = true ->
    A._insert_lexicon L d = R.Ok (d2, lexid, extid) ->
    exists bid bver, A.preq (A.vgetk L "extends") "id" = R.Ok bid
                     /\ A.preq (A.vgetk L "extends") "version" = R.Ok bver
                     /\ A.LEXICON_QUERY d2 bid bver = R.CInt extid.
Proof.
  intros L d d2 lexid extid Hext H. unfold A._insert_lexicon in H.
  repeat AP.mstep; try congruence. eexists. eexists. repeat split; eassumption.
Qed.

(* a scalar sub-select that already has an answer keeps it when rows are appended *)
Lemma select_rowid_prefix : forall d d' t p z Xs,
    R.get_table d' t = (R.get_table d t ++ Xs)%list ->
    R.select_rowid d t p = R.CInt z -> R.select_rowid d' t p = R.CInt z.
Proof.
  intros d d' t p z Xs E H. unfold R.select_rowid in *. rewrite E.
  destruct (find p (R.get_table d t)) as [r|] eqn:Ef; [|discriminate].
  rewrite (AC.find_app_some _ _ _ _ Ef). exact H.
Qed.
Lemma find_by_prefix : forall {X0} (key : X0 -> Z) k0 a b x,
    find_by key k0 a = Some x -> find_by key k0 (a ++ b)%list = Some x.
Proof.
  intros X0 key k0 a b x. induction a as [|y a IH]; simpl; [discriminate|].
  destruct (Z.eqb (key y) k0); [intro H; exact H|exact IH].
Qed.
Lemma R_mapM_in : forall {X0 Y0} (f : X0 -> R.result Y0) l ys x y,
    R.mapM f l = R.Ok ys -> In x l -> f x = R.Ok y -> In y ys.
Proof.
  intros X0 Y0 f l. induction l as [|a l IH]; intros ys x y H Hin Hf; [destruct Hin|].
  simpl in H. apply AP.bind_ok in H. destruct H as [y0 [Hy0 H]]. apply AP.bind_ok in H. destruct H as [ys0 [Hys0 H]].
  injection H as <-. destruct Hin as [->|Hin].
  - rewrite Hf in Hy0. injection Hy0 as <-. left. reflexivity.
  - right. apply (IH ys0 x y Hys0 Hin Hf).
Qed.

(* the lexidmap of an extension sends the ids of its external elements to the rowid of the base *)
Lemma dict_has_set_same : forall {V} (m : list (val * V)) s v,
    A.dict_has (A.dict_set m (VStr s) v) (VStr s) = true.
Proof.
  intros V m s v. unfold A.dict_has. induction m as [|[k1 v1] m IH]; simpl.
  - rewrite str_eqb_refl. reflexivity.
  - destruct (val_eqb k1 (VStr s)) eqn:E; simpl; rewrite E; [reflexivity|exact IH].
Qed.
Lemma dict_has_set_mono : forall {V} (m : list (val * V)) k0 v k1,
    A.dict_has m k1 = true -> A.dict_has (A.dict_set m k0 v) k1 = true.
Proof.
  intros V m k0 v k1. unfold A.dict_has. induction m as [|[k2 v2] m IH]; simpl; [discriminate|].
  intro H. destruct (val_eqb k2 k0); simpl; apply orb_true_iff in H; apply orb_true_iff;
    destruct H as [H|H]; [left; exact H|right; exact H|left; exact H|right; apply IH; exact H].
Qed.
Lemma dict_set_vals : forall {V} (m : list (val * V)) k0 v,
    (forall kv, In kv m -> snd kv = v) -> forall kv, In kv (A.dict_set m k0 v) -> snd kv = v.
Proof.
  intros V m k0 v. induction m as [|[k1 v1] m IH]; intros Hall kv Hin; simpl in Hin.
  - destruct Hin as [<-|[]]. reflexivity.
  - destruct (val_eqb k1 k0).
    + destruct Hin as [<-|Hin]; [reflexivity|]. apply Hall. right. exact Hin.
    + destruct Hin as [<-|Hin]; [apply (Hall (k1, v1)); left; reflexivity|].
      apply IH; [|exact Hin]. intros kv' Hkv'. apply Hall. right. exact Hkv'.
Qed.
Lemma lexidmap_fold_get : forall (ids : list val) (extid : Z) s,
    In (VStr s) ids ->
    A.dict_get (fold_left (fun m id => A.dict_set m id extid) ids []) (VStr s) = Some extid.
Proof.
  intros ids extid s Hin.
  assert (forall l (m : list (val * Z)),
             (forall kv, In kv m -> snd kv = extid) ->
             (A.dict_has m (VStr s) = true \/ In (VStr s) l) ->
             let m' := fold_left (fun m0 id => A.dict_set m0 id extid) l m in
             (forall kv, In kv m' -> snd kv = extid) /\ A.dict_has m' (VStr s) = true) as G.
  { induction l as [|id l IH]; intros m Hall Hor; simpl.
    - split; [exact Hall|]. destruct Hor as [Hh|[]]. exact Hh.
    - apply IH; [apply dict_set_vals; exact Hall|].
      destruct Hor as [Hh|[->|Hin']]; [left; apply dict_has_set_mono; exact Hh|left; apply dict_has_set_same|right; exact Hin']. }
  destruct (G ids [] (fun kv (Hkv : In kv []) => match Hkv with end) (or_intror Hin)) as [Hall Hhas].
  unfold A.dict_get. unfold A.dict_has in Hhas.
  destruct (find (fun kv : val * Z => val_eqb (fst kv) (VStr s)) _) as [kv|] eqn:Ef.
  - apply find_some in Ef. destruct Ef as [Hkv _]. rewrite (Hall kv Hkv). reflexivity.
  - exfalso. apply existsb_exists in Hhas. destruct Hhas as [kv [Hkv Hp]].
    pose proof (find_none _ _ Ef kv Hkv) as Hn. cbv beta in Hn. congruence.
Qed.

Lemma build_lexid_map_external : forall L lexid extid m,
    A._build_lexid_map L lexid extid = R.Ok m -> lexid <> extid ->
    (forall e eid, In e (A._entries L) -> A._is_external e = true -> A.vgetk e "id" = VStr eid ->
                   A.lexidmap_get m (VStr eid) lexid = R.CInt extid)
    /\ (forall ss yid, In ss (A._synsets L) -> A._is_external ss = true -> A.vgetk ss "id" = VStr yid ->
                       A.lexidmap_get m (VStr yid) lexid = R.CInt extid).
Proof.
  intros L lexid extid m H Hne. unfold A._build_lexid_map in H.
  apply Z.eqb_neq in Hne. rewrite Hne in H.
  apply AP.bind_ok in H. destruct H as [ids1 [H1 H]]. apply AP.bind_ok in H. destruct H as [ids2 [H2 H]].
  apply AP.bind_ok in H. destruct H as [ids3 [H3 H]]. injection H as <-.
  split.
  - intros e eid He Hx Eid. unfold A.lexidmap_get. rewrite lexidmap_fold_get; [reflexivity|].
    apply in_or_app. left.
    apply (R_mapM_in _ _ _ e (VStr eid) H1); [apply filter_In; split; assumption|apply vreq_VStr; exact Eid].
  - intros ss yid Hss Hx Eid. unfold A.lexidmap_get. rewrite lexidmap_fold_get; [reflexivity|].
    apply in_or_app. right. apply in_or_app. right.
    apply (R_mapM_in _ _ _ ss (VStr yid) H3); [apply filter_In; split; assumption|apply vreq_VStr; exact Eid].
Qed.

Lemma LEXICON_QUERY_pred : forall d idc vc,
    A.LEXICON_QUERY d idc vc
    = R.select_rowid d "lexicons" (fun r => R.sql_eq (R.cell_at 1 r) (A.as_text idc)
                                            && R.sql_eq (R.cell_at 6 r) (A.as_text vc)).
Proof. reflexivity. Qed.

(* (K6, general) L extends an installed base: the base lexicon (bid, bver) has rowid extid in d.  An
   ExternalLexicalEntry e of L whose id resolves, in the base, to the entry row ke gets a new local sense s
   whose synset is an ExternalSynset of L resolving to the base synset row ky.  Then, for a Wordnet w (not in
   default mode) that selects the extension, the word of the base entry lists the new sense, attached to the
   base entry and the base synset, with entry_rank = its position among the local senses of e in L. *)
Theorem K6_new_sense : forall nt L d d' bid bver bx e eid ke i s yid ss ky E Yr w x,
    A.add_one_lexicon nt L d = R.Ok d' ->
    (* L extends the installed lexicon (bid, bver) *)
    vtruthy (A.vgetk L "extends") = true ->
    A.vgetk (A.vgetk L "extends") "id" = VStr bid -> A.vgetk (A.vgetk L "extends") "version" = VStr bver ->
    A.LEXICON_QUERY d (R.CText bid) (R.CText bver) = R.CInt bx ->
    (* the external entry and its base row *)
    In e (A._entries L) -> A._is_external e = true -> A.vgetk e "id" = VStr eid ->
    A.ENTRY_QUERY d (R.CText eid) (R.CInt bx) = R.CInt ke ->
    find_by en_rowid ke (t_entries (conv d)) = Some E ->
    (* the new sense, its (external) synset and the base row of that synset *)
    In (i, s) (A.enumerate_from 0 (A._local_senses (A._senses e))) -> A.vgetk s "synset" = VStr yid ->
    In ss (A._synsets L) -> A._is_external ss = true -> A.vgetk ss "id" = VStr yid ->
    A.SYNSET_QUERY d (R.CText yid) (R.CInt bx) = R.CInt ky ->
    find_by sy_rowid ky (t_synsets (conv d)) = Some Yr ->
    (* the Wordnet and the base word *)
    wn_default_mode w = false -> In (R.next_rowid (R.get_table d "lexicons")) (wn_lexicon_ids w) ->
    wd__id x = ke -> wd_wordnet x = w ->
    exists sn sr, In sn (Word_senses (conv d') x) /\ In sr (t_senses (conv d'))
                  /\ sn_id sn = doc_text (A.vgetk s "id") /\ sn__id sn = se_rowid sr
                  /\ sn_lexid sn = R.next_rowid (R.get_table d "lexicons")
                  /\ sn_entry_id sn = en_id E /\ sn_synset_id sn = sy_id Yr
                  /\ se_entry_rowid sr = ke /\ se_synset_rowid sr = ky /\ se_entry_rank sr = Some i.
Proof.
  intros nt L d d' bid bver bx e eid ke i s yid ss ky E Yr w x
         H Hext Ebid Ebver HB He Hxe Eeid HE HTe His Eyid Hss Hxs Essid HY HTy Hmode Hsel Ex Ew.
  pose proof (AC.one_lexicon_entries nt L d d' H) as AppE.
  destruct (AC.one_lexicon_synsets nt L d d' H) as [AppY _]. cbv zeta in AppY.
  pose proof (K1_entries nt L d d' H) as TE. pose proof (K1_synsets nt L d d' H) as TY. cbv zeta in TE, TY.
  AC.one_inv H.
  destruct (AC.app_insert_lexicon _ _ _ _ _ H2) as [AppL Hlex].
  destruct (insert_lexicon_extid _ _ _ _ _ Hext H2) as [bidc [bverc [Eb1 [Eb2 Eq]]]].
  rewrite (preq_VStr _ _ _ Ebid) in Eb1. injection Eb1 as <-.
  rewrite (preq_VStr _ _ _ Ebver) in Eb2. injection Eb2 as <-.
  destruct (AC.ins_insert_senses _ _ _ _ _ _ H8) as [AppS _].
  AC.oc_facts.
  assert (lexid = R.next_rowid (R.get_table d "lexicons")) as Elex.
  { rewrite Hlex. AC.tbl_eq "lexicons". reflexivity. }
  (* the rowid of the base lexicon *)
  assert (A.LEXICON_QUERY d2 (R.CText bid) (R.CText bver) = R.CInt bx) as Eq'.
  { rewrite LEXICON_QUERY_pred in *. unfold AC.App in AppL.
    eapply (select_rowid_prefix d d2 "lexicons"); [|exact HB].
    rewrite AppL. AC.tbl_eq "lexicons". reflexivity. }
  rewrite Eq' in Eq. injection Eq as Eext. subst extid.
  assert (lexid <> bx) as Hne.
  { rewrite LEXICON_QUERY_pred in HB. unfold R.select_rowid in HB.
    destruct (find _ (R.get_table d "lexicons")) as [r0|] eqn:Ef; [|discriminate].
    injection HB as HB. apply find_some in Ef. destruct Ef as [Hr0 _].
    pose proof (AP.next_rowid_fresh _ r0 Hr0). lia. }
  destruct (build_lexid_map_external L lexid bx m Hm Hne) as [MapE MapY].
  (* the new row *)
  set (row := AC.sense_row d7 lexid m (AC.ssrank_of (A._synsets L)) e (i, s)).
  assert (exists k0, In (R.CInt k0 :: row) (R.get_table d' "senses")) as [k0 Hrow].
  { unfold AC.App in AppS.
    destruct (AC.In_number_from (flat_map (AC.entry_sense_rows d7 lexid m (AC.ssrank_of (A._synsets L))) (A._entries L))
                row (R.next_rowid (R.get_table d7 "senses"))) as [k0 Hk0].
    - apply in_flat_map. exists e. split; [exact He|]. unfold AC.entry_sense_rows.
      apply (in_map (AC.sense_row d7 lexid m (AC.ssrank_of (A._synsets L)) e)). exact His.
    - exists k0. AC.tbl_eq "senses". rewrite AppS. apply in_or_app. right. exact Hk0. }
  (* its references *)
  assert (AC.entry_ref d7 lexid m e = R.CInt ke) as Eref.
  { unfold AC.entry_ref. rewrite (preq_VStr _ _ _ Eeid), pv_vreq, Eeid. cbn [AC.pcell].
    rewrite (MapE e eid He Hxe Eeid). rewrite (AC.ENTRY_QUERY_ext d' d7) by (AC.tbl_eq "entries"; reflexivity).
    unfold A.ENTRY_QUERY in *. unfold AC.App in AppE.
    apply (select_rowid_prefix d d' "entries" _ ke _ AppE). exact HE. }
  assert (A.SYNSET_QUERY d7 (AC.pcell (A.preq s "synset")) (A.lexidmap_get m (AC.pv (A.vreq s "synset")) lexid)
          = R.CInt ky) as Esyn.
  { rewrite (preq_VStr _ _ _ Eyid), pv_vreq, Eyid. cbn [AC.pcell].
    rewrite (MapY ss yid Hss Hxs Essid). rewrite (AC.SYNSET_QUERY_ext d' d7) by (AC.tbl_eq "synsets"; reflexivity).
    unfold A.SYNSET_QUERY in *. unfold AC.App in AppY.
    apply (select_rowid_prefix d d' "synsets" _ ky _ AppY). exact HY. }
  set (sr := typed_sense (R.CInt k0 :: row)).
  assert (In sr (t_senses (conv d'))) as Hsr.
  { rewrite conv_senses. apply (in_map (fun r0 => sense_of_row (conv_row r0))). exact Hrow. }
  assert (se_id sr = doc_text (A.vgetk s "id") /\ se_lexicon_rowid sr = lexid /\ se_entry_rowid sr = ke
          /\ se_synset_rowid sr = ky /\ se_entry_rank sr = Some i /\ se_rowid sr = k0) as (F1 & F2 & F3 & F4 & F5 & F6).
  { unfold sr, row. rewrite sense_row_cells. unfold typed_sense, sense_of_row.
    cbn [se_id se_lexicon_rowid se_entry_rowid se_synset_rowid se_entry_rank se_rowid].
    rewrite !col_conv_row. unfold R.cell_at. cbn [nth]. rewrite text_preq, !coerce_integer, Eref, Esyn.
    repeat split; reflexivity. }
  assert (sense_columns (conv d') sr
          = Some ({| qs_id := se_id sr; qs_entry_id := en_id E; qs_synset_id := sy_id Yr;
                     qs_lexid := se_lexicon_rowid sr; qs_rowid := se_rowid sr |}, E, Yr)) as Esc.
  { unfold sense_columns. rewrite F3, F4, TE, TY.
    rewrite (find_by_prefix _ _ _ _ _ HTe), (find_by_prefix _ _ _ _ _ HTy). reflexivity. }
  eexists. exists sr. split; [|split; [exact Hsr|]].
  - unfold Word_senses. apply in_map. unfold get_entry_senses. apply get_senses_iff.
    exists sr, E, Yr. split; [exact Hsr|]. split; [exact Esc|]. split; [rewrite Ex; exact F3|].
    unfold _get_lexicon_ids. rewrite Ew, Hmode, F2, Elex. exact Hsel.
  - cbn [mk_Sense sn_id sn__id sn_lexid sn_entry_id sn_synset_id qs_id qs_rowid qs_lexid qs_entry_id qs_synset_id].
    rewrite F1, F2, F3, F4, F5, Elex. repeat split; reflexivity.
Qed.

(* the hypotheses of K6_new_sense hold on the example, and its conclusion is the observed one *)
Definition ex6_e : val := nth 0 (A._entries ex6_E) VNone.
Definition ex6_s : val := nth 0 (A._local_senses (A._senses ex6_e)) VNone.
Definition ex6_ss : val := nth 1 (A._synsets ex6_E) VNone.
Definition ex6_Erow : entry_row :=
  match find_by en_rowid 1 (t_entries (conv ex6_d)) with
  | Some E => E | None => {| en_rowid := 0; en_id := []; en_lexicon_rowid := 0; en_pos := []; en_metadata := None |} end.
Definition ex6_Yrow : Tables.synset_row :=
  match find_by sy_rowid 2 (t_synsets (conv ex6_d)) with
  | Some Y0 => Y0
  | None => {| sy_rowid := 0; sy_id := []; sy_lexicon_rowid := 0; sy_ili_rowid := None; sy_pos := None;
               sy_lexicalized := false; sy_lexfile_rowid := None; sy_metadata := None |} end.
Definition ex6_x : Word :=
  match Wordnet_words (conv ex6_d') ex6_w None None with
  | x :: _ => x
  | [] => {| wd_id := []; wd_pos := []; wd_forms := []; wd_lexid := 0; wd__id := 0; wd_wordnet := ex6_w |} end.

Example ex6_by_theorem :
  exists sn sr, In sn (Word_senses (conv ex6_d') ex6_x) /\ In sr (t_senses (conv ex6_d'))
                /\ sn_id sn = S_ "e1-s9" /\ sn__id sn = se_rowid sr /\ sn_lexid sn = 2
                /\ sn_entry_id sn = S_ "e1" /\ sn_synset_id sn = S_ "y2"
                /\ se_entry_rowid sr = 1 /\ se_synset_rowid sr = 2 /\ se_entry_rank sr = Some 0.
Proof.
  destruct ex6_setting as (_ & Hadd & _).
  assert (A.add_one_lexicon [] ex6_E ex6_d = R.Ok ex6_d') as H1 by (vm_compute; reflexivity).
  destruct (K6_new_sense [] ex6_E ex6_d ex6_d' (S_ "bb") (S_ "1") 1 ex6_e (S_ "e1") 1 0 ex6_s (S_ "y2")
                         ex6_ss 2 ex6_Erow ex6_Yrow ex6_w ex6_x H1) as [sn [sr Hc]];
    try (vm_compute; reflexivity).
  - vm_compute. left. reflexivity.
  - vm_compute. left. reflexivity.
  - vm_compute. right. left. reflexivity.
  - vm_compute. right. left. reflexivity.
  - exists sn, sr. exact Hc.
Qed.

(* ====================================================================== *)
Print Assumptions K5a_word_senses.
Print Assumptions K5a_synset_members.
Print Assumptions K5b_senses.
Print Assumptions K5c_synsets.
Print Assumptions Sense_frames_new.
Print Assumptions Synset_ili_proposed.
Print Assumptions add_one_lexicon_rowids_ok.
Print Assumptions fk_ok_wf_db5.
Print Assumptions ex5_by_theorems.
Print Assumptions K6_new_sense.
Print Assumptions ex6_by_theorem.
Print Assumptions ex6_new_sense_not_last.
