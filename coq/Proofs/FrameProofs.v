(* FrameProofs.v — STAGE S, part 3 (frame): the result of a query that takes lexicon_rowids depends only
   on the rows of the selected lexicons (and on the rows those point to, which may belong to another
   lexicon: the entry and synset of a selected sense, the forms of a selected entry; and on the shared
   tables ilis, relation_types, lexicons).  Formulation: if two databases agree on those rows, the
   query returns the same list. *)
From Coq Require Import ZArith List Bool Lia.
Import ListNotations.
Require Import WnV.Base.Sx WnV.Model.Spec WnV.Model.Tables WnV.Model.Query WnV.Model.Core.
Require Import WnV.Proofs.CoreLemmas WnV.Proofs.QueryFacts WnV.Proofs.RelProofs.
Local Open Scope Z_scope.

(* ================================================================== list lemmas *)
Lemma flat_map_filter_vanish : forall T U (g : T -> list U) (p : T -> bool) l,
  (forall x, In x l -> p x = false -> g x = []) -> flat_map g l = flat_map g (filter p l).
Proof.
  intros T U g p l H. induction l as [|x l IH]; [reflexivity|]. simpl.
  rewrite IH by (intros y Hy; apply H; right; exact Hy).
  destruct (p x) eqn:E; [reflexivity|]. rewrite (H x (or_introl eq_refl) E). reflexivity.
Qed.

Lemma filter_filter_and : forall T (p q : T -> bool) l, filter (fun x => p x && q x) l = filter p (filter q l).
Proof.
  intros T p q l. induction l as [|x l IH]; [reflexivity|]. simpl.
  destruct (q x); simpl; [destruct (p x); rewrite IH; reflexivity | rewrite andb_false_r; exact IH].
Qed.

Lemma filter_ext_in' : forall T (p q : T -> bool) l, (forall x, In x l -> p x = q x) -> filter p l = filter q l.
Proof.
  intros T p q l H. induction l as [|x l IH]; [reflexivity|]. simpl.
  rewrite (H x (or_introl eq_refl)), IH; [reflexivity | intros y Hy; apply H; right; exact Hy].
Qed.

Lemma flat_map_ext_in : forall T U (f g : T -> list U) l, (forall x, In x l -> f x = g x) -> flat_map f l = flat_map g l.
Proof.
  intros T U f g l H. induction l as [|x l IH]; [reflexivity|]. simpl.
  rewrite (H x (or_introl eq_refl)), IH; [reflexivity | intros y Hy; apply H; right; exact Hy].
Qed.

(* stable_sort by an integer key commutes with filter *)
Section SortFilter.
  Context {T : Type}.
  Variable key : T -> Z.
  Let le := fun a b => Z.leb (key a) (key b).

  Inductive sorted : list T -> Prop :=
  | sorted_nil : sorted []
  | sorted_cons : forall x l, (forall y, In y l -> le x y = true) -> sorted l -> sorted (x :: l).

  Lemma insert_sorted_sorted : forall x l, sorted l -> sorted (insert_sorted le x l).
  Proof.
    intros x l H. induction H as [|y l Hy Hs IH]; simpl.
    - constructor; [intros z [] | constructor].
    - destruct (le x y) eqn:E.
      + constructor; [|constructor; assumption]. intros z [<-|Hz]; [exact E|].
        specialize (Hy z Hz). unfold le in *. apply Z.leb_le in E. apply Z.leb_le in Hy. apply Z.leb_le. lia.
      + constructor; [|exact IH]. intros z Hz. apply insert_sorted_In in Hz. destruct Hz as [->|Hz]; [|apply Hy; exact Hz].
        unfold le in *. apply Z.leb_gt in E. apply Z.leb_le. lia.
  Qed.

  Lemma stable_sort_sorted : forall l, sorted (stable_sort le l).
  Proof. induction l as [|x l IH]; simpl; [constructor | apply insert_sorted_sorted; exact IH]. Qed.

  Lemma filter_insert_sorted : forall p x l, sorted l ->
    filter p (insert_sorted le x l) = if p x then insert_sorted le x (filter p l) else filter p l.
  Proof.
    intros p x l H. induction H as [|y l Hy Hs IH]; simpl.
    - destruct (p x); reflexivity.
    - destruct (le x y) eqn:E.
      + simpl. destruct (p x) eqn:Px; [|reflexivity]. destruct (p y) eqn:Py.
        * simpl. rewrite E. reflexivity.
        * destruct (filter p l) as [|z l'] eqn:Ef; [reflexivity|]. simpl.
          assert (Hz : In z l) by (assert (In z (filter p l)) by (rewrite Ef; left; reflexivity); apply filter_In in H; tauto).
          specialize (Hy z Hz). assert (le x z = true).
          { unfold le in *. apply Z.leb_le in E. apply Z.leb_le in Hy. apply Z.leb_le. lia. }
          rewrite H. reflexivity.
      + simpl. rewrite IH. destruct (p y) eqn:Py; destruct (p x) eqn:Px; simpl; try rewrite E; reflexivity.
  Qed.

  Lemma filter_stable_sort : forall p l, filter p (stable_sort le l) = stable_sort le (filter p l).
  Proof.
    intros p l. induction l as [|x l IH]; [reflexivity|]. simpl.
    rewrite filter_insert_sorted by apply stable_sort_sorted. rewrite IH.
    destruct (p x); reflexivity.
  Qed.
End SortFilter.

Lemma filter_sort_by_z : forall T (key : T -> Z) p l, filter p (sort_by_z key l) = sort_by_z key (filter p l).
Proof. intros. unfold sort_by_z. apply filter_stable_sort. Qed.

(* looking a row up by rowid and keeping it only if it is selected: determined by the selected rows *)
Lemma find_by_selected : forall T (key : T -> Z) (sel : T -> bool) l1 l2 k,
  unique_keys key l1 -> unique_keys key l2 -> filter sel l1 = filter sel l2 ->
  match find_by key k l1 with Some x => if sel x then Some x else None | None => None end
  = match find_by key k l2 with Some x => if sel x then Some x else None | None => None end.
Proof.
  intros T key sel l1 l2 k U1 U2 E.
  assert (G : forall l, unique_keys key l ->
            match find_by key k l with Some x => if sel x then Some x else None | None => None end
            = find_by key k (filter sel l)).
  { intros l U. destruct (find_by key k l) as [x|] eqn:F.
    - apply find_by_Some in F. destruct F as [Hx Ek]. destruct (sel x) eqn:S.
      + symmetry. rewrite <- Ek. apply find_by_unique; [apply unique_keys_filter; exact U | apply filter_In; tauto].
      + destruct (find_by key k (filter sel l)) as [z|] eqn:F2; [|reflexivity].
        apply find_by_Some in F2. destruct F2 as [Hz Ekz]. apply filter_In in Hz. destruct Hz as [Hz Sz].
        assert (z = x) by (apply (unique_keys_inj _ key l); [exact U | exact Hz | exact Hx | congruence]).
        subst. congruence.
    - destruct (find_by key k (filter sel l)) as [z|] eqn:F2; [|reflexivity].
      apply find_by_Some in F2. destruct F2 as [Hz Ekz]. apply filter_In in Hz. destruct Hz as [Hz _].
      rewrite <- Ekz in F. rewrite (find_by_unique _ key l z U Hz) in F. discriminate. }
  rewrite (G l1 U1), (G l2 U2), E. reflexivity.
Qed.

(* ================================================================== agreement of two databases *)
Section Frame.
Variables d1 d2 : db.
Variable ids : list Z.
Definition sel (l : Z) : bool := z_in l ids.

(* the selected senses are the same rows, and point to the same entry and synset rows *)
Definition agree_senses : Prop :=
  filter (fun s => sel (se_lexicon_rowid s)) (t_senses d1) = filter (fun s => sel (se_lexicon_rowid s)) (t_senses d2)
  /\ forall s, In s (t_senses d1) -> sel (se_lexicon_rowid s) = true -> sense_columns d1 s = sense_columns d2 s.

(* --- get_entry_senses / get_synset_members --- *)
Lemma get_senses_frame_aux : forall (src : sense_row -> Z) (rank : sense_row -> option Z) rowid, agree_senses ->
  flat_map (fun s => match sense_columns d1 s with Some (q, _, _) => [q] | None => [] end)
    (sort_by_oz rank (filter (fun s => Z.eqb (src s) rowid && z_in (se_lexicon_rowid s) ids) (t_senses d1)))
  = flat_map (fun s => match sense_columns d2 s with Some (q, _, _) => [q] | None => [] end)
    (sort_by_oz rank (filter (fun s => Z.eqb (src s) rowid && z_in (se_lexicon_rowid s) ids) (t_senses d2))).
Proof.
  intros src rank rowid [Hs Hc].
  assert (E : forall t, filter (fun s => Z.eqb (src s) rowid && z_in (se_lexicon_rowid s) ids) t
                        = filter (fun s => Z.eqb (src s) rowid) (filter (fun s => sel (se_lexicon_rowid s)) t)).
  { intro t. apply filter_filter_and. }
  rewrite (E (t_senses d1)), (E (t_senses d2)), Hs.
  apply flat_map_ext_in. intros s Hin. apply sort_by_oz_In in Hin. apply filter_In in Hin. destruct Hin as [Hin _].
  rewrite <- Hs in Hin. apply filter_In in Hin. destruct Hin as [Hin Hsel]. rewrite (Hc s Hin Hsel). reflexivity.
Qed.

Theorem get_senses_frame : forall rowid st, agree_senses ->
  _get_senses d1 rowid st ids = _get_senses d2 rowid st ids.
Proof.
  intros rowid st H. destruct st; unfold _get_senses; cbv beta iota zeta.
  - exact (get_senses_frame_aux se_entry_rowid se_entry_rank rowid H).
  - exact (get_senses_frame_aux se_synset_rowid se_synset_rank rowid H).
Qed.

Corollary get_entry_senses_frame : forall rowid, agree_senses ->
  get_entry_senses d1 rowid ids = get_entry_senses d2 rowid ids.
Proof. intros. unfold get_entry_senses. apply get_senses_frame. assumption. Qed.
Corollary get_synset_members_frame : forall rowid, agree_senses ->
  get_synset_members d1 rowid ids = get_synset_members d2 rowid ids.
Proof. intros. unfold get_synset_members. apply get_senses_frame. assumption. Qed.

(* --- find_senses: additionally the forms of the entries of the selected senses --- *)
Lemma matching_entry_rowids_iff : forall d wf norm saf r, unique_keys fm_rowid (t_forms d) ->
  (z_in r (matching_entry_rowids d wf norm saf) = true <->
   exists f, In f (filter (fun f => Z.eqb (fm_entry_rowid f) r) (t_forms d)) /\ form_matches wf norm saf f).
Proof.
  intros d wf norm saf r U. rewrite z_in_In. split.
  - intro H. apply matching_entry_rowids_In in H. destruct H as [f [Hf [E Hm]]]. exists f.
    split; [apply filter_In; split; [exact Hf | apply Z.eqb_eq; exact E] | exact Hm].
  - intros [f [Hf Hm]]. apply filter_In in Hf. destruct Hf as [Hf E]. apply Z.eqb_eq in E.
    unfold matching_entry_rowids. apply in_map_iff. exists f. split; [exact E|].
    apply matching_forms_complete; assumption.
Qed.

Lemma matching_entry_rowids_agree : forall wf norm saf r,
  unique_keys fm_rowid (t_forms d1) -> unique_keys fm_rowid (t_forms d2) ->
  filter (fun f => Z.eqb (fm_entry_rowid f) r) (t_forms d1) = filter (fun f => Z.eqb (fm_entry_rowid f) r) (t_forms d2) ->
  z_in r (matching_entry_rowids d1 wf norm saf) = z_in r (matching_entry_rowids d2 wf norm saf).
Proof.
  intros wf norm saf r U1 U2 E.
  destruct (z_in r (matching_entry_rowids d1 wf norm saf)) eqn:A; destruct (z_in r (matching_entry_rowids d2 wf norm saf)) eqn:B; try reflexivity.
  - apply (matching_entry_rowids_iff d1 _ _ _ _ U1) in A. rewrite E in A.
    apply (matching_entry_rowids_iff d2 _ _ _ _ U2) in A. congruence.
  - apply (matching_entry_rowids_iff d2 _ _ _ _ U2) in B. rewrite <- E in B.
    apply (matching_entry_rowids_iff d1 _ _ _ _ U1) in B. congruence.
Qed.

Definition agree_sense_forms : Prop :=
  forall s, In s (t_senses d1) -> sel (se_lexicon_rowid s) = true ->
    filter (fun f => Z.eqb (fm_entry_rowid f) (se_entry_rowid s)) (t_forms d1)
    = filter (fun f => Z.eqb (fm_entry_rowid f) (se_entry_rowid s)) (t_forms d2).

Theorem find_senses_frame : forall id forms pos norm saf,
  ids <> [] -> db_ok d1 = true -> db_ok d2 = true -> agree_senses -> agree_sense_forms ->
  find_senses d1 id forms pos ids norm saf = find_senses d2 id forms pos ids norm saf.
Proof.
  intros id forms pos norm saf Hne Ok1 Ok2 [Hs Hc] Hf. unfold find_senses. f_equal.
  apply nonempty_true in Hne.
  set (g := fun (d : db) (s : sense_row) =>
    match sense_columns d s with
    | None => []
    | Some (q, e, _) =>
        if (if truthy id then ostr_eqb (Some (se_id s)) id else true)
           && (if nonempty forms then z_in (se_entry_rowid s) (matching_entry_rowids d forms norm saf) else true)
           && (if truthy pos then ostr_eqb (Some (en_pos e)) pos else true)
           && (if nonempty ids then z_in (se_lexicon_rowid s) ids else true)
        then [q] else []
    end).
  change (flat_map (g d1) (if nonempty forms then sort_by_z se_entry_rowid (t_senses d1) else t_senses d1)
          = flat_map (g d2) (if nonempty forms then sort_by_z se_entry_rowid (t_senses d2) else t_senses d2)).
  assert (Hvan : forall d s, sel (se_lexicon_rowid s) = false -> g d s = []).
  { intros d s Hsel. unfold g. destruct (sense_columns d s) as [[[q e] ss]|]; [|reflexivity].
    rewrite Hne. unfold sel in Hsel. rewrite Hsel. rewrite andb_false_r. reflexivity. }
  assert (Hgg : forall s, In s (t_senses d1) -> sel (se_lexicon_rowid s) = true -> g d1 s = g d2 s).
  { intros s Hin Hsel. unfold g. rewrite (Hc s Hin Hsel).
    destruct (sense_columns d2 s) as [[[q e] ss]|]; [|reflexivity].
    rewrite (matching_entry_rowids_agree forms norm saf (se_entry_rowid s) (ok_forms d1 Ok1) (ok_forms d2 Ok2) (Hf s Hin Hsel)).
    reflexivity. }
  destruct (nonempty forms).
  - rewrite (flat_map_filter_vanish _ _ (g d1) (fun s => sel (se_lexicon_rowid s))) by (intros; apply Hvan; assumption).
    rewrite (flat_map_filter_vanish _ _ (g d2) (fun s => sel (se_lexicon_rowid s)) (sort_by_z se_entry_rowid (t_senses d2)))
      by (intros; apply Hvan; assumption).
    rewrite !filter_sort_by_z, <- Hs. apply flat_map_ext_in. intros s Hin. apply sort_by_z_In in Hin.
    apply filter_In in Hin. destruct Hin as [Hin Hsel]. apply Hgg; assumption.
  - rewrite (flat_map_filter_vanish _ _ (g d1) (fun s => sel (se_lexicon_rowid s))) by (intros; apply Hvan; assumption).
    rewrite (flat_map_filter_vanish _ _ (g d2) (fun s => sel (se_lexicon_rowid s)) (t_senses d2))
      by (intros; apply Hvan; assumption).
    rewrite <- Hs. apply flat_map_ext_in. intros s Hin. apply filter_In in Hin. destruct Hin as [Hin Hsel]. apply Hgg; assumption.
Qed.

(* --- find_entries: the selected entries and their forms --- *)
Definition agree_entries : Prop :=
  filter (fun e => sel (en_lexicon_rowid e)) (t_entries d1) = filter (fun e => sel (en_lexicon_rowid e)) (t_entries d2)
  /\ forall e, In e (t_entries d1) -> sel (en_lexicon_rowid e) = true ->
       filter (fun f => Z.eqb (fm_entry_rowid f) (en_rowid e)) (t_forms d1)
       = filter (fun f => Z.eqb (fm_entry_rowid f) (en_rowid e)) (t_forms d2).

Theorem find_entries_frame : forall id forms pos norm saf,
  ids <> [] -> db_ok d1 = true -> db_ok d2 = true -> agree_entries ->
  find_entries d1 id forms pos ids norm saf = find_entries d2 id forms pos ids norm saf.
Proof.
  intros id forms pos norm saf Hne Ok1 Ok2 [He Hf]. rewrite !find_entries_unfold. f_equal. f_equal.
  apply nonempty_true in Hne.
  assert (Ec : forall d t, filter (entry_cond d id forms pos ids norm saf) t
                           = filter (entry_cond d id forms pos ids norm saf) (filter (fun e => sel (en_lexicon_rowid e)) t)).
  { intros d t. rewrite <- filter_filter_and. apply filter_ext_in'. intros e _. unfold entry_cond. rewrite Hne.
    unfold sel. destruct (z_in (en_lexicon_rowid e) ids); [rewrite !andb_true_r | rewrite !andb_false_r]; reflexivity. }
  rewrite (Ec d1 (t_entries d1)), (Ec d2 (t_entries d2)), <- He.
  assert (Ef : filter (entry_cond d1 id forms pos ids norm saf) (filter (fun e => sel (en_lexicon_rowid e)) (t_entries d1))
               = filter (entry_cond d2 id forms pos ids norm saf) (filter (fun e => sel (en_lexicon_rowid e)) (t_entries d1))).
  { apply filter_ext_in'. intros e Hin. apply filter_In in Hin. destruct Hin as [Hin Hsel]. unfold entry_cond.
    rewrite (matching_entry_rowids_agree forms norm saf (en_rowid e) (ok_forms d1 Ok1) (ok_forms d2 Ok2) (Hf e Hin Hsel)).
    reflexivity. }
  rewrite Ef. apply flat_map_ext_in. intros e Hin. apply filter_In in Hin. destruct Hin as [Hin _].
  apply filter_In in Hin. destruct Hin as [Hin Hsel]. rewrite (Hf e Hin Hsel). reflexivity.
Qed.

(* --- find_synsets without a form: the selected synsets and the ILI table --- *)
Definition agree_synsets : Prop :=
  filter (fun ss => sel (sy_lexicon_rowid ss)) (t_synsets d1) = filter (fun ss => sel (sy_lexicon_rowid ss)) (t_synsets d2)
  /\ t_ilis d1 = t_ilis d2.

Lemma synset_columns_agree : forall ss, t_ilis d1 = t_ilis d2 -> synset_columns d1 ss = synset_columns d2 ss.
Proof. intros ss E. unfold synset_columns, ili_id_of. rewrite E. reflexivity. Qed.

Theorem find_synsets_frame : forall id pos ili norm saf,
  ids <> [] -> agree_synsets ->
  find_synsets d1 id [] pos ili ids norm saf = find_synsets d2 id [] pos ili ids norm saf.
Proof.
  intros id pos ili norm saf Hne [Hs Hi]. unfold find_synsets. simpl nonempty. cbv iota. f_equal.
  apply nonempty_true in Hne.
  assert (Ec : forall d t, filter (synset_conditions d id pos ili ids) t
                           = filter (synset_conditions d id pos ili ids) (filter (fun ss => sel (sy_lexicon_rowid ss)) t)).
  { intros d t. rewrite <- filter_filter_and. apply filter_ext_in'. intros ss _. unfold synset_conditions. rewrite Hne.
    unfold sel. destruct (z_in (sy_lexicon_rowid ss) ids); [rewrite !andb_true_r | rewrite !andb_false_r]; reflexivity. }
  rewrite (Ec d1 (t_synsets d1)), (Ec d2 (t_synsets d2)), <- Hs.
  assert (Ef : forall t, filter (synset_conditions d1 id pos ili ids) t = filter (synset_conditions d2 id pos ili ids) t).
  { intro t. apply filter_ext_in'. intros ss _. unfold synset_conditions. rewrite Hi. reflexivity. }
  rewrite Ef. apply map_ext. intro ss. apply synset_columns_agree. exact Hi.
Qed.

(* --- the relation queries: the selected relation rows, the selected target rows, the shared tables --- *)
Definition agree_shared : Prop :=
  t_relation_types d1 = t_relation_types d2 /\ t_lexicons d1 = t_lexicons d2 /\ t_ilis d1 = t_ilis d2.

Lemma rel_subquery_frame : forall table1 table2 srcs types,
  agree_shared ->
  filter (fun r => sel (rl_lexicon_rowid r)) table1 = filter (fun r => sel (rl_lexicon_rowid r)) table2 ->
  rel_subquery d1 table1 srcs types ids = rel_subquery d2 table2 srcs types ids.
Proof.
  intros table1 table2 srcs types [Ht [Hl _]] Hr. unfold rel_subquery.
  assert (E : forall t, filter (fun srel => z_in (rl_source_rowid srel) srcs && z_in (rl_lexicon_rowid srel) ids) t
                        = filter (fun srel => z_in (rl_source_rowid srel) srcs) (filter (fun r => sel (rl_lexicon_rowid r)) t)).
  { intro t. apply filter_filter_and. }
  rewrite (E table1), (E table2), Hr. unfold rt. rewrite Ht, Hl. reflexivity.
Qed.

Theorem get_synset_relations_frame : forall srcs types,
  db_ok d1 = true -> db_ok d2 = true -> agree_shared -> agree_synsets ->
  filter (fun r => sel (rl_lexicon_rowid r)) (t_synset_relations d1)
  = filter (fun r => sel (rl_lexicon_rowid r)) (t_synset_relations d2) ->
  get_synset_relations d1 srcs types ids = get_synset_relations d2 srcs types ids.
Proof.
  intros srcs types Ok1 Ok2 Hsh [Hs Hi] Hr. unfold get_synset_relations, synset_target_query.
  destruct (nonempty ids); simpl; [|reflexivity]. f_equal. f_equal.
  rewrite (rel_subquery_frame _ _ srcs types Hsh Hr). apply flat_map_ext_in.
  intros [[[[name lexicon] meta] src] tg] _.
  pose proof (find_by_selected _ sy_rowid (fun ss => sel (sy_lexicon_rowid ss)) _ _ tg (ok_synsets d1 Ok1) (ok_synsets d2 Ok2) Hs) as F.
  unfold sel in F.
  destruct (find_by sy_rowid tg (t_synsets d1)) as [t1|]; destruct (find_by sy_rowid tg (t_synsets d2)) as [t2|].
  - destruct (z_in (sy_lexicon_rowid t1) ids) eqn:S1; destruct (z_in (sy_lexicon_rowid t2) ids) eqn:S2; try discriminate; try reflexivity.
    injection F as ->. rewrite (synset_columns_agree t2 Hi). reflexivity.
  - destruct (z_in (sy_lexicon_rowid t1) ids); [discriminate | reflexivity].
  - destruct (z_in (sy_lexicon_rowid t2) ids); [discriminate | reflexivity].
  - reflexivity.
Qed.

Theorem get_sense_synset_relations_frame : forall src types,
  db_ok d1 = true -> db_ok d2 = true -> agree_shared -> agree_synsets ->
  filter (fun r => sel (rl_lexicon_rowid r)) (t_sense_synset_relations d1)
  = filter (fun r => sel (rl_lexicon_rowid r)) (t_sense_synset_relations d2) ->
  get_sense_synset_relations d1 src types ids = get_sense_synset_relations d2 src types ids.
Proof.
  intros src types Ok1 Ok2 Hsh [Hs Hi] Hr. unfold get_sense_synset_relations, synset_target_query.
  destruct (nonempty ids); simpl; [|reflexivity]. f_equal. f_equal.
  rewrite (rel_subquery_frame _ _ [src] types Hsh Hr). apply flat_map_ext_in.
  intros [[[[name lexicon] meta] src0] tg] _.
  pose proof (find_by_selected _ sy_rowid (fun ss => sel (sy_lexicon_rowid ss)) _ _ tg (ok_synsets d1 Ok1) (ok_synsets d2 Ok2) Hs) as F.
  unfold sel in F.
  destruct (find_by sy_rowid tg (t_synsets d1)) as [t1|]; destruct (find_by sy_rowid tg (t_synsets d2)) as [t2|].
  - destruct (z_in (sy_lexicon_rowid t1) ids) eqn:S1; destruct (z_in (sy_lexicon_rowid t2) ids) eqn:S2; try discriminate; try reflexivity.
    injection F as ->. rewrite (synset_columns_agree t2 Hi). reflexivity.
  - destruct (z_in (sy_lexicon_rowid t1) ids); [discriminate | reflexivity].
  - destruct (z_in (sy_lexicon_rowid t2) ids); [discriminate | reflexivity].
  - reflexivity.
Qed.

Theorem get_sense_relations_frame : forall src types,
  db_ok d1 = true -> db_ok d2 = true -> agree_shared -> agree_senses ->
  filter (fun r => sel (rl_lexicon_rowid r)) (t_sense_relations d1)
  = filter (fun r => sel (rl_lexicon_rowid r)) (t_sense_relations d2) ->
  get_sense_relations d1 src types ids = get_sense_relations d2 src types ids.
Proof.
  intros src types Ok1 Ok2 Hsh [Hs Hc] Hr. unfold get_sense_relations.
  destruct (nonempty ids); simpl; [|reflexivity]. f_equal. f_equal.
  rewrite (rel_subquery_frame _ _ [src] types Hsh Hr). apply flat_map_ext_in.
  intros [[[[name lexicon] meta] src0] tg] _.
  pose proof (find_by_selected _ se_rowid (fun s => sel (se_lexicon_rowid s)) _ _ tg (ok_senses d1 Ok1) (ok_senses d2 Ok2) Hs) as F.
  unfold sel in F.
  destruct (find_by se_rowid tg (t_senses d1)) as [t1|] eqn:F1; destruct (find_by se_rowid tg (t_senses d2)) as [t2|].
  - destruct (z_in (se_lexicon_rowid t1) ids) eqn:S1; destruct (z_in (se_lexicon_rowid t2) ids) eqn:S2; try discriminate; try reflexivity.
    injection F as <-. apply find_by_Some in F1. destruct F1 as [Hin _]. rewrite (Hc t1 Hin S1). reflexivity.
  - destruct (z_in (se_lexicon_rowid t1) ids); [discriminate | reflexivity].
  - destruct (z_in (se_lexicon_rowid t2) ids); [discriminate | reflexivity].
  - reflexivity.
Qed.

End Frame.
