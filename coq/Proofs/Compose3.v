(* Proofs/Compose3.v — third stage of the capstone of C01 (continues Compose.v and Compose2.v): presence of the
   ILI / lexfile rows, Synset.words() / lemmas(), relations through the API, and the examples an extension adds.

   Setting of P1-P3 (as before): a resource with ONE new, non-extension lexicon L, add_lexical_resource d r nt =
   Ok d', T := conv d', any Wordnet w with wn_lexicon_ids w = [lexid], wn_default_mode w = false.

   P1  [ili_present], [lexfile_present], [K5c_synsets_exact]
       The model's _insert_synsets does NOT create the 'presupposed' status: it looks it up (ILISTAT_QUERY) and the
       INSERT OR IGNORE INTO ilis is dropped (NOT NULL) when the lookup is NULL.  Exact condition:
       [has_presupposed d] = ili_statuses of d holds 'presupposed' (witness that it is needed:
       [presupposed_status_needed]).  Under it every local synset whose ili is given (truthy, not "in":
       AddContent.presupposed) has its row in ilis of d', so  ss_ili y = doc_otext (ili)  outright, and None when
       the ili is absent / "" / "in".  For the lexfile: [lexfiles_strings L] (a given lexfile is a string); then
       Synset_lexfile = Some t for lexfile = t <> "", None for no lexfile.
   P2  [P2_synset_words_lemmas]: Synset_words T y = Ok ws with ws in member order ([doc_members]), every word a
       listed word (and exactly: [Sense_word_exact]: Sense.word() IS the listed Word object); Synset_lemmas T y =
       Ok fs with map fo_form fs = the written forms of the Lemma elements of those entries.
   P3  one relation type rel <> "*" at a time:
       [P3_synset_relations]       map ss_id (Synset_get_related T y [rel])       (needs wn_expanded_ids w = [])
       [P3_sense_relations]        map sn_id (Sense_get_related T sn [rel])
       [P3_sense_synset_relations] map ss_id (Sense_get_related_synsets T sn [rel])
       = dedup str_eqb (the targets of the document's relation elements of type rel, in document order): each
       target once, at its first occurrence.  That is the model's DISTINCT: under conv metadata cells read as
       NULL, so relations that differ in metadata only collapse in the query, and get_related keeps one entity per
       key anyway.  When the document does not repeat a (type, target) pair the list is exactly the document's
       (third conjunct of each theorem).  A SenseRelation is a sense->sense relation exactly when its target is
       the id of a sense of the lexicon ([tos_rel], as _insert_sense_relations decides).
       Hypotheses (booleans, satisfied in [ex7_hypotheses], [ex8_hypotheses]): relation types are strings
       ([reltypes_strings]), targets resolve inside L ([wf_rel], [wf_srel], [wf_ssrel]), stored relation rows
       belong to stored lexicons ([wf_db6], [wf_db7], [wf_db8]), rowids of relation_types distinct in d.
   P4  [P4_sense_examples], [P4_synset_examples] (general): L extends an installed base; an ExternalSense /
       ExternalSynset of L carrying examples and resolving to the base row k0: for w selecting the extension,
       Sense_examples / Synset_examples of the base entity = the examples stored in d for it (in the lexicons w
       selects) followed by the extension's, in document order.  [ex6_examples_by_theorem] instantiates both.
   METADATA: nothing here speaks about metadata (conv reads metadata cells as NULL); in particular the
   Relation objects' dc:type / subtype are outside this composition. *)
From Coq Require Import ZArith List Bool Lia String Sorting.Sorted.
Import ListNotations.
Require Import WnV.Base.Sx WnV.Model.Spec WnV.Model.Val.
Require WnV.Model.Rel WnV.Model.Add WnV.Proofs.AddProofs WnV.Proofs.AddContent.
Require Import WnV.Model.Tables WnV.Model.Query WnV.Model.Core.
Require Import WnV.Proofs.CoreLemmas WnV.Proofs.QueryFacts WnV.Proofs.ScopeProofs WnV.Proofs.SearchProofs
        WnV.Proofs.NavProofs.
Require Import WnV.Proofs.Compose WnV.Proofs.Compose2.
Local Open Scope Z_scope.
Local Open Scope string_scope.

(* ====================================================================== *)
(* P1 — presence of the ILI and lexfile rows                               *)
(* ====================================================================== *)
Definition found (p : R.row -> bool) (d : R.db) (t : string) : Prop := find p (R.get_table d t) <> None.
Lemma found_grows : forall p d d1 t Xs,
    R.get_table d1 t = (R.get_table d t ++ Xs)%list -> found p d t -> found p d1 t.
Proof.
  intros p d d1 t Xs E H. unfold found in *. rewrite E.
  destruct (find p (R.get_table d t)) as [r|] eqn:Ef; [|contradiction].
  rewrite (AC.find_app_some _ _ _ _ Ef). discriminate.
Qed.
Lemma found_same : forall p d d1 t, R.get_table d1 t = R.get_table d t -> found p d t -> found p d1 t.
Proof. intros p d d1 t E H. unfold found in *. rewrite E. exact H. Qed.

(* the value bound for the ili is text (a string, or a number stored as text) *)
Definition textual (c : R.cell) : bool := match c with R.CText _ | R.CInt _ => true | _ => false end.

(* INSERT OR IGNORE INTO ilis with a status: afterwards the id is there *)
Lemma ioi_ilis_found : forall d c s tx m, textual c = true ->
    found (AC.ili_pred c) (R.insert_or_ignore d "ilis" [c; R.CInt s; tx; m]) "ilis".
Proof.
  intros d c s tx m Hc. unfold found, R.insert_or_ignore.
  destruct (R.try_insert d "ilis" [c; R.CInt s; tx; m]) as [d1 rid|] eqn:E.
  - destruct (AP.try_insert_inv _ _ _ _ _ E) as [-> ->]. rewrite AP.get_set_same.
    destruct c as [|n|y|v]; try discriminate;
      (eapply AC.find_exists; [apply in_or_app; right; left; reflexivity|]);
      unfold AC.ili_pred; rewrite AP.dc_ilis; simpl; apply str_eqb_refl.
  - unfold R.try_insert in E. cbv zeta in E. destruct c as [|n|y|v]; try discriminate.
    + assert (R.row_checks_ok "ilis" (R.data_columns "ilis")
                (R.coerce_all (R.data_columns "ilis") [R.CInt n; R.CInt s; tx; m]) = true) as Hck by reflexivity.
      rewrite Hck in E. simpl negb in E. cbv iota in E.
      assert (R.coerce_all (R.data_columns "ilis") [R.CInt n; R.CInt s; tx; m]
              = [R.CText (R.dec_of_Z n); R.CInt s; R.coerce "TEXT" tx; R.coerce "META" m]) as Hco by reflexivity.
      rewrite Hco, AP.unique_conflict_ilis in E.
      destruct (existsb (AP.has_id (R.dec_of_Z n)) (R.get_table d "ilis")) eqn:Ex; [|discriminate].
      apply existsb_exists in Ex. destruct Ex as [r [Hr Hh]].
      eapply AC.find_exists; [exact Hr|]. unfold AC.ili_pred. simpl A.as_text. unfold AP.has_id in Hh.
      rewrite AP.sql_eq_sym. exact Hh.
    + assert (R.row_checks_ok "ilis" (R.data_columns "ilis")
                (R.coerce_all (R.data_columns "ilis") [R.CText y; R.CInt s; tx; m]) = true) as Hck by reflexivity.
      rewrite Hck in E. simpl negb in E. cbv iota in E.
      assert (R.coerce_all (R.data_columns "ilis") [R.CText y; R.CInt s; tx; m]
              = [R.CText y; R.CInt s; R.coerce "TEXT" tx; R.coerce "META" m]) as Hco by reflexivity.
      rewrite Hco, AP.unique_conflict_ilis in E.
      destruct (existsb (AP.has_id y) (R.get_table d "ilis")) eqn:Ex; [|discriminate].
      apply existsb_exists in Ex. destruct Ex as [r [Hr Hh]].
      eapply AC.find_exists; [exact Hr|]. unfold AC.ili_pred. simpl A.as_text. unfold AP.has_id in Hh.
      rewrite AP.sql_eq_sym. exact Hh.
Qed.

(* the 'presupposed' status is in ili_statuses (add_lexical_resource never creates it: the status of a
   presupposed ILI is looked up with ILISTAT_QUERY, and INSERT OR IGNORE drops the row when it is NULL) *)
Definition has_presupposed (d : R.db) : bool := negb (R.is_null (AC.Sd d)).

Lemma ph1_found : forall d ss d1,
    AC.ph1 d ss = R.Ok d1 -> has_presupposed d = true -> textual (AC.ilic_of ss) = true ->
    found (AC.ili_pred (AC.ilic_of ss)) d1 "ilis".
Proof.
  intros d ss d1 H Hs Ht. unfold AC.ph1 in H. apply AP.bind_ok in H. destruct H as [ili [Hili H]].
  unfold AC.ilic_of, AC.presupposed in *. rewrite Hili in *. cbn [AC.pv] in *.
  destruct (vtruthy ili && negb (A.is_in ili)); [|discriminate].
  apply AP.bind_ok in H. destruct H as [[text meta] [_ H]]. apply AP.bind_ok in H. destruct H as [ilic [Hc H]].
  injection H as <-. rewrite Hc in *. cbn [AC.pcell] in *.
  unfold has_presupposed, AC.Sd in Hs. apply negb_true_iff in Hs.
  match goal with |- context [A.ILISTAT_QUERY d ?c] => set (S0 := A.ILISTAT_QUERY d c) end.
  change (R.is_null S0 = false) in Hs.
  assert (AP.st_cell_ok S0) as HS by (unfold S0, A.ILISTAT_QUERY; apply AC.select_rowid_cell_ok).
  clearbody S0.
  destruct HS as [E|[s E]]; rewrite E in *; [discriminate|].
  apply ioi_ilis_found. exact Ht.
Qed.

Lemma Sd_oc : forall ts d d1, AC.only_changes ts d d1 -> ~ In "ili_statuses" ts -> AC.Sd d1 = AC.Sd d.
Proof. intros ts d d1 H Hn. apply AC.ILISTAT_QUERY_ext. apply H. exact Hn. Qed.

Lemma ph1_fold_found : forall b d d1,
    R.foldM AC.ph1 b d = R.Ok d1 -> has_presupposed d = true ->
    forall ss, In ss b -> textual (AC.ilic_of ss) = true -> found (AC.ili_pred (AC.ilic_of ss)) d1 "ilis".
Proof.
  induction b as [|s0 b IH]; intros d d1 H Hs ss Hin Ht; [destruct Hin|].
  simpl in H. apply AP.bind_ok in H. destruct H as [d0 [H0 H]].
  destruct (AC.ph1_step _ _ _ H0) as (O0 & _ & _).
  destruct (AC.ph1_fold _ _ _ H) as (_ & (X1 & E1 & _) & _).
  assert (has_presupposed d0 = true) as Hs0.
  { unfold has_presupposed. rewrite (Sd_oc _ _ _ O0) by AC.not_in. exact Hs. }
  destruct Hin as [->|Hin].
  - apply (found_grows _ d0 d1 "ilis" X1 E1). apply (ph1_found d ss d0 H0 Hs Ht).
  - apply (IH d0 d1 H Hs0 ss Hin Ht).
Qed.

Lemma batches_found : forall lexid bs d d1,
    R.foldM (AC.batch_step lexid) bs d = R.Ok d1 -> has_presupposed d = true ->
    forall ss, In ss (List.concat bs) -> textual (AC.ilic_of ss) = true ->
               found (AC.ili_pred (AC.ilic_of ss)) d1 "ilis".
Proof.
  intros lexid bs. induction bs as [|b bs IH]; intros d d1 H Hs ss Hin Ht; [destruct Hin|].
  simpl in H. apply AP.bind_ok in H. destruct H as [d3 [Hb H]].
  destruct (AC.batches_fold _ _ _ _ H) as (_ & _ & _ & (Xr & Er & _) & _).
  pose proof Hb as Hb'. unfold AC.batch_step in Hb.
  apply AP.bind_ok in Hb. destruct Hb as [da [P1 Hb]]. apply AP.bind_ok in Hb. destruct Hb as [db0 [P2 P3]].
  destruct (AC.ph2_fold _ _ _ _ P2) as [_ O2]. destruct (AC.ph3_fold _ _ _ _ P3) as [_ O3].
  destruct (AC.ph1_fold _ _ _ P1) as (O1 & _ & _).
  simpl in Hin. apply in_app_or in Hin. destruct Hin as [Hin|Hin].
  - apply (found_grows _ d3 d1 "ilis" Xr Er). apply (found_same _ da d3).
    + rewrite O3, O2 by discriminate. reflexivity.
    + apply (ph1_fold_found b d da P1 Hs ss Hin Ht).
  - apply (IH d3 d1 H); [|exact Hin|exact Ht].
    unfold has_presupposed, AC.Sd. rewrite (AC.ILISTAT_QUERY_ext d d3); [exact Hs|].
    rewrite O3, O2 by discriminate. apply O1. AC.not_in.
Qed.

(* (P1, ILI) every local synset with a textual ili gets / has its row in ilis *)
Theorem ili_present : forall nt L d d' ss,
    A.add_one_lexicon nt L d = R.Ok d' -> has_presupposed d = true ->
    In ss (A._local_synsets (A._synsets L)) -> textual (AC.ilic_of ss) = true ->
    found (AC.ili_pred (AC.ilic_of ss)) d' "ilis".
Proof.
  intros nt L d d' ss H Hs Hin Ht. AC.one_inv H.
  pose proof H3 as H3'. rewrite AC.insert_synsets_unfold in H3'.
  AC.oc_facts.
  assert (has_presupposed d2 = true) as Hs2.
  { unfold has_presupposed, AC.Sd in *. rewrite (AC.ILISTAT_QUERY_ext d d2); [exact Hs|].
    AC.tbl_eq "ili_statuses". reflexivity. }
  pose proof (batches_found lexid _ d2 d3 H3' Hs2 ss) as Hf. rewrite AP.batch_concat in Hf.
  specialize (Hf Hin Ht). unfold found in *. AC.tbl_eq "ilis". exact Hf.
Qed.

(* ---------- lexfiles ---------- *)
Definition name_pred (t : str) (r : R.row) : bool := R.sql_eq (R.cell_at 1 r) (R.CText t).

Lemma unique_conflict_lexfiles : forall rows x t rest,
    R.unique_conflict "lexfiles" rows (x :: R.CText t :: rest)
    = existsb (fun r2 => R.sql_eq (R.CText t) (R.cell_at 1 r2)) rows.
Proof.
  intros rows x t rest. unfold R.unique_conflict.
  change (R.table_uniques "lexfiles") with [["name"]]. simpl existsb at 1. rewrite orb_false_r.
  apply AP.existsb_ext. intro r. unfold R.same_key. simpl forallb. rewrite andb_true_r. reflexivity.
Qed.
Lemma ioi_lexfiles_found : forall d t, found (name_pred t) (R.insert_or_ignore d "lexfiles" [R.CText t]) "lexfiles".
Proof.
  intros d t. unfold found, R.insert_or_ignore.
  destruct (R.try_insert d "lexfiles" [R.CText t]) as [d1 rid|] eqn:E.
  - destruct (AP.try_insert_inv _ _ _ _ _ E) as [-> ->]. rewrite AP.get_set_same.
    eapply AC.find_exists; [apply in_or_app; right; left; reflexivity|].
    unfold name_pred. simpl. apply str_eqb_refl.
  - unfold R.try_insert in E. cbv zeta in E.
    assert (R.row_checks_ok "lexfiles" (R.data_columns "lexfiles")
              (R.coerce_all (R.data_columns "lexfiles") [R.CText t]) = true) as Hck by reflexivity.
    rewrite Hck in E. simpl negb in E. cbv iota in E.
    assert (R.coerce_all (R.data_columns "lexfiles") [R.CText t] = [R.CText t]) as Hco by reflexivity.
    rewrite Hco, unique_conflict_lexfiles in E.
    destruct (existsb (fun r2 => R.sql_eq (R.CText t) (R.cell_at 1 r2)) (R.get_table d "lexfiles")) eqn:Ex; [|discriminate].
    apply existsb_exists in Ex. destruct Ex as [r [Hr Hh]].
    eapply AC.find_exists; [exact Hr|]. unfold name_pred. rewrite AP.sql_eq_sym. exact Hh.
Qed.
Lemma found_ioi : forall p d t vals, found p d t -> found p (R.insert_or_ignore d t vals) t.
Proof.
  intros p d t vals H. destruct (AP.insert_or_ignore_inv d t vals) as [->| ->]; [exact H|].
  eapply found_grows; [|exact H]. rewrite AP.get_set_same. reflexivity.
Qed.

Lemma lexfiles_fold_found : forall t (l : list val) d d1,
    R.foldM (fun d0 lf => R.bind (A.param lf) (fun c => R.Ok (R.insert_or_ignore d0 "lexfiles" [c]))) l d = R.Ok d1 ->
    found (name_pred t) d "lexfiles" \/ In (VStr t) l -> found (name_pred t) d1 "lexfiles".
Proof.
  intros t l. induction l as [|x l IH]; intros d d1 H Hor; simpl in H.
  - injection H as <-. destruct Hor as [Hf|[]]. exact Hf.
  - apply AP.bind_ok in H. destruct H as [d0 [H0 H]]. apply AP.bind_ok in H0. destruct H0 as [c [Hc H0]].
    injection H0 as <-. apply (IH _ _ H). destruct Hor as [Hf|[->|Hin]].
    + left. apply found_ioi. exact Hf.
    + left. simpl in Hc. injection Hc as <-. apply ioi_lexfiles_found.
    + right. exact Hin.
Qed.

(* the lexfile of a local synset, when given (truthy), is a string *)
Definition lexfiles_strings (L : val) : bool :=
  forallb (fun ss => match A.vgetk ss "lexfile" with VStr _ => true | v => negb (vtruthy v) end)
          (A._local_synsets (A._synsets L)).

Lemma all_VStr_map : forall l : list val, (forall v, In v l -> exists s, v = VStr s) -> exists strs, l = map VStr strs.
Proof.
  induction l as [|v l IH]; intro H; [exists []; reflexivity|].
  destruct (H v (or_introl eq_refl)) as [s ->]. destruct IH as [strs ->]; [intros v' Hv'; apply H; right; exact Hv'|].
  exists (s :: strs). reflexivity.
Qed.

Theorem lexfile_present : forall nt L d d' ss t,
    A.add_one_lexicon nt L d = R.Ok d' -> lexfiles_strings L = true ->
    In ss (A._local_synsets (A._synsets L)) -> A.vgetk ss "lexfile" = VStr t -> t <> [] ->
    found (name_pred t) d' "lexfiles".
Proof.
  intros nt L d d' ss t H Hls Hin Et Hne. AC.one_inv H.
  assert (found (name_pred t) d1 "lexfiles") as Hf.
  { unfold A._update_lookup_tables in H1.
    apply AP.bind_ok in H1. destruct H1 as [rt1 [_ H1]]. apply AP.bind_ok in H1. destruct H1 as [rt2 [_ H1]].
    apply AP.bind_ok in H1. destruct H1 as [reltypes [_ H1]]. apply AP.bind_ok in H1. destruct H1 as [d0 [_ H1]].
    apply AP.bind_ok in H1. destruct H1 as [lexfiles [Hlf H1]].
    apply (lexfiles_fold_found t lexfiles d0 d1 H1). right.
    set (l := map (fun ss0 => A.vget_def ss0 "lexfile" (A.vs ""))
                  (filter (fun ss0 => vtruthy (A.vgetk ss0 "lexfile")) (A._local_synsets (A._synsets L)))) in *.
    assert (forall ss0, In ss0 (A._local_synsets (A._synsets L)) -> vtruthy (A.vgetk ss0 "lexfile") = true ->
                        exists s, A.vgetk ss0 "lexfile" = VStr s /\ A.vget_def ss0 "lexfile" (A.vs "") = VStr s) as Hstr.
    { intros ss0 H0 Ht0. unfold lexfiles_strings in Hls. rewrite forallb_forall in Hls. specialize (Hls ss0 H0).
      destruct (A.vgetk ss0 "lexfile") as [| | |s| |] eqn:E0; try (rewrite Ht0 in Hls; discriminate).
      exists s. split; [reflexivity|]. unfold A.vget_def. unfold A.vgetk in E0.
      rewrite vget_vhas by (rewrite E0; discriminate). exact E0. }
    destruct (all_VStr_map l) as [strs El].
    { intros v Hv. unfold l in Hv. apply in_map_iff in Hv. destruct Hv as [ss0 [<- Hss0]].
      apply filter_In in Hss0. destruct Hss0 as [H0 Ht0]. destruct (Hstr ss0 H0 Ht0) as [s [_ E]]. exists s. exact E. }
    rewrite El, AP.sorted_set_VStr in Hlf. injection Hlf as <-.
    apply in_map. apply AP.sorted_strs_In.
    assert (In (VStr t) l) as Hl.
    { unfold l. apply in_map_iff. exists ss. 
      assert (vtruthy (A.vgetk ss "lexfile") = true) as Htr by (rewrite Et; destruct t; [contradiction|reflexivity]).
      destruct (Hstr ss Hin Htr) as [s [E1 E2]]. rewrite Et in E1. injection E1 as <-.
      split; [exact E2|apply filter_In; split; assumption]. }
    rewrite El in Hl. apply in_map_iff in Hl. destruct Hl as [s [Es Hs]]. injection Es as ->. exact Hs. }
  AC.oc_facts. unfold found in *. AC.tbl_eq "lexfiles". exact Hf.
Qed.

(* ---------- K5c without the conditionals ---------- *)
Lemma ilic_cases : forall ss,
    (AC.presupposed ss = false /\ AC.ilic_of ss = R.CNull)
    \/ (AC.presupposed ss = true /\ textual (AC.ilic_of ss) = true)
    \/ (AC.presupposed ss = true /\ doc_otext (A.vgetk ss "ili") = None
        /\ forall r, AC.ili_pred (AC.ilic_of ss) r = false).
Proof.
  intro ss. unfold AC.ilic_of. destruct (AC.presupposed ss) eqn:Ep; [|left; split; reflexivity].
  right. rewrite pv_vreq. unfold AC.presupposed in Ep. rewrite pv_vreq in Ep.
  destruct (A.vgetk ss "ili") as [|b|n|s|l|kvs]; simpl in Ep; try discriminate.
  - left. split; reflexivity.
  - left. split; reflexivity.
  - left. split; reflexivity.
  - right. split; [reflexivity|]. split; [reflexivity|]. intro r. unfold AC.ili_pred. simpl. destruct (R.cell_at 1 r); reflexivity.
  - right. split; [reflexivity|]. split; [reflexivity|]. intro r. unfold AC.ili_pred. simpl. destruct (R.cell_at 1 r); reflexivity.
Qed.

Lemma ili_match_exact : forall nt L d d' ss,
    A.add_one_lexicon nt L d = R.Ok d' -> has_presupposed d = true -> In ss (A._local_synsets (A._synsets L)) ->
    match find (AC.ili_pred (AC.ilic_of ss)) (R.get_table d' "ilis") with
    | Some _ => doc_otext (A.vgetk ss "ili") | None => None end
    = if AC.presupposed ss then doc_otext (A.vgetk ss "ili") else None.
Proof.
  intros nt L d d' ss H Hs Hin. destruct (ilic_cases ss) as [[Ep Ec]|[[Ep Ht]|[Ep [Eo Hn]]]]; rewrite Ep.
  - rewrite Ec, (find_never _ _ AC.ili_pred_null). reflexivity.
  - pose proof (ili_present nt L d d' ss H Hs Hin Ht) as Hf. unfold found in Hf.
    destruct (find (AC.ili_pred (AC.ilic_of ss)) (R.get_table d' "ilis")); [reflexivity|contradiction].
  - rewrite (find_never _ _ Hn). symmetry. exact Eo.
Qed.

Lemma lexfile_match_exact : forall nt L d d' ss,
    A.add_one_lexicon nt L d = R.Ok d' -> lexfiles_strings L = true -> In ss (A._local_synsets (A._synsets L)) ->
    (forall t, A.vgetk ss "lexfile" = VStr t -> t <> [] ->
               match find (lexfile_pred ss) (R.get_table d' "lexfiles") with
               | Some _ => doc_otext (A.vgetk ss "lexfile") | None => None end = Some t)
    /\ (A.vgetk ss "lexfile" = VNone ->
        match find (lexfile_pred ss) (R.get_table d' "lexfiles") with
        | Some _ => doc_otext (A.vgetk ss "lexfile") | None => None end = None).
Proof.
  intros nt L d d' ss H Hls Hin. split.
  - intros t Et Hne. pose proof (lexfile_present nt L d d' ss t H Hls Hin Et Hne) as Hf. unfold found in Hf.
    assert (forall r, lexfile_pred ss r = name_pred t r) as Ep by (intro r; unfold lexfile_pred; rewrite Et; reflexivity).
    rewrite (AP.find_ext _ _ _ Ep).
    destruct (find (name_pred t) (R.get_table d' "lexfiles")); [rewrite Et; reflexivity|contradiction].
  - intro En. rewrite find_never; [reflexivity|]. intro r. unfold lexfile_pred. rewrite En. simpl.
    destruct (R.cell_at 1 r); reflexivity.
Qed.

Lemma Forall2_impl_in : forall {X0 Y0} (P Q : X0 -> Y0 -> Prop) l l',
    (forall a b, In b l' -> P a b -> Q a b) -> Forall2 P l l' -> Forall2 Q l l'.
Proof.
  intros X0 Y0 P Q l l' Hi HF. induction HF as [|a b l l' Hab HF IH]; constructor.
  - apply Hi; [left; reflexivity|exact Hab].
  - apply IH. intros a' b' Hb'. apply Hi. right. exact Hb'.
Qed.

(* the report about a synset with the ILI and the lexfile stated outright *)
Definition synset_report_exact (T : Tables.db) (y : Synset) (ss : val) : Prop :=
  Synset_lexicalized T y = Ok (doc_bool (A.vget_def ss "lexicalized" (VBool true)))
  /\ Synset_examples T y = Ok (map (fun ex => doc_otext (A.vgetk ex "text")) (A.vlistk ss "examples"))
  /\ Synset_definition T y
     = match A.vlistk ss "definitions" with [] => None | df :: _ => doc_otext (A.vgetk df "text") end
  (* the ILI: the document's ili unless it is absent / empty / "in" *)
  /\ ss_ili y = (if AC.presupposed ss then doc_otext (A.vgetk ss "ili") else None)
  (* the lexfile *)
  /\ (forall t, A.vgetk ss "lexfile" = VStr t -> t <> [] -> Synset_lexfile T y = Some t)
  /\ (A.vgetk ss "lexfile" = VNone -> Synset_lexfile T y = None)
  /\ (A.is_in (A.vgetk ss "ili") = true ->
      exists i, Synset_ili T y = Some i /\ ili_id i = None /\ ili_status i = s_proposed
                /\ ili_definition i = doc_ili_definition ss).

(* (P1) K5c restated: hypotheses of K5c_synsets, plus: ili_statuses of d holds 'presupposed'
   ([has_presupposed]), and the lexfiles given by the local synsets are strings ([lexfiles_strings]) *)
Theorem K5c_synsets_exact : forall d r nt d' L w,
    A.add_lexical_resource d r nt = R.Ok d' -> A.vreq r "lexicons" = R.Ok (VList [L]) ->
    new_lexicon d L = true -> wf_db d = true -> wf_lex L = true ->
    wn_lexicon_ids w = [R.next_rowid (R.get_table d "lexicons")] -> wn_default_mode w = false ->
    wf_db5 d = true -> wf_lex5 L = true -> rowids_okb "ilis" d = true -> rowids_okb "lexfiles" d = true ->
    has_presupposed d = true -> lexfiles_strings L = true ->
    Forall2 (synset_report_exact (conv d')) (Wordnet_synsets (conv d') w None None None)
            (A._local_synsets (A._synsets L)).
Proof.
  intros d r nt d' L w H Hr Hn Hdb Hl Hw Hm Hdb5 Hl5 Hri Hrl Hps Hls.
  pose proof (single_new_lexicon d r nt d' L H Hr Hn) as Hadd.
  eapply Forall2_impl_in; [|exact (K5c_synsets d r nt d' L w H Hr Hn Hdb Hl Hw Hm Hdb5 Hl5 Hri Hrl)].
  intros y ss Hss (R1 & R2 & R3 & R4 & R5 & R6). unfold synset_report_exact.
  destruct (lexfile_match_exact nt L d d' ss Hadd Hls Hss) as [Lf1 Lf2].
  split; [exact R1|]. split; [exact R2|]. split; [exact R3|].
  split; [rewrite R4; apply (ili_match_exact nt L d d' ss Hadd Hps Hss)|].
  split; [intros t Et Hne; rewrite R5; apply (Lf1 t Et Hne)|].
  split; [intro En; rewrite R5; apply (Lf2 En)|exact R6].
Qed.

(* ====================================================================== *)
(* P2 — Synset.words() and Synset.lemmas()                                 *)
(* ====================================================================== *)
Lemma filter_unique : forall {X0} (p : X0 -> bool) l x,
    NoDup l -> In x l -> (forall y, In y l -> (p y = true <-> y = x)) -> filter p l = [x].
Proof.
  intros X0 p l x Hnd. induction Hnd as [|a l Ha Hnd IH]; intros Hin Hp; [destruct Hin|].
  simpl. destruct Hin as [->|Hin].
  - rewrite (proj2 (Hp x (or_introl eq_refl)) eq_refl). f_equal. apply filter_none_in.
    intros y Hy. destruct (p y) eqn:E; [|reflexivity]. apply (Hp y (or_intror Hy)) in E. subst y. contradiction.
  - destruct (p a) eqn:E.
    + apply (Hp a (or_introl eq_refl)) in E. subst a. contradiction.
    + apply IH; [exact Hin|]. intros y Hy. apply Hp. right. exact Hy.
Qed.
Lemma mapM_exists : forall {A0 B0 C0} (f : A0 -> res B0) (P : B0 -> C0 -> Prop) (g : A0 -> C0) l,
    (forall a, In a l -> exists b, f a = Ok b /\ P b (g a)) ->
    exists bs, mapM f l = Ok bs /\ Forall2 P bs (map g l).
Proof.
  intros A0 B0 C0 f P g l. induction l as [|a l IH]; intro H.
  - exists []. split; [reflexivity|constructor].
  - destruct (H a (or_introl eq_refl)) as [b [Hb Pb]].
    destruct IH as [bs [Hbs Fbs]]; [intros a' Ha'; apply H; right; exact Ha'|].
    exists (b :: bs). split; [simpl; rewrite Hb; simpl; rewrite Hbs; reflexivity|constructor; assumption].
Qed.

Lemma mapM_map_l : forall {A0 B0 C0} (f : B0 -> res C0) (h : A0 -> B0) l,
    mapM f (map h l) = mapM (fun a => f (h a)) l.
Proof. intros A0 B0 C0 f h l. induction l as [|a l IH]; simpl; [reflexivity|]. rewrite IH. reflexivity. Qed.
Lemma mapM_Forall2 : forall {A0 B0 C0 D0} (f : A0 -> res B0) (k0 : B0 -> D0) (h : C0 -> D0) l l',
    Forall2 (fun a c => exists b, f a = Ok b /\ k0 b = h c) l l' ->
    exists bs, mapM f l = Ok bs /\ map k0 bs = map h l'.
Proof.
  intros A0 B0 C0 D0 f k0 h l l' HF. induction HF as [|a c l l' [b [Hb Eb]] HF [bs [Hbs Ebs]]].
  - exists []. split; reflexivity.
  - exists (b :: bs). split; [simpl; rewrite Hb; simpl; rewrite Hbs; reflexivity|simpl; rewrite Eb, Ebs; reflexivity].
Qed.

Section Lemmas.
Variables (nt : A.normtable) (L : val) (d d' : R.db).
Hypothesis Hadd : A.add_one_lexicon nt L d = R.Ok d'.
Hypothesis Hext : vtruthy (A.vgetk L "extends") = false.
Hypothesis Hdb : wf_db d = true.
Hypothesis HL : wf_lex_facts L.
Variable w : Wordnet.
Hypothesis Hw : wn_lexicon_ids w = [R.next_rowid (R.get_table d "lexicons")].
Hypothesis Hm : wn_default_mode w = false.

Local Notation lexid := (R.next_rowid (R.get_table d "lexicons")).
Local Notation les := (A._local_entries (A._entries L)).
Local Notation lss := (A._local_synsets (A._synsets L)).
Local Notation nE := (R.next_rowid (R.get_table d "entries")).
Local Notation nS := (R.next_rowid (R.get_table d "synsets")).
Local Notation nN := (R.next_rowid (R.get_table d "senses")).
Local Notation nF := (R.next_rowid (R.get_table d "forms")).
Local Notation T := (conv d').
Local Notation items := (mk_items nt d d' nF (A.enumerate_from nE les)).
Local Notation X := (A.enumerate_from nN (sense_items_from nE les)).
Local Notation sitem := (Z * ((Z * val) * (Z * val)))%type.
Local Notation Sn := (fun kx : sitem => mk_Sense w (qOf d kx)).

Lemma item_of_entry : forall ke, In ke (A.enumerate_from nE les) -> exists it, In it items /\ fst it = mkE d ke.
Proof.
  intros ke Hke. assert (In (mkE d ke) (map fst items)) as Hin by (rewrite items_fst; apply in_map; exact Hke).
  apply in_map_iff in Hin. destruct Hin as [it [E Hit]]. exists it. split; assumption.
Qed.

(* Sense.word() is exactly the listed word of the entry *)
Lemma Sense_word_exact : forall kx it, In kx X -> In it items -> fst it = mkE d (fst (snd kx)) ->
    Sense_word T (Sn kx) = Ok (mk_Word w (word_of_item it)).
Proof.
  intros kx it Hkx Hit Eit.
  destruct (sense_items_In _ _ _ (enum_sense_items L d kx Hkx)) as [Hke _].
  set (ke := fst (snd kx)) in *.
  assert (In (snd ke) les) as He by (apply (enum_local L d ke Hke)).
  destruct (is_sid_spec _ (wl_entry_ids L HL _ He)) as [_ Hne].
  unfold Sense_word. cbn [mk_Sense sn_entry_id sn_wordnet qOf qs_entry_id]. fold ke.
  set (sn := Sn kx). set (ids := Sense_get_declaring_lexicon_ids T sn).
  assert (forall l, In l ids <-> l = lexid) as Hdecl by (apply declaring_single; [exact Hm|exact Hw|reflexivity]).
  assert (nonempty ids = true) as Hnon by (apply declaring_nonempty).
  rewrite find_entries_unfold.
  assert (forall E0, entry_cond T (Some (sid (snd ke))) [] None ids false false E0
                     = str_eqb (en_id E0) (sid (snd ke)) && z_in (en_lexicon_rowid E0) ids) as Hcond.
  { intro E0. unfold entry_cond. rewrite Hnon. destruct (sid (snd ke)) as [|c0 s0] eqn:Es; [contradiction|].
    cbn [truthy nonempty ostr_eqb]. rewrite !andb_true_r. reflexivity. }
  assert (filter (entry_cond T (Some (sid (snd ke))) [] None ids false false) (t_entries T) = [mkE d ke]) as ->.
  { rewrite (typed_entries nt L d d' Hadd), filter_app. rewrite filter_none_in.
    2:{ intros E0 HE0. rewrite Hcond. apply andb_false_iff. right.
        destruct (z_in (en_lexicon_rowid E0) ids) eqn:Ez; [|reflexivity]. apply z_in_In in Ez. apply Hdecl in Ez.
        pose proof (wf_db_entries d E0 Hdb HE0). lia. }
    cbn [app]. rewrite filter_map_comm.
    rewrite (filter_unique _ _ ke (NoDup_map_inv fst _ (enumerate_fst_NoDup les nE)) Hke); [reflexivity|].
    intros ke' Hke'. rewrite Hcond, mkE_id, mkE_lex.
    assert (z_in lexid ids = true) as -> by (apply z_in_In; apply Hdecl; reflexivity).
    rewrite andb_true_r, str_eqb_eq. split.
    - intro Es. apply (NoDup_map_inj (fun k0 : Z * val => sid (snd k0)) (A.enumerate_from nE les)); try assumption.
      rewrite <- (map_map snd sid), enumerate_snd. exact (wl_entry_nodup L HL).
    - intros ->. reflexivity. }
  cbn [flat_map]. rewrite app_nil_r.
  assert (filter (fun f0 => Z.eqb (fm_entry_rowid f0) (en_rowid (mkE d ke))) (t_forms T) = snd it) as ->.
  { rewrite (typed_forms nt L d d' Hadd Hext HL), filter_app. rewrite filter_none_in.
    2:{ intros f0 Hf0. apply Z.eqb_neq. rewrite <- Eit. apply (old_forms_foreign nt L d d' Hdb f0 it Hf0 Hit). }
    cbn [app]. rewrite <- Eit. apply (filter_own_group items it); [apply items_NoDup|apply (items_owns nt L d d' Hadd Hdb HL)|exact Hit]. }
  rewrite <- Eit. change (map (fun f0 => (fst it, f0)) (snd it)) with (block it).
  assert (block it = flat_map block [it]) as -> by (cbn [flat_map]; rewrite app_nil_r; reflexivity).
  rewrite stable_sort_sorted_id.
  2:{ apply blocks_sorted; [constructor; constructor|].
      intros it0 [<-|[]]. apply (items_ranked nt L d d' it Hit). }
  rewrite group_entries_blocks.
  - reflexivity.
  - cbn [map]. constructor; [intros []|constructor].
  - intros it0 [<-|[]]. apply (items_nonempty nt L d d' it Hit).
Qed.

(* the lemma of a listed word is the written form of the Lemma element *)
Lemma item_forms : forall it, In it items ->
    exists ke, In ke (A.enumerate_from nE les) /\ fst it = mkE d ke
               /\ map (fun q => (qf_form q, qf_id q, qf_script q)) (map form_columns (snd it)) = doc_forms (snd ke).
Proof.
  apply (items_Forall nt d d' (fun it => exists ke, In ke (A.enumerate_from nE les) /\ fst it = mkE d ke
            /\ map (fun q => (qf_form q, qf_id q, qf_script q)) (map form_columns (snd it)) = doc_forms (snd ke))).
  intros nf ke Hke. exists ke. split; [exact Hke|]. split; [reflexivity|]. cbn [snd].
  rewrite typed_forms_triples.
  assert (In (snd ke) les) as He by (apply (enum_local L d ke Hke)).
  assert (A._is_external (snd ke) = false) as Hx.
  { unfold A._local_entries in He. apply filter_In in He. destruct He as [_ He]. apply negb_true_iff. exact He. }
  destruct (entry_form_rows_facts d' nt lexid [] (snd ke) Hx) as (_ & Ht & _). exact Ht.
Qed.
Lemma Word_lemma_item : forall it ke, In it items -> In ke (A.enumerate_from nE les) -> fst it = mkE d ke ->
    exists f, Word_lemma (mk_Word w (word_of_item it)) = Ok f /\ fo_form f = written (A.vgetk (snd ke) "lemma").
Proof.
  intros it ke Hit Hke Eit. destruct (item_forms it Hit) as [ke' (Hke' & Eit' & Ef)].
  assert (ke' = ke) as ->.
  { apply (NoDup_map_inj fst (A.enumerate_from nE les)); [apply enumerate_fst_NoDup|assumption|assumption|].
    rewrite <- (mkE_rowid d ke'), <- (mkE_rowid d ke), <- Eit, <- Eit'. reflexivity. }
  unfold Word_lemma. cbn [mk_Word wd_forms word_of_item qw_forms].
  destruct (map form_columns (snd it)) as [|q qs]; [discriminate Ef|].
  unfold doc_forms in Ef. cbn [map] in Ef. injection Ef as E1 _ _ _.
  eexists. split; [reflexivity|]. cbn [mk_Form fo_form]. exact E1.
Qed.

(* (P2) *)
Lemma P2_section :
  Forall2 (fun (y : Synset) (ss : val) =>
             exists ws fs,
               Synset_words T y = Ok ws /\ Synset_lemmas T y = Ok fs
               /\ Forall2 (fun x (es : val * val) => wd_id x = sid (fst es) /\ In x (Wordnet_words T w None None))
                          ws (doc_members L ss)
               /\ map fo_form fs = map (fun es : val * val => written (A.vgetk (fst es) "lemma")) (doc_members L ss))
          (Wordnet_synsets T w None None None) lss.
Proof.
  rewrite (K2_rows nt L d d' w Hadd Hdb Hw). apply Forall2_enum_in. intros ky Hky.
  destruct (Synset_senses_new nt L d d' Hadd Hext Hdb HL w Hw Hm ky (doc_Synset T w d' lexid ky) Hky)
    as [G (EG & HG & Edoc)].
  { unfold doc_Synset. cbn [mk_Synset ss__id synset_columns qy_rowid]. apply (mkY_rowid d d' ky). }
  { reflexivity. }
  set (g := fun kx : sitem => (snd (fst (snd kx)), snd (snd (snd kx)))) in *.
  destruct (mapM_exists (fun kx : sitem => Sense_word T (Sn kx))
              (fun x (es : val * val) => wd_id x = sid (fst es) /\ In x (Wordnet_words T w None None)
                                         /\ exists f, Word_lemma x = Ok f /\ fo_form f = written (A.vgetk (fst es) "lemma"))
              g G) as [ws [Hws Fws]].
  { intros kx Hkx. pose proof (HG kx Hkx) as HX.
    destruct (sense_items_In _ _ _ (enum_sense_items L d kx HX)) as [Hke _].
    destruct (item_of_entry _ Hke) as [it [Hit Eit]].
    exists (mk_Word w (word_of_item it)). split; [apply (Sense_word_exact kx it HX Hit Eit)|].
    split; [|split].
    - cbn [mk_Word wd_id word_of_item qw_id]. rewrite Eit, mkE_id. reflexivity.
    - rewrite (K3_rows nt L d d' Hadd Hext Hdb HL w Hw). apply (in_map (fun it0 => mk_Word w (word_of_item it0))). exact Hit.
    - apply (Word_lemma_item it _ Hit Hke Eit). }
  rewrite Edoc in Fws.
  assert (Synset_words T (doc_Synset T w d' lexid ky) = Ok ws) as Ews.
  { unfold Synset_words. rewrite EG, mapM_map_l. exact Hws. }
  destruct (mapM_Forall2 Word_lemma fo_form (fun es : val * val => written (A.vgetk (fst es) "lemma")) ws
                         (doc_members L (snd ky))) as [fs [Hfs Efs]].
  { eapply Forall2_impl; [|exact Fws]. intros x es HP. destruct HP as (_ & _ & Hf). exact Hf. }
  exists ws, fs. split; [exact Ews|]. split.
  - unfold Synset_lemmas. rewrite Ews. cbn [bind]. exact Hfs.
  - split; [|exact Efs]. eapply Forall2_impl; [|exact Fws]. intros x es HP. destruct HP as (H1 & H2 & _). split; assumption.
Qed.
End Lemmas.

(* (P2) Synset.words() and Synset.lemmas(): the words of the members, in member order ([doc_members]:
   K5a_synset_members); every one is a listed word; the lemmas are the written forms of their Lemma elements *)
Theorem P2_synset_words_lemmas : forall d r nt d' L w,
    A.add_lexical_resource d r nt = R.Ok d' -> A.vreq r "lexicons" = R.Ok (VList [L]) ->
    new_lexicon d L = true -> wf_db d = true -> wf_lex L = true ->
    wn_lexicon_ids w = [R.next_rowid (R.get_table d "lexicons")] -> wn_default_mode w = false ->
    Forall2 (fun (y : Synset) (ss : val) =>
               exists ws fs,
                 Synset_words (conv d') y = Ok ws /\ Synset_lemmas (conv d') y = Ok fs
                 /\ Forall2 (fun x (es : val * val) =>
                               wd_id x = sid (fst es) /\ In x (Wordnet_words (conv d') w None None))
                            ws (doc_members L ss)
                 /\ map fo_form fs
                    = map (fun es : val * val => written (A.vgetk (fst es) "lemma")) (doc_members L ss))
            (Wordnet_synsets (conv d') w None None None) (A._local_synsets (A._synsets L)).
Proof.
  intros d r nt d' L w H Hr Hn Hdb Hl Hw Hm.
  apply (P2_section nt L d d' (single_new_lexicon d r nt d' L H Hr Hn) (new_lexicon_not_extension d L Hn)
                    Hdb (wf_lex_spec L Hl) w Hw Hm).
Qed.

(* ====================================================================== *)
(* P3 — relations through the API (metadata ignored)                        *)
(* ====================================================================== *)
Require Import WnV.Proofs.RelProofs.

(* ---------- relation_types: presence and uniqueness ---------- *)
Lemma unique_conflict_reltypes : forall rows x t rest,
    R.unique_conflict "relation_types" rows (x :: R.CText t :: rest)
    = existsb (fun r2 => R.sql_eq (R.CText t) (R.cell_at 1 r2)) rows.
Proof.
  intros rows x t rest. unfold R.unique_conflict.
  change (R.table_uniques "relation_types") with [["type"]]. simpl existsb at 1. rewrite orb_false_r.
  apply AP.existsb_ext. intro r. unfold R.same_key. simpl forallb. rewrite andb_true_r. reflexivity.
Qed.
Lemma ioi_reltypes_found : forall d t,
    found (name_pred t) (R.insert_or_ignore d "relation_types" [R.CText t]) "relation_types".
Proof.
  intros d t. unfold found, R.insert_or_ignore.
  destruct (R.try_insert d "relation_types" [R.CText t]) as [d1 rid|] eqn:E.
  - destruct (AP.try_insert_inv _ _ _ _ _ E) as [-> ->]. rewrite AP.get_set_same.
    eapply AC.find_exists; [apply in_or_app; right; left; reflexivity|].
    unfold name_pred. simpl. apply str_eqb_refl.
  - unfold R.try_insert in E. cbv zeta in E.
    assert (R.row_checks_ok "relation_types" (R.data_columns "relation_types")
              (R.coerce_all (R.data_columns "relation_types") [R.CText t]) = true) as Hck by reflexivity.
    rewrite Hck in E. simpl negb in E. cbv iota in E.
    assert (R.coerce_all (R.data_columns "relation_types") [R.CText t] = [R.CText t]) as Hco by reflexivity.
    rewrite Hco, unique_conflict_reltypes in E.
    destruct (existsb (fun r2 => R.sql_eq (R.CText t) (R.cell_at 1 r2)) (R.get_table d "relation_types")) eqn:Ex; [|discriminate].
    apply existsb_exists in Ex. destruct Ex as [r [Hr Hh]].
    eapply AC.find_exists; [exact Hr|]. unfold name_pred. rewrite AP.sql_eq_sym. exact Hh.
Qed.
Lemma reltypes_fold_found : forall t (l : list val) d d1,
    R.foldM (fun d0 rt0 => R.bind (A.param rt0) (fun c => R.Ok (R.insert_or_ignore d0 "relation_types" [c]))) l d = R.Ok d1 ->
    found (name_pred t) d "relation_types" \/ In (VStr t) l -> found (name_pred t) d1 "relation_types".
Proof.
  intros t l. induction l as [|x l IH]; intros d d1 H Hor; simpl in H.
  - injection H as <-. destruct Hor as [Hf|[]]. exact Hf.
  - apply AP.bind_ok in H. destruct H as [d0 [H0 H]]. apply AP.bind_ok in H0. destruct H0 as [c [Hc H0]].
    injection H0 as <-. apply (IH _ _ H). destruct Hor as [Hf|[->|Hin]].
    + left. apply found_ioi. exact Hf.
    + left. simpl in Hc. injection Hc as <-. apply ioi_reltypes_found.
    + right. exact Hin.
Qed.

(* every relType of the lexicon (synset and sense relations) is a string: the list that
   _update_lookup_tables collects consists of strings *)
Definition reltypes_of (L : val) : R.result (list val) :=
  R.bind (R.concatM (fun ss => R.mapM (fun rel => A.vreq rel "relType") (A.vlistk ss "relations")) (A._synsets L))
         (fun rt1 =>
  R.bind (R.concatM (fun e => R.concatM (fun s => R.mapM (fun rel => A.vreq rel "relType") (A.vlistk s "relations"))
                                        (A._senses e)) (A._entries L))
         (fun rt2 => R.Ok (rt1 ++ rt2)%list)).
Definition reltypes_strings (L : val) : bool :=
  match reltypes_of L with
  | R.Ok l => match A.all_strs l with Some _ => true | None => false end
  | _ => false
  end.
Lemma all_strs_map : forall l strs, A.all_strs l = Some strs -> l = map VStr strs.
Proof.
  induction l as [|v l IH]; intros strs H; simpl in H; [injection H as <-; reflexivity|].
  destruct v; try discriminate. destruct (A.all_strs l) as [r0|]; [|discriminate]. injection H as <-.
  rewrite (IH r0 eq_refl). reflexivity.
Qed.
Lemma R_mapM_ok_in : forall {X0 Y0} (f : X0 -> R.result Y0) l ys x,
    R.mapM f l = R.Ok ys -> In x l -> exists y, f x = R.Ok y /\ In y ys.
Proof.
  intros X0 Y0 f l. induction l as [|a l IH]; intros ys x H Hin; [destruct Hin|].
  simpl in H. apply AP.bind_ok in H. destruct H as [y0 [Hy0 H]]. apply AP.bind_ok in H. destruct H as [ys0 [Hys0 H]].
  injection H as <-. destruct Hin as [->|Hin].
  - exists y0. split; [exact Hy0|left; reflexivity].
  - destruct (IH ys0 x Hys0 Hin) as [y [Hy Hiny]]. exists y. split; [exact Hy|right; exact Hiny].
Qed.
Lemma R_concatM_in : forall {X0 Y0} (f : X0 -> R.result (list Y0)) l ys x z,
    R.concatM f l = R.Ok ys -> In x l -> (forall zs, f x = R.Ok zs -> In z zs) -> In z ys.
Proof.
  intros X0 Y0 f l ys x z H Hin Hz. unfold R.concatM in H. apply AP.bind_ok in H. destruct H as [ls [Hls H]].
  injection H as <-. destruct (R_mapM_ok_in f l ls x Hls Hin) as [zs [Hzs Hinz]].
  apply in_concat. exists zs. split; [exact Hinz|apply Hz; exact Hzs].
Qed.

Theorem reltype_present : forall nt L d d' ss rel ty,
    A.add_one_lexicon nt L d = R.Ok d' -> reltypes_strings L = true ->
    In ss (A._synsets L) -> In rel (A.vlistk ss "relations") -> A.vgetk rel "relType" = VStr ty ->
    found (name_pred ty) d' "relation_types".
Proof.
  intros nt L d d' ss rel ty H Hrs Hss Hrel Ety. AC.one_inv H.
  assert (found (name_pred ty) d1 "relation_types") as Hf.
  { unfold A._update_lookup_tables in H1.
    apply AP.bind_ok in H1. destruct H1 as [rt1 [Hrt1 H1]]. apply AP.bind_ok in H1. destruct H1 as [rt2 [Hrt2 H1]].
    apply AP.bind_ok in H1. destruct H1 as [reltypes [Hst H1]]. apply AP.bind_ok in H1. destruct H1 as [d0 [F1 H1]].
    apply AP.bind_ok in H1. destruct H1 as [lexfiles [_ H1]].
    assert (found (name_pred ty) d0 "relation_types") as Hf0.
    { apply (reltypes_fold_found ty reltypes d d0 F1). right.
      unfold reltypes_strings, reltypes_of in Hrs. rewrite Hrt1, Hrt2 in Hrs. cbn [R.bind] in Hrs.
      destruct (A.all_strs (rt1 ++ rt2)) as [strs|] eqn:Eall; [|discriminate].
      pose proof (all_strs_map _ _ Eall) as El. rewrite El, AP.sorted_set_VStr in Hst. injection Hst as <-.
      apply in_map. apply AP.sorted_strs_In.
      assert (In (VStr ty) (rt1 ++ rt2)) as Hin.
      { apply in_or_app. left. apply (R_concatM_in _ _ _ ss (VStr ty) Hrt1 Hss).
        intros zs Hzs. apply (R_mapM_in _ _ _ rel (VStr ty) Hzs Hrel). apply vreq_VStr. exact Ety. }
      rewrite El in Hin. apply in_map_iff in Hin. destruct Hin as [s0 [Es Hs0]]. injection Es as ->. exact Hs0. }
    (* the lexfiles fold leaves relation_types alone *)
    revert H1. apply AP.foldM_inv with (P := fun dx => found (name_pred ty) dx "relation_types"); [|exact Hf0].
    clear. intros s x s' Hs Hstep. cbv beta in Hstep. apply AP.bind_ok in Hstep. destruct Hstep as [c [_ Hstep]].
    injection Hstep as <-. destruct (AP.insert_or_ignore_inv s "lexfiles" [c]) as [->| ->]; [exact Hs|].
    unfold found. rewrite AP.get_set_other by discriminate. exact Hs. }
  AC.oc_facts. unfold found in *. AC.tbl_eq "relation_types". exact Hf.
Qed.

Lemma add_one_lexicon_rowids_ok_rt : forall nt L d d',
    A.add_one_lexicon nt L d = R.Ok d' -> rowids_ok "relation_types" d -> rowids_ok "relation_types" d'.
Proof.
  intros nt L d d' H Hok. AC.one_inv H.
  apply (rowids_ok_update_lookup_tables "relation_types" _ _ _ H1) in Hok.
  AC.oc_facts. unfold rowids_ok in *. AC.tbl_eq "relation_types". exact Hok.
Qed.

Lemma conv_relation_types : forall d,
    t_relation_types (conv d) = map (fun r => relation_type_of_row (conv_row r)) (R.get_table d "relation_types").
Proof. intro d. unfold conv, db_of_sx. cbn [t_relation_types]. rewrite table_rows_conv, map_map. reflexivity. Qed.
Lemma conv_synset_relations : forall d,
    t_synset_relations (conv d) = map (fun r => relation_of_row (conv_row r)) (R.get_table d "synset_relations").
Proof. intro d. unfold conv, db_of_sx. cbn [t_synset_relations]. rewrite table_rows_conv, map_map. reflexivity. Qed.
Lemma RELTYPE_QUERY_pred : forall d ty,
    A.RELTYPE_QUERY d (R.CText ty) = R.select_rowid d "relation_types" (name_pred ty).
Proof. reflexivity. Qed.

(* the join of a relation row with its type, for a single requested type *)
Lemma reltype_join : forall d' ty rel,
    rowids_ok "relation_types" d' -> found (name_pred ty) d' "relation_types" -> rel <> c_star_s ->
    match find_by rt_rowid (c_int (conv_cell (A.RELTYPE_QUERY d' (R.CText ty)))) (rt (conv d') [rel]) with
    | Some t => Some (rt_type t) | None => None end
    = if str_eqb ty rel then Some ty else None.
Proof.
  intros d' ty rel Hok Hf Hstar. rewrite RELTYPE_QUERY_pred. unfold R.select_rowid. unfold found in Hf.
  destruct (find (name_pred ty) (R.get_table d' "relation_types")) as [r|] eqn:Ef; [|contradiction].
  cbn [conv_cell c_int]. apply find_some in Ef. destruct Ef as [Hr Hp].
  set (t0 := relation_type_of_row (conv_row r)).
  assert (unique_keys rt_rowid (t_relation_types (conv d'))) as Hu.
  { unfold unique_keys. rewrite conv_relation_types, map_map.
    rewrite (map_ext _ R.rowid_of); [exact Hok|].
    intro r0. unfold relation_type_of_row. cbn [rt_rowid]. rewrite col_conv_row. apply c_int_rowid. }
  assert (In t0 (t_relation_types (conv d'))) as Hin0
      by (rewrite conv_relation_types; apply (in_map (fun r0 => relation_type_of_row (conv_row r0))); exact Hr).
  assert (rt_rowid t0 = R.rowid_of r) as Ek
      by (unfold t0, relation_type_of_row; cbn [rt_rowid]; rewrite col_conv_row; apply c_int_rowid).
  assert (rt_type t0 = ty) as Ety.
  { unfold t0, relation_type_of_row. cbn [rt_type]. rewrite col_conv_row. unfold name_pred in Hp.
    destruct (R.cell_at 1 r) as [|m|a|u]; try discriminate. simpl in Hp. apply str_eqb_eq in Hp. subst a. reflexivity. }
  destruct (str_eqb ty rel) eqn:Er.
  - apply str_eqb_eq in Er. subst rel.
    rewrite (proj2 (find_by_rt (conv d') [ty] (R.rowid_of r) t0 Hu)); [rewrite Ety; reflexivity|].
    split; [exact Hin0|]. split; [exact Ek|]. right. right. rewrite Ety. left. reflexivity.
  - destruct (find_by rt_rowid (R.rowid_of r) (rt (conv d') [rel])) as [t|] eqn:Eft; [|reflexivity].
    exfalso. apply (find_by_rt (conv d') [rel] (R.rowid_of r) t Hu) in Eft. destruct Eft as (Hin & Ekt & Hreq).
    assert (t = t0) as -> by (apply (unique_keys_inj _ rt_rowid _ t t0 Hu Hin Hin0); rewrite Ek; exact Ekt).
    rewrite Ety in Hreq. destruct Hreq as [E|[Hs|[E|[]]]]; [discriminate|destruct Hs as [E|[]]; apply Hstar; exact E|].
    subst rel. rewrite str_eqb_refl in Er. discriminate.
Qed.

(* the new lexicon row *)
Lemma new_lexicon_row : forall nt L d d',
    A.add_one_lexicon nt L d = R.Ok d' ->
    exists lx, find_by lex_rowid (R.next_rowid (R.get_table d "lexicons")) (t_lexicons (conv d')) = Some lx.
Proof.
  intros nt L d d' H. pose proof (AC.one_lexicon_lexicons nt L d d' H) as HA. unfold AC.App in HA.
  rewrite conv_lexicons, HA, map_app, find_by_app_none.
  - cbn [AC.number_from map find_by]. unfold lexicon_of_row at 1. cbn [lex_rowid]. rewrite col_conv_row.
    cbn [R.cell_at nth conv_cell c_int]. rewrite Z.eqb_refl. eexists. reflexivity.
  - intros x Hx. apply in_map_iff in Hx. destruct Hx as [r [<- Hr]]. unfold lexicon_of_row. cbn [lex_rowid].
    rewrite col_conv_row, c_int_rowid. pose proof (AP.next_rowid_fresh _ r Hr). lia.
Qed.

(* ---------- generic: DISTINCT twice, sorting on a constant key ---------- *)
Lemma dedup_aux_dedup_aux : forall {X0 Y0} (e1 : X0 -> X0 -> bool) (e2 : Y0 -> Y0 -> bool) (f : X0 -> Y0),
    (forall a b, e1 a b = true -> a = b) -> (forall y, e2 y y = true) ->
    forall l seen1 seen2,
      (forall s, In s seen1 -> existsb (e2 (f s)) seen2 = true) ->
      dedup_aux e2 seen2 (map f (dedup_aux e1 seen1 l)) = dedup_aux e2 seen2 (map f l).
Proof.
  intros X0 Y0 e1 e2 f He1 He2 l. induction l as [|x l IH]; intros seen1 seen2 Hinv; [reflexivity|].
  cbn [dedup_aux map]. destruct (existsb (e1 x) seen1) eqn:E1.
  - apply existsb_exists in E1. destruct E1 as [s [Hs Es]]. apply He1 in Es. subst s.
    rewrite (Hinv x Hs). apply IH. exact Hinv.
  - cbn [map dedup_aux]. destruct (existsb (e2 (f x)) seen2) eqn:E2.
    + apply IH. intros s [<-|Hs]; [exact E2|apply Hinv; exact Hs].
    + f_equal. apply IH. intros s [<-|Hs]; cbn [existsb].
      * rewrite He2. reflexivity.
      * rewrite (Hinv s Hs). apply orb_true_r.
Qed.
Lemma dedup_dedup : forall {X0 Y0} (e1 : X0 -> X0 -> bool) (e2 : Y0 -> Y0 -> bool) (f : X0 -> Y0) l,
    (forall a b, e1 a b = true -> a = b) -> (forall y, e2 y y = true) ->
    dedup e2 (map f (dedup e1 l)) = dedup e2 (map f l).
Proof. intros. unfold dedup. apply dedup_aux_dedup_aux; [assumption|assumption|intros s []]. Qed.
Lemma dedup_aux_map_key : forall {X0 Y0} (e2 : X0 -> X0 -> bool) (e3 : Y0 -> Y0 -> bool) (g : X0 -> Y0) l seen,
    (forall a b, In a (seen ++ l) -> In b (seen ++ l) -> e2 a b = e3 (g a) (g b)) ->
    map g (dedup_aux e2 seen l) = dedup_aux e3 (map g seen) (map g l).
Proof.
  intros X0 Y0 e2 e3 g l. induction l as [|x l IH]; intros seen H; [reflexivity|].
  cbn [dedup_aux map].
  assert (existsb (e2 x) seen = existsb (e3 (g x)) (map g seen)) as ->.
  { clear IH. assert (forall s, In s seen -> e2 x s = e3 (g x) (g s)) as Hs.
    { intros s Hs. apply H; apply in_or_app; [right; left; reflexivity|left; exact Hs]. }
    induction seen as [|s seen IHs]; [reflexivity|]. cbn [existsb map].
    rewrite (Hs s (or_introl eq_refl)), IHs; [reflexivity| |].
    - intros a b Ha Hb. apply H; apply in_app_or in Ha; apply in_app_or in Hb; apply in_or_app;
        [destruct Ha as [Ha|Ha]; [left; right; exact Ha|right; exact Ha]
        |destruct Hb as [Hb|Hb]; [left; right; exact Hb|right; exact Hb]].
    - intros s' Hs'. apply Hs. right. exact Hs'. }
  destruct (existsb (e3 (g x)) (map g seen)).
  - apply IH. intros a b Ha Hb. apply H; apply in_app_or in Ha; apply in_app_or in Hb; apply in_or_app;
      [destruct Ha as [Ha|Ha]; [left; exact Ha|right; right; exact Ha]
      |destruct Hb as [Hb|Hb]; [left; exact Hb|right; right; exact Hb]].
  - cbn [map]. f_equal. apply (IH (x :: seen)).
    intros a b Ha Hb. apply H; apply in_or_app;
      [destruct Ha as [<-|Ha]; [right; left; reflexivity|apply in_app_or in Ha; destruct Ha as [Ha|Ha]; [left; exact Ha|right; right; exact Ha]]
      |destruct Hb as [<-|Hb]; [right; left; reflexivity|apply in_app_or in Hb; destruct Hb as [Hb|Hb]; [left; exact Hb|right; right; exact Hb]]].
Qed.
Lemma dedup_map_key : forall {X0 Y0} (e2 : X0 -> X0 -> bool) (e3 : Y0 -> Y0 -> bool) (g : X0 -> Y0) l,
    (forall a b, In a l -> In b l -> e2 a b = e3 (g a) (g b)) -> map g (dedup e2 l) = dedup e3 (map g l).
Proof. intros X0 Y0 e2 e3 g l H. unfold dedup. apply (dedup_aux_map_key e2 e3 g l []). exact H. Qed.

Lemma Sorted_all : forall {X0} (Rl : X0 -> X0 -> Prop) l, (forall a b, In a l -> In b l -> Rl a b) -> Sorted Rl l.
Proof.
  intros X0 Rl l. induction l as [|a l IH]; intro H; constructor.
  - apply IH. intros x y Hx Hy. apply H; right; assumption.
  - destruct l as [|b l']; constructor. apply H; [left; reflexivity|right; left; reflexivity].
Qed.
Lemma sort_by_z_const : forall {X0} (key : X0 -> Z) k0 l,
    (forall x, In x l -> key x = k0) -> sort_by_z key l = l.
Proof.
  intros X0 key k0 l H. unfold sort_by_z. apply stable_sort_sorted_id. apply Sorted_all.
  intros a b Ha Hb. rewrite (H a Ha), (H b Hb). apply Z.leb_refl.
Qed.
Lemma flat_map_if_single : forall {X0 Y0} (p : X0 -> bool) (g : X0 -> Y0) l,
    flat_map (fun x => if p x then [g x] else []) l = map g (filter p l).
Proof.
  intros X0 Y0 p g l. induction l as [|x l IH]; simpl; [reflexivity|]. destruct (p x); simpl; rewrite IH; reflexivity.
Qed.

(* ---------- hypotheses for the synset relations ---------- *)
(* the relations of the local synsets have string types and point to local synsets; external synsets carry
   none (they would be attached to the base of an extension) *)
Definition rel_ok (lss : list val) (rel : val) : bool :=
  match A.vgetk rel "relType", A.vgetk rel "target" with
  | VStr _, VStr t => str_mem t (map sid lss)
  | _, _ => false
  end.
Definition wf_rel (L : val) : bool :=
  let lss := A._local_synsets (A._synsets L) in
  forallb (fun ss => forallb (rel_ok lss) (A.vlistk ss "relations")) lss
  && forallb (fun ss => negb (A._is_external ss) || match A.vlistk ss "relations" with [] => true | _ => false end)
             (A._synsets L).
Record wf_rel_facts (L : val) : Prop := {
  wr_rel : forall ss rel, In ss (A._local_synsets (A._synsets L)) -> In rel (A.vlistk ss "relations") ->
                          (exists ty, A.vgetk rel "relType" = VStr ty)
                          /\ exists tt, In tt (A._local_synsets (A._synsets L)) /\ A.vgetk rel "target" = VStr (sid tt);
  wr_ext : forall ss, In ss (A._synsets L) -> A._is_external ss = true -> A.vlistk ss "relations" = []
}.
Lemma wf_rel_spec : forall L, wf_rel L = true -> wf_rel_facts L.
Proof.
  intros L H. unfold wf_rel in H. cbv zeta in H. apply andb_true_iff in H. destruct H as [G1 G2].
  rewrite forallb_forall in G1, G2. constructor.
  - intros ss rel Hss Hrel. specialize (G1 ss Hss). rewrite forallb_forall in G1. specialize (G1 rel Hrel).
    unfold rel_ok in G1. destruct (A.vgetk rel "relType") as [| | |ty| |]; try discriminate.
    destruct (A.vgetk rel "target") as [| | |t| |]; try discriminate.
    split; [exists ty; reflexivity|]. apply str_mem_In in G1. apply in_map_iff in G1. destruct G1 as [tt [<- Htt]].
    exists tt. split; [exact Htt|reflexivity].
  - intros ss Hss Hx. specialize (G2 ss Hss). rewrite Hx in G2. cbn [negb orb] in G2.
    destruct (A.vlistk ss "relations"); [reflexivity|discriminate].
Qed.
(* the stored synset relations belong to stored lexicons *)
Definition wf_db6 (d : R.db) : bool :=
  forallb (fun r => Z.ltb (rl_lexicon_rowid r) (R.next_rowid (R.get_table d "lexicons"))) (t_synset_relations (conv d)).

Lemma synset_relations_table : forall nt L d d',
    A.add_one_lexicon nt L d = R.Ok d' -> vtruthy (A.vgetk L "extends") = false ->
    AC.App "synset_relations" d d'
           (flat_map (AC.synset_relation_rows d' (R.next_rowid (R.get_table d "lexicons")) []) (A._synsets L)).
Proof.
  intros nt L d d' H Hext. AC.one_inv H.
  destruct (AC.app_insert_lexicon _ _ _ _ _ H2) as [_ Hlex].
  assert (m = []) as -> by (eapply not_extension_lexidmap; eassumption).
  destruct (AC.ins_insert_synset_relations _ _ _ _ _ H12) as [Asr _].
  AC.oc_facts.
  assert (lexid = R.next_rowid (R.get_table d "lexicons")) as <-.
  { rewrite Hlex. AC.tbl_eq "lexicons". reflexivity. }
  rewrite (flat_map_ext _ (AC.synset_relation_rows d11 lexid [])).
  - unfold AC.App in *. AC.tbl_eq "synset_relations". rewrite Asr. AC.tbl_eq "synset_relations". reflexivity.
  - intro s. unfold AC.synset_relation_rows. apply map_ext. intro rel.
    apply AC.synset_relation_row_ext; [AC.tbl_eq "synsets"|AC.tbl_eq "relation_types"]; reflexivity.
Qed.
Lemma synset_relation_row_cells : forall d0 lx ss rel,
    AC.synset_relation_row d0 lx [] ss rel
    = [R.CInt lx; R.coerce "INTEGER" (AC.synset_ref d0 lx [] ss);
       R.coerce "INTEGER" (A.SYNSET_QUERY d0 (AC.pcell (A.preq rel "target")) (R.CInt lx));
       R.coerce "INTEGER" (A.RELTYPE_QUERY d0 (AC.pcell (A.preq rel "relType")));
       R.coerce "META" (AC.pcell (A.preq rel "meta"))].
Proof. reflexivity. Qed.

(* the targets that the document gives for a relation type *)
Definition doc_targets (ss : val) (rel : str) : list str :=
  map (fun r => doc_text (A.vgetk r "target"))
      (filter (fun r => str_eqb (doc_text (A.vgetk r "relType")) rel) (A.vlistk ss "relations")).

Section SynsetRelations.
Variables (nt : A.normtable) (L : val) (d d' : R.db).
Hypothesis Hadd : A.add_one_lexicon nt L d = R.Ok d'.
Hypothesis Hext : vtruthy (A.vgetk L "extends") = false.
Hypothesis Hdb : wf_db d = true.
Hypothesis HL : wf_lex_facts L.
Hypothesis Hdb6 : wf_db6 d = true.
Hypothesis HR : wf_rel_facts L.
Hypothesis Hrs : reltypes_strings L = true.
Hypothesis Hrt : rowids_ok "relation_types" d.
Variable w : Wordnet.
Hypothesis Hw : wn_lexicon_ids w = [R.next_rowid (R.get_table d "lexicons")].
Hypothesis Hm : wn_default_mode w = false.
Hypothesis Hx : wn_expanded_ids w = [].

Local Notation lexid := (R.next_rowid (R.get_table d "lexicons")).
Local Notation lss := (A._local_synsets (A._synsets L)).
Local Notation nS := (R.next_rowid (R.get_table d "synsets")).
Local Notation T := (conv d').
Local Notation Y := (A.enumerate_from nS lss).
Local Notation Sy := (doc_Synset T w d' lexid).
Local Notation typedR := (fun r : R.row => relation_of_row (conv_row r)).

(* the target of a relation element, as one of the new synset rows *)
Definition tky (rel : val) : option (Z * val) :=
  find (fun ky' : Z * val => str_eqb (sid (snd ky')) (doc_text (A.vgetk rel "target"))) Y.
Lemma tky_spec : forall ss rel, In ss lss -> In rel (A.vlistk ss "relations") ->
    exists ky' ty, tky rel = Some ky' /\ In ky' Y /\ A.vgetk rel "target" = VStr (sid (snd ky'))
                   /\ A.vgetk rel "relType" = VStr ty.
Proof.
  intros ss rel Hss Hrel. destruct (wr_rel L HR ss rel Hss Hrel) as [[ty Ety] [tt [Htt Et]]].
  destruct (enumerate_In_snd lss nS tt Htt) as [k0 Hk0]. unfold tky. rewrite Et. cbn [doc_text doc_otext].
  destruct (find (fun ky' : Z * val => str_eqb (sid (snd ky')) (sid tt)) Y) as [ky'|] eqn:Ef.
  - apply find_some in Ef. destruct Ef as [Hin Hp]. apply str_eqb_eq in Hp. exists ky', ty.
    rewrite Hp. repeat split; try assumption; reflexivity.
  - exfalso. pose proof (find_none _ _ Ef (k0, tt) Hk0) as Hn. cbn [snd] in Hn. rewrite str_eqb_refl in Hn. discriminate.
Qed.

(* the row of the API for a relation element of the source ky *)
Definition qrel (lx : lexicon_row) (ky : Z * val) (rel : val) : q_synset_relation :=
  {| qyr_name := doc_text (A.vgetk rel "relType"); qyr_lexicon := lexicon_specifier lx;
     qyr_metadata := c_otext (conv_cell (R.coerce "META" (AC.pcell (A.preq rel "meta"))));
     qyr_src_rowid := fst ky;
     qyr_synset := match tky rel with
                   | Some ky' => synset_columns T (mkY d d' ky')
                   | None => synset_columns T (mkY d d' ky)
                   end |}.

(* the inner joins of get_synset_relations on one relation row *)
Definition join_rel (rel : str) (srel : relation_row) : list q_synset_relation :=
  flat_map (fun tup : str * str * option str * Z * Z =>
              match tup with
              | (type, lexicon, metadata, source_rowid, target_rowid) =>
                  match find_by sy_rowid target_rowid (t_synsets T) with
                  | Some tgt =>
                      if z_in (sy_lexicon_rowid tgt) [lexid]
                      then [{| qyr_name := type; qyr_lexicon := lexicon; qyr_metadata := metadata;
                               qyr_src_rowid := source_rowid; qyr_synset := synset_columns T tgt |}]
                      else []
                  | None => []
                  end
              end)
           (match find_by rt_rowid (rl_type_rowid srel) (rt T [rel]),
                  find_by lex_rowid (rl_lexicon_rowid srel) (t_lexicons T) with
            | Some t, Some lex =>
                [(rt_type t, lexicon_specifier lex, rl_metadata srel, rl_source_rowid srel, rl_target_rowid srel)]
            | _, _ => []
            end).

Lemma join_rel_new : forall lx rel ky ss relv k0,
    find_by lex_rowid lexid (t_lexicons T) = Some lx -> rel <> c_star_s ->
    In ky Y -> In ss lss -> In relv (A.vlistk ss "relations") ->
    join_rel rel (typedR (R.CInt k0 :: AC.synset_relation_row d' lexid [] (snd ky) relv))
    = if str_eqb (doc_text (A.vgetk relv "relType")) rel then [qrel lx ky relv] else [].
Proof.
  intros lx rel ky ss relv k0 Hlx Hstar Hky Hss Hrelv.
  destruct (tky_spec ss relv Hss Hrelv) as [ky' [ty (Etk & Hky' & Etgt & Ety)]].
  unfold join_rel. rewrite synset_relation_row_cells. unfold relation_of_row.
  cbn [rl_type_rowid rl_lexicon_rowid rl_metadata rl_source_rowid rl_target_rowid].
  rewrite !col_conv_row. unfold R.cell_at. cbn [nth]. rewrite !coerce_integer.
  rewrite (preq_VStr _ _ _ Ety), (preq_VStr _ _ _ Etgt). cbn [AC.pcell conv_cell c_int]. rewrite Hlx.
  pose proof (reltype_join d' ty rel (add_one_lexicon_rowids_ok_rt nt L d d' Hadd Hrt)) as Hj.
  assert (In ss (A._synsets L)) as HssL.
  { pose proof Hss as Hss0. unfold A._local_synsets in Hss0. apply filter_In in Hss0. tauto. }
  specialize (Hj (reltype_present nt L d d' ss relv ty Hadd Hrs HssL Hrelv Ety) Hstar).
  rewrite Ety. cbn [doc_text doc_otext].
  destruct (find_by rt_rowid (c_int (conv_cell (A.RELTYPE_QUERY d' (R.CText ty)))) (rt T [rel])) as [t|];
    destruct (str_eqb ty rel); try discriminate; [|reflexivity].
  injection Hj as Et. cbn [flat_map app].
  rewrite (synset_query_resolve nt L d d' Hadd Hdb HL (fst ky') (snd ky')) by (destruct ky'; exact Hky').
  cbn [conv_cell c_int]. rewrite (find_new_synset nt L d d' Hadd ky' Hky'), mkY_lex, z_in_single, Z.eqb_refl.
  rewrite app_nil_r. unfold qrel. rewrite Etk, Ety, Et. cbn [doc_text doc_otext].
  rewrite (synset_ref_resolve nt L d d' Hadd Hdb HL ky Hky). cbn [conv_cell c_int]. reflexivity.
Qed.
Lemma synset_children_flat : forall {C Y0} (typed : R.row -> C) (p : C -> bool) (g : C -> list Y0)
                                    (q : list R.cell -> bool) (g' : list R.cell -> list Y0)
                                    (oldrows : R.table) n (rowsC : val -> list (list R.cell)) ky,
    (forall r, In r oldrows -> p (typed r) = false) ->
    (forall k0 r, p (typed (R.CInt k0 :: r)) = q r) -> (forall k0 r, g (typed (R.CInt k0 :: r)) = g' r) ->
    In ky Y ->
    (forall ky' r, In ky' Y -> In r (rowsC (snd ky')) -> q r = Z.eqb (fst ky') (fst ky)) ->
    flat_map g (filter p (map typed (oldrows ++ AC.number_from n (flat_map rowsC lss))%list))
    = flat_map g' (rowsC (snd ky)).
Proof.
  intros C Y0 typed p g q g' oldrows n rowsC ky Hold Hp Hg Hky Hq.
  rewrite map_app, filter_app, flat_map_app. rewrite filter_none_in.
  2:{ intros c Hc. apply in_map_iff in Hc. destruct Hc as [r [<- Hr]]. apply Hold. exact Hr. }
  cbn [flat_map app]. rewrite (flat_map_filter_numbered typed p g q g' _ n Hp Hg). f_equal.
  rewrite <- (enumerate_snd lss nS) at 1. rewrite flat_map_map.
  apply (filter_flat_map_own fst (fun ky0 : Z * val => rowsC (snd ky0)) q Y ky
                             (enumerate_fst_NoDup lss nS) Hky Hq).
Qed.

Lemma key_new : forall ky1 ky2, In ky1 Y -> In ky2 Y ->
    Synset_key_eqb (mk_Synset w (synset_columns T (mkY d d' ky1))) (mk_Synset w (synset_columns T (mkY d d' ky2)))
    = str_eqb (sid (snd ky1)) (sid (snd ky2)).
Proof.
  intros ky1 ky2 H1 H2. destruct (Z.eqb (fst ky1) (fst ky2)) eqn:Ek.
  - apply Z.eqb_eq in Ek. rewrite (NoDup_map_inj fst Y ky1 ky2 (enumerate_fst_NoDup lss nS) H1 H2 Ek).
    rewrite Synset_key_eqb_refl, str_eqb_refl. reflexivity.
  - unfold Synset_key_eqb. cbn [mk_Synset ss__id synset_columns qy_rowid]. rewrite !mkY_rowid, Ek, andb_false_r.
    destruct (str_eqb (sid (snd ky1)) (sid (snd ky2))) eqn:Es; [|reflexivity]. apply str_eqb_eq in Es.
    assert (ky1 = ky2) as ->.
    { apply (NoDup_map_inj (fun k0 : Z * val => sid (snd k0)) Y); try assumption.
      rewrite <- (map_map snd sid), enumerate_snd. exact (wl_synset_nodup L HL). }
    rewrite Z.eqb_refl in Ek. discriminate.
Qed.

Lemma old_relation_lex : forall r, In r (R.get_table d "synset_relations") ->
    rl_lexicon_rowid (typedR r) < lexid.
Proof.
  intros r Hr. unfold wf_db6 in Hdb6. rewrite forallb_forall in Hdb6. apply Z.ltb_lt. apply Hdb6.
  rewrite conv_synset_relations. apply (in_map typedR). exact Hr.
Qed.

Lemma local_relations_new : forall lx ky rel,
    find_by lex_rowid lexid (t_lexicons T) = Some lx -> In ky Y -> rel <> c_star_s ->
    get_synset_relations T [fst ky] [rel] [lexid]
    = Ok (dedup q_synset_relation_eqb
            (map (qrel lx ky)
                 (filter (fun relv => str_eqb (doc_text (A.vgetk relv "relType")) rel)
                         (A.vlistk (snd ky) "relations")))).
Proof.
  intros lx ky rel Hlx Hky Hstar. unfold get_synset_relations, synset_target_query. cbn [nonempty negb].
  f_equal. f_equal. unfold rel_subquery.
  rewrite (sort_by_z_const rl_source_rowid (fst ky)).
  2:{ intros x Hxin. apply filter_In in Hxin. destruct Hxin as [_ Hp]. apply andb_true_iff in Hp. destruct Hp as [Hp _].
      rewrite z_in_single in Hp. apply Z.eqb_eq in Hp. exact Hp. }
  rewrite flat_map_flat_map. rewrite (flat_map_ext _ (join_rel rel)) by (intro srel; reflexivity).
  rewrite conv_synset_relations.
  pose proof (synset_relations_table nt L d d' Hadd Hext) as HA. unfold AC.App in HA. rewrite HA.
  assert (flat_map (AC.synset_relation_rows d' lexid []) (A._synsets L)
          = flat_map (AC.synset_relation_rows d' lexid []) lss) as ->.
  { unfold A._local_synsets. apply (flat_map_filter_nil _ (fun x => negb (A._is_external x))).
    intros ss Hss Hxs. apply negb_false_iff in Hxs. unfold AC.synset_relation_rows.
    rewrite (wr_ext L HR ss Hss Hxs). reflexivity. }
  rewrite (synset_children_flat typedR _ (join_rel rel)
             (fun r => Z.eqb (c_int (conv_cell (R.cell_at 1 r))) (fst ky)
                       && Z.eqb (c_int (conv_cell (R.cell_at 0 r))) lexid)
             (fun r => join_rel rel (typedR (R.CInt 0 :: r))) _ _ _ ky); [| | | |exact Hky|].
  - unfold AC.synset_relation_rows. rewrite flat_map_map.
    assert (In (snd ky) lss) as Hss by (rewrite <- (enumerate_snd lss nS); apply in_map; exact Hky).
    rewrite (AC.flat_map_ext_in_eq _ (fun relv => if str_eqb (doc_text (A.vgetk relv "relType")) rel
                                                  then [qrel lx ky relv] else [])).
    + apply flat_map_if_single.
    + intros relv Hrelv. apply (join_rel_new lx rel ky (snd ky) relv 0 Hlx Hstar Hky Hss Hrelv).
  - intros r Hr. apply andb_false_iff. right. rewrite z_in_single. apply Z.eqb_neq.
    pose proof (old_relation_lex r Hr) as Hlt. cbv beta in Hlt. lia.
  - intros k0 r. unfold relation_of_row. cbn [rl_source_rowid rl_lexicon_rowid].
    rewrite !col_conv_row, !z_in_single. reflexivity.
  - intros k0 r. unfold join_rel, relation_of_row.
    cbn [rl_type_rowid rl_lexicon_rowid rl_metadata rl_source_rowid rl_target_rowid]. rewrite !col_conv_row. reflexivity.
  - intros ky' r Hky' Hr. unfold AC.synset_relation_rows in Hr. apply in_map_iff in Hr. destruct Hr as [relv [<- _]].
    rewrite synset_relation_row_cells. unfold R.cell_at. cbn [nth].
    rewrite (synset_ref_resolve nt L d d' Hadd Hdb HL ky' Hky'), coerce_integer. cbn [conv_cell c_int].
    rewrite Z.eqb_refl. apply andb_true_r.
Qed.

(* (P3, synsets) Synset.get_related(rel) for one relation type: the targets of the document's SynsetRelation
   elements of that type, in document order, each target once (first occurrence) *)
Theorem Synset_get_related_new : forall ky rel, In ky Y -> rel <> c_star_s ->
    exists ts, Synset_get_related T (Sy ky) [rel] = Ok ts
               /\ map ss_id ts = dedup str_eqb (doc_targets (snd ky) rel)
               /\ forall t, In t ts -> In t (Wordnet_synsets T w None None None).
Proof.
  intros ky rel Hky Hstar. destruct (new_lexicon_row nt L d d' Hadd) as [lx Hlx].
  assert (In (snd ky) lss) as Hss by (rewrite <- (enumerate_snd lss nS); apply in_map; exact Hky).
  set (Rsel := filter (fun relv => str_eqb (doc_text (A.vgetk relv "relType")) rel) (A.vlistk (snd ky) "relations")).
  set (F := fun relv => mk_Synset w (qyr_synset (qrel lx ky relv))).
  assert (Synset_get_related T (Sy ky) [rel] = Ok (dedup Synset_key_eqb (map F Rsel))) as Eres.
  { unfold Synset_get_related, Synset_iter_relations.
    assert (ss__id (Sy ky) = fst ky) as Eid
        by (unfold doc_Synset; cbn [mk_Synset ss__id synset_columns qy_rowid]; apply (mkY_rowid d d' ky)).
    rewrite Eid, (nonrowid_neq _ _ (enumerate_fst_ge _ _ _ Hky)). cbn [negb].
    unfold Synset_iter_local_relations. rewrite Eid.
    assert (ss_wordnet (Sy ky) = w) as Ew by reflexivity. rewrite Ew.
    unfold _get_lexicon_ids. rewrite Hm, Hw, (local_relations_new lx ky rel Hlx Hky Hstar). cbn [bind].
    rewrite Hx. cbn [nonempty].
    assert (match ss_ili (Sy ky) with Some _ => Ok [] | None => Ok [] end = @Ok (list (Relation * Synset)) []) as ->
        by (destruct (ss_ili (Sy ky)); reflexivity).
    cbn [bind]. rewrite app_nil_r, map_map. cbn [snd]. unfold unique_list.
    rewrite (dedup_dedup q_synset_relation_eqb Synset_key_eqb (fun q => mk_Synset w (qyr_synset q))).
    - rewrite map_map. reflexivity.
    - intros a b E. apply q_synset_relation_eqb_eq. exact E.
    - apply Synset_key_eqb_refl. }
  assert (forall relv, In relv Rsel ->
            exists ky', In ky' Y /\ F relv = mk_Synset w (synset_columns T (mkY d d' ky'))
                        /\ doc_text (A.vgetk relv "target") = sid (snd ky')) as HF.
  { intros relv Hrelv. unfold Rsel in Hrelv. apply filter_In in Hrelv. destruct Hrelv as [Hrelv _].
    destruct (tky_spec (snd ky) relv Hss Hrelv) as [ky' [ty (Etk & Hky' & Etgt & _)]]. exists ky'.
    split; [exact Hky'|]. split; [unfold F, qrel; cbn [qyr_synset]; rewrite Etk; reflexivity|].
    rewrite Etgt. reflexivity. }
  exists (dedup Synset_key_eqb (map F Rsel)). split; [exact Eres|]. split.
  - rewrite (dedup_map_key Synset_key_eqb str_eqb ss_id).
    + f_equal. rewrite map_map. unfold doc_targets. fold Rsel. apply map_ext_in. intros relv Hrelv.
      destruct (HF relv Hrelv) as [ky' (_ & E1 & E2)]. rewrite E1, E2. cbn [mk_Synset ss_id synset_columns qy_id].
      apply mkY_id.
    + intros a b Ha Hb. apply in_map_iff in Ha. destruct Ha as [ra [<- Hra]]. apply in_map_iff in Hb. destruct Hb as [rb [<- Hrb]].
      destruct (HF ra Hra) as [ka (Hka & Ea & _)]. destruct (HF rb Hrb) as [kb (Hkb & Eb & _)].
      rewrite Ea, Eb, (key_new ka kb Hka Hkb). cbn [mk_Synset ss_id synset_columns qy_id]. rewrite !mkY_id. reflexivity.
  - intros t Ht. apply dedup_In in Ht. apply in_map_iff in Ht. destruct Ht as [relv [<- Hrelv]].
    destruct (HF relv Hrelv) as [ky' (Hky' & E1 & _)]. rewrite E1, (K2_rows nt L d d' w Hadd Hdb Hw).
    apply (in_map (doc_Synset T w d' lexid)). exact Hky'.
Qed.
End SynsetRelations.

Lemma dedup_NoDup_id : forall l : list str, NoDup l -> dedup str_eqb l = l.
Proof.
  intros l H. apply dedup_id. induction H as [|x l Hx Hnd IH]; constructor; [|exact IH].
  intros y Hy. destruct (str_eqb y x) eqn:E; [|reflexivity]. apply str_eqb_eq in E. subst y. contradiction.
Qed.

(* (P3, synset relations) for one relation type rel (not "*"), and a Wordnet without expand lexicons:
   Synset.get_related(rel) lists the targets of the document's SynsetRelation elements of type rel, in
   document order, each target once (DISTINCT: under conv the metadata cells read as NULL, so two relations
   with the same type and target collapse; and get_related keeps one synset per key anyway); when the
   document does not repeat a (type, target) pair the list is exactly the document's *)
Theorem P3_synset_relations : forall d r nt d' L w rel,
    A.add_lexical_resource d r nt = R.Ok d' -> A.vreq r "lexicons" = R.Ok (VList [L]) ->
    new_lexicon d L = true -> wf_db d = true -> wf_lex L = true ->
    wn_lexicon_ids w = [R.next_rowid (R.get_table d "lexicons")] -> wn_default_mode w = false ->
    wn_expanded_ids w = [] ->
    wf_db6 d = true -> wf_rel L = true -> reltypes_strings L = true -> rowids_okb "relation_types" d = true ->
    rel <> c_star_s ->
    Forall2 (fun (y : Synset) (ss : val) =>
               exists ts, Synset_get_related (conv d') y [rel] = Ok ts
                          /\ map ss_id ts = dedup str_eqb (doc_targets ss rel)
                          /\ (NoDup (doc_targets ss rel) -> map ss_id ts = doc_targets ss rel)
                          /\ forall t, In t ts -> In t (Wordnet_synsets (conv d') w None None None))
            (Wordnet_synsets (conv d') w None None None) (A._local_synsets (A._synsets L)).
Proof.
  intros d r nt d' L w rel H Hr Hn Hdb Hl Hw Hm Hx Hdb6 Hwr Hrs Hrt Hstar.
  pose proof (single_new_lexicon d r nt d' L H Hr Hn) as Hadd.
  pose proof (new_lexicon_not_extension d L Hn) as Hext.
  rewrite (K2_rows nt L d d' w Hadd Hdb Hw). apply Forall2_enum_in. intros ky Hky.
  destruct (Synset_get_related_new nt L d d' Hadd Hext Hdb (wf_lex_spec L Hl) Hdb6 (wf_rel_spec L Hwr) Hrs
                                   (rowids_okb_ok _ _ Hrt) w Hw Hm Hx ky rel Hky Hstar) as [ts (E1 & E2 & E3)].
  exists ts. split; [exact E1|]. split; [exact E2|]. split; [|rewrite <- (K2_rows nt L d d' w Hadd Hdb Hw); exact E3].
  intro Hnd. rewrite E2. apply dedup_NoDup_id. exact Hnd.
Qed.

(* ====================================================================== *)
(* Worked example for P1-P3 (non-vacuity)                                  *)
(* ====================================================================== *)
(* AddProofs.ex_db has no 'presupposed' status; an ILI file adds one.  The lexicon rr:1: synset y1 has a new
   ILI i77 (created as presupposed), a lexfile, and four relations, two of them hypernym -> y2 (the second
   one differs in metadata only); y2 declares its members in reverse document order *)
Definition ex7_db : R.db :=
  match A.add_ili AP.ex_db [[A.k "ili"; A.k "status"]; [A.k "i50"; A.k "presupposed"]] with R.Ok d0 => d0 | _ => [] end.
Definition ex7_L : val :=
  AP.vd [("id", A.vs "rr"); ("label", A.vs "Rel"); ("language", A.vs "en"); ("email", A.vs "r@r.r");
      ("license", A.vs "CC"); ("version", A.vs "1"); ("meta", VNone);
      ("entries", VList [
         AP.vd [("id", A.vs "w1"); ("lemma", AP.vd [("writtenForm", A.vs "cat"); ("partOfSpeech", A.vs "n")]);
                ("meta", VNone);
                ("senses", VList [AP.vd [("id", A.vs "w1-s1"); ("synset", A.vs "y1"); ("meta", VNone)];
                                  AP.vd [("id", A.vs "w1-s2"); ("synset", A.vs "y2"); ("meta", VNone)]])];
         AP.vd [("id", A.vs "w2"); ("lemma", AP.vd [("writtenForm", A.vs "feline"); ("partOfSpeech", A.vs "n")]);
                ("meta", VNone);
                ("senses", VList [AP.vd [("id", A.vs "w2-s1"); ("synset", A.vs "y2"); ("meta", VNone)]])]]);
      ("synsets", VList [
         AP.vd [("id", A.vs "y1"); ("ili", A.vs "i77"); ("partOfSpeech", A.vs "n"); ("meta", VNone);
                ("lexfile", A.vs "noun.animal");
                ("relations", VList [AP.vd [("relType", A.vs "hypernym"); ("target", A.vs "y2"); ("meta", VNone)];
                                     AP.vd [("relType", A.vs "similar"); ("target", A.vs "y3"); ("meta", VNone)];
                                     AP.vd [("relType", A.vs "hypernym"); ("target", A.vs "y3"); ("meta", VNone)];
                                     AP.vd [("relType", A.vs "hypernym"); ("target", A.vs "y2");
                                            ("meta", AP.vd [("dc:type", A.vs "x")])]])];
         AP.vd [("id", A.vs "y2"); ("ili", A.vs "i1"); ("partOfSpeech", A.vs "n"); ("meta", VNone);
                ("members", VList [A.vs "w2-s1"; A.vs "w1-s2"]);
                ("relations", VList [AP.vd [("relType", A.vs "hyponym"); ("target", A.vs "y1"); ("meta", VNone)]])];
         AP.vd [("id", A.vs "y3"); ("ili", A.vs ""); ("partOfSpeech", A.vs "n"); ("meta", VNone)]])].
Definition ex7_r : val := AP.ex_resource [ex7_L].
Definition ex7_d' : R.db := match A.add_lexical_resource ex7_db ex7_r [] with R.Ok d0 => d0 | _ => [] end.
Definition ex7_w : Wordnet :=
  match Wordnet_init (conv ex7_d') (Some (S_ "rr:1")) None None false [] None true with
  | Ok w0 => w0
  | _ => {| wn_lexicon_ids := []; wn_expanded_ids := []; wn_default_mode := true; wn_warned := false;
            wn_normalizer := false; wn_norm_table := []; wn_lemmatizer := None; wn_search_all_forms := false |}
  end.

Example ex7_hypotheses :
  A.add_lexical_resource ex7_db ex7_r [] = R.Ok ex7_d'
  /\ A.vreq ex7_r "lexicons" = R.Ok (VList [ex7_L])
  /\ new_lexicon ex7_db ex7_L = true /\ wf_db ex7_db = true /\ wf_lex ex7_L = true
  /\ wf_db5 ex7_db = true /\ wf_lex5 ex7_L = true
  /\ rowids_okb "ilis" ex7_db = true /\ rowids_okb "lexfiles" ex7_db = true
  /\ has_presupposed ex7_db = true /\ lexfiles_strings ex7_L = true
  /\ wf_db6 ex7_db = true /\ wf_rel ex7_L = true /\ reltypes_strings ex7_L = true
  /\ rowids_okb "relation_types" ex7_db = true
  /\ wn_lexicon_ids ex7_w = [R.next_rowid (R.get_table ex7_db "lexicons")] /\ wn_default_mode ex7_w = false
  /\ wn_expanded_ids ex7_w = [].
Proof. vm_compute. repeat split. Qed.

Example ex7_by_evaluation :
  let T := conv ex7_d' in
  map (fun y => (ss_id y, ss_ili y, Synset_lexfile T y,
                 RES (Synset_get_related T y [S_ "hypernym"]) (fun ts => L (map (fun t => sx_of_str (ss_id t)) ts)),
                 RES (Synset_words T y) (fun ws => L (map (fun x => sx_of_str (wd_id x)) ws)),
                 RES (Synset_lemmas T y) (fun fs => L (map (fun f => sx_of_str (fo_form f)) fs))))
      (Wordnet_synsets T ex7_w None None None)
  = [(S_ "y1", Some (S_ "i77"), Some (S_ "noun.animal"), L [sx_of_str (S_ "y2"); sx_of_str (S_ "y3")],
      L [sx_of_str (S_ "w1")], L [sx_of_str (S_ "cat")]);
     (S_ "y2", Some (S_ "i1"), None, L [], L [sx_of_str (S_ "w2"); sx_of_str (S_ "w1")],
      L [sx_of_str (S_ "feline"); sx_of_str (S_ "cat")]);
     (S_ "y3", None, None, L [], L [], L [])].
Proof. vm_compute. reflexivity. Qed.

Example ex7_by_theorems :
  let T := conv ex7_d' in
  Forall2 (synset_report_exact T) (Wordnet_synsets T ex7_w None None None) (A._local_synsets (A._synsets ex7_L))
  /\ Forall2 (fun y ss => exists ts, Synset_get_related T y [S_ "hypernym"] = Ok ts
                                     /\ map ss_id ts = dedup str_eqb (doc_targets ss (S_ "hypernym")))
             (Wordnet_synsets T ex7_w None None None) (A._local_synsets (A._synsets ex7_L))
  /\ map (fun ss => (doc_targets ss (S_ "hypernym"), dedup str_eqb (doc_targets ss (S_ "hypernym"))))
         (A._local_synsets (A._synsets ex7_L))
     = [([S_ "y2"; S_ "y3"; S_ "y2"], [S_ "y2"; S_ "y3"]); ([], []); ([], [])].
Proof.
  destruct ex7_hypotheses as (H & Hr & Hn & Hdb & Hl & Hdb5 & Hl5 & Hri & Hrl & Hps & Hls & Hdb6 & Hwr & Hrs & Hrt
                              & Hw & Hm & Hx).
  cbv zeta. split; [|split].
  - exact (K5c_synsets_exact ex7_db ex7_r [] ex7_d' ex7_L ex7_w H Hr Hn Hdb Hl Hw Hm Hdb5 Hl5 Hri Hrl Hps Hls).
  - eapply Forall2_impl;
      [|exact (P3_synset_relations ex7_db ex7_r [] ex7_d' ex7_L ex7_w (S_ "hypernym") H Hr Hn Hdb Hl Hw Hm Hx
                                   Hdb6 Hwr Hrs Hrt ltac:(discriminate))].
    intros y ss HE. destruct HE as [ts (E1 & E2 & _)]. exists ts. split; assumption.
  - vm_compute. reflexivity.
Qed.

(* [has_presupposed] cannot be dropped: on AddProofs.ex_db (statuses active / deprecated / weird only) the same
   resource is added, but the ILI i77 is not created and Synset.ili is None *)
Example presupposed_status_needed :
  let d1 := match A.add_lexical_resource AP.ex_db ex7_r [] with R.Ok d0 => d0 | _ => [] end in
  A.add_lexical_resource AP.ex_db ex7_r [] = R.Ok d1 /\ has_presupposed AP.ex_db = false
  /\ map (fun y => (ss_id y, ss_ili y)) (Wordnet_synsets (conv d1) ex7_w None None None)
     = [(S_ "y1", None); (S_ "y2", Some (S_ "i1")); (S_ "y3", None)].
Proof. vm_compute. repeat split. Qed.

(* ====================================================================== *)
(* P4 — an extension adds examples to a sense of its base (general)        *)
(* ====================================================================== *)
Lemma NoDup_number_from : forall rows (old : R.table) n,
    (forall r, In r old -> R.rowid_of r < n) -> NoDup (map R.rowid_of old) ->
    NoDup (map R.rowid_of (old ++ AC.number_from n rows)%list).
Proof.
  induction rows as [|vs rows IH]; intros old n Hlt Hnd; simpl; [rewrite app_nil_r; exact Hnd|].
  replace (old ++ (R.CInt n :: vs) :: AC.number_from (n + 1) rows)%list
    with ((old ++ [R.CInt n :: vs]) ++ AC.number_from (n + 1) rows)%list by (rewrite <- app_assoc; reflexivity).
  apply IH.
  - intros r Hr. apply in_app_or in Hr. destruct Hr as [Hr|[<-|[]]]; [pose proof (Hlt r Hr); lia|simpl; lia].
  - rewrite map_app. apply NoDup_snoc; [exact Hnd|]. cbn [map R.rowid_of]. intro Hin.
    apply in_map_iff in Hin. destruct Hin as [r [Er Hr]]. pose proof (Hlt r Hr). lia.
Qed.

Lemma build_lexid_map_sense : forall L lexid extid m,
    A._build_lexid_map L lexid extid = R.Ok m -> lexid <> extid ->
    forall e s sid0, In e (A._entries L) -> In s (A._senses e) -> A._is_external s = true ->
                     A.vgetk s "id" = VStr sid0 -> A.lexidmap_get m (VStr sid0) lexid = R.CInt extid.
Proof.
  intros L lexid extid m H Hne e s sid0 He Hs Hxs Eid. unfold A._build_lexid_map in H.
  apply Z.eqb_neq in Hne. rewrite Hne in H.
  apply AP.bind_ok in H. destruct H as [ids1 [H1 H]]. apply AP.bind_ok in H. destruct H as [ids2 [H2 H]].
  apply AP.bind_ok in H. destruct H as [ids3 [H3 H]]. injection H as <-.
  unfold A.lexidmap_get. rewrite lexidmap_fold_get; [reflexivity|].
  apply in_or_app. right. apply in_or_app. left.
  apply (R_concatM_in _ _ _ e (VStr sid0) H2 He). intros zs Hzs.
  apply (R_mapM_in _ _ _ s (VStr sid0) Hzs); [apply filter_In; split; assumption|apply vreq_VStr; exact Eid].
Qed.
Lemma lexidmap_get_int : forall m x lx, exists z, A.lexidmap_get m x lx = R.CInt z.
Proof. intros m x lx. unfold A.lexidmap_get. destruct (A.dict_get m x); eexists; reflexivity. Qed.

(* all the senses of the lexicon have non-empty, pairwise distinct string ids *)
Definition all_senses (L : val) : list val := flat_map A._senses (A._entries L).
Definition wf_all_senses (L : val) : bool :=
  forallb is_sid (all_senses L) && nodup_strb (map sid (all_senses L)).

Lemma flat_map_pick : forall {Y0} (rowsC : val -> list Y0) (l : list val) x t,
    NoDup (map sid l) -> In x l -> sid x = t ->
    flat_map (fun y => if str_eqb (sid y) t then rowsC y else []) l = rowsC x.
Proof.
  intros Y0 rowsC l x t. induction l as [|y l IH]; intros Hnd Hin Et; [destruct Hin|].
  simpl in Hnd. inversion Hnd as [|k0 ks Hnot Hnd']. subst k0 ks. cbn [flat_map]. destruct Hin as [->|Hin].
  - rewrite Et, str_eqb_refl. rewrite flat_map_nil_in; [apply app_nil_r|].
    intros z Hz. destruct (str_eqb (sid z) t) eqn:E; [|reflexivity]. apply str_eqb_eq in E. exfalso. apply Hnot.
    rewrite Et, <- E. apply in_map. exact Hz.
  - destruct (str_eqb (sid y) t) eqn:E.
    + apply str_eqb_eq in E. exfalso. apply Hnot. rewrite E, <- Et. apply in_map. exact Hin.
    + cbn [app]. apply IH; assumption.
Qed.
Lemma filter_flat_map_comm : forall {X0 Y0} (q : Y0 -> bool) (f : X0 -> list Y0) l,
    filter q (flat_map f l) = flat_map (fun x => filter q (f x)) l.
Proof. intros X0 Y0 q f l. induction l as [|x l IH]; simpl; [reflexivity|]. rewrite filter_app, IH. reflexivity. Qed.

(* (P4) L extends the installed base (bid, bver) = lexicon rowid bx of d; an ExternalSense s_ext of L has the
   id sid0 of the base sense row k0 and carries examples.  For a Wordnet w (not in default mode) selecting the
   extension, and the Sense object of the base sense: Sense.examples() lists the examples already stored for the
   sense (of the lexicons w selects) followed by the extension's, in document order *)
Theorem P4_sense_examples : forall nt L d d' bid bver bx e s_ext sid0 k0 w sn0,
    A.add_one_lexicon nt L d = R.Ok d' ->
    vtruthy (A.vgetk L "extends") = true ->
    A.vgetk (A.vgetk L "extends") "id" = VStr bid -> A.vgetk (A.vgetk L "extends") "version" = VStr bver ->
    A.LEXICON_QUERY d (R.CText bid) (R.CText bver) = R.CInt bx ->
    rowids_ok "senses" d -> wf_all_senses L = true ->
    In e (A._entries L) -> In s_ext (A._senses e) -> A._is_external s_ext = true -> A.vgetk s_ext "id" = VStr sid0 ->
    A.SENSE_QUERY d (R.CText sid0) (R.CInt bx) = R.CInt k0 -> 1 <= k0 ->
    wn_default_mode w = false -> In (R.next_rowid (R.get_table d "lexicons")) (wn_lexicon_ids w) ->
    sn__id sn0 = k0 -> sn_wordnet sn0 = w ->
    Sense_examples (conv d') sn0
    = Ok (map ex_example
              (filter (fun r => Z.eqb (ex_owner_rowid r) k0 && z_in (ex_lexicon_rowid r) (wn_lexicon_ids w))
                      (t_sense_examples (conv d)))
          ++ map (fun ex => doc_otext (A.vgetk ex "text")) (A.vlistk s_ext "examples"))%list.
Proof.
  intros nt L d d' bid bver bx e s_ext sid0 k0 w sn0
         H Hext Ebid Ebver HB Hrid Hwas He Hse Hxs Eid0 HSQ Hk0 Hmode Hsel Esn Ew.
  (* the senses table keeps distinct rowids, and the base row is still there *)
  destruct (AC.one_lexicon_senses nt L d d' H) as (lx0 & ex0 & m0 & _ & _ & AppS). unfold AC.App in AppS.
  assert (NoDup (map R.rowid_of (R.get_table d' "senses"))) as Hnd'.
  { rewrite AppS. apply NoDup_number_from; [intros r Hr; apply AP.next_rowid_fresh; exact Hr|exact Hrid]. }
  rewrite SENSE_QUERY_pred in HSQ. unfold R.select_rowid in HSQ.
  destruct (find (AC.syn_pred (R.CText sid0) bx) (R.get_table d "senses")) as [r0|] eqn:Ef0; [|discriminate].
  injection HSQ as Er0. pose proof (find_some _ _ Ef0) as [Hr0 Hp0].
  assert (In r0 (R.get_table d' "senses")) as Hr0' by (rewrite AppS; apply in_or_app; left; exact Hr0).
  assert (R.cell_at 1 r0 = R.CText sid0) as Ec0.
  { unfold AC.syn_pred in Hp0. apply andb_true_iff in Hp0. destruct Hp0 as [Hp0 _].
    destruct (R.cell_at 1 r0) as [|n0|a0|u0]; try discriminate. simpl in Hp0. apply str_eqb_eq in Hp0. subst a0. reflexivity. }
  unfold wf_all_senses in Hwas. apply andb_true_iff in Hwas. destruct Hwas as [Hids Hnds].
  rewrite forallb_forall in Hids. apply nodup_strb_NoDup in Hnds.
  assert (In s_ext (all_senses L)) as Hsall by (unfold all_senses; apply in_flat_map; exists e; split; assumption).
  assert (sid s_ext = sid0) as Esid by (unfold sid; rewrite Eid0; reflexivity).
  AC.one_inv H.
  destruct (AC.app_insert_lexicon _ _ _ _ _ H2) as [AppL Hlex].
  destruct (insert_lexicon_extid _ _ _ _ _ Hext H2) as [bidc [bverc [Eb1 [Eb2 Eq]]]].
  rewrite (preq_VStr _ _ _ Ebid) in Eb1. injection Eb1 as <-.
  rewrite (preq_VStr _ _ _ Ebver) in Eb2. injection Eb2 as <-.
  destruct (AC.ins_insert_sense_examples _ _ _ _ _ H15) as [Asex _].
  AC.oc_facts.
  assert (lexid = R.next_rowid (R.get_table d "lexicons")) as Elex.
  { rewrite Hlex. AC.tbl_eq "lexicons". reflexivity. }
  assert (A.LEXICON_QUERY d2 (R.CText bid) (R.CText bver) = R.CInt bx) as Eq'.
  { rewrite LEXICON_QUERY_pred in *. unfold AC.App in AppL.
    eapply (select_rowid_prefix d d2 "lexicons"); [|exact HB].
    rewrite AppL. AC.tbl_eq "lexicons". reflexivity. }
  rewrite Eq' in Eq. injection Eq as Eext. subst extid.
  assert (lexid <> bx) as Hne.
  { rewrite LEXICON_QUERY_pred in HB. unfold R.select_rowid in HB.
    destruct (find _ (R.get_table d "lexicons")) as [rl|] eqn:Efl; [|discriminate].
    injection HB as HB. apply find_some in Efl. destruct Efl as [Hrl _].
    pose proof (AP.next_rowid_fresh _ rl Hrl). lia. }
  (* the reference of every sense of L *)
  assert (forall s', In s' (all_senses L) ->
            Z.eqb (c_int (conv_cell (AC.sense_ref d' lexid m s'))) k0 = str_eqb (sid s') sid0) as Href.
  { intros s' Hs'. destruct (is_sid_spec s' (Hids s' Hs')) as [Es' _].
    unfold AC.sense_ref. rewrite (preq_VStr _ _ _ Es'), pv_vreq, Es'. cbn [AC.pcell].
    destruct (str_eqb (sid s') sid0) eqn:Esd.
    - apply str_eqb_eq in Esd.
      assert (s' = s_ext) as -> by (apply (NoDup_map_inj sid (all_senses L)); [exact Hnds|exact Hs'|exact Hsall|congruence]).
      rewrite Esid. rewrite (build_lexid_map_sense L lexid bx m Hm Hne e s_ext sid0 He Hse Hxs Eid0).
      rewrite SENSE_QUERY_pred. unfold R.select_rowid. rewrite AppS, (AC.find_app_some _ _ _ _ Ef0), Er0.
      cbn [conv_cell c_int]. apply Z.eqb_refl.
    - destruct (lexidmap_get_int m (VStr (sid s')) lexid) as [z Ez]. rewrite Ez.
      rewrite SENSE_QUERY_pred. unfold R.select_rowid.
      destruct (find (AC.syn_pred (R.CText (sid s')) z) (R.get_table d' "senses")) as [r1|] eqn:Ef1.
      + cbn [conv_cell c_int]. apply Z.eqb_neq. intro Ek. apply find_some in Ef1. destruct Ef1 as [Hr1 Hp1].
        assert (r1 = r0) as -> by (apply (NoDup_map_inj R.rowid_of _ r1 r0 Hnd' Hr1 Hr0'); congruence).
        unfold AC.syn_pred in Hp1. rewrite Ec0 in Hp1. simpl in Hp1. apply andb_true_iff in Hp1. destruct Hp1 as [Hp1 _].
        rewrite str_eqb_eq in Hp1. rewrite Hp1, str_eqb_refl in Esd. discriminate.
      + cbn [conv_cell c_int]. apply Z.eqb_neq. lia. }
  (* the API *)
  unfold Sense_examples. rewrite Ew, Esn. unfold _get_lexicon_ids. rewrite Hmode.
  unfold get_examples. change (str_eqb s_senses s_senses) with true. cbv iota beta. cbn [bind]. f_equal.
  rewrite map_map, !conv_sense_examples.
  assert (R.get_table d' "sense_examples"
          = (R.get_table d "sense_examples"
             ++ AC.number_from (R.next_rowid (R.get_table d "sense_examples"))
                  (flat_map (AC.sense_example_rows d' lexid m) (all_senses L)))%list) as ->.
  { unfold AC.App in Asex. unfold all_senses. AC.tbl_eq "sense_examples". rewrite Asex. AC.tbl_eq "sense_examples".
    do 2 f_equal. apply flat_map_ext. intro s'. unfold AC.sense_example_rows.
    rewrite (AC.sense_ref_ext d14 d'); [reflexivity|]. AC.tbl_eq "senses". reflexivity. }
  rewrite map_app, filter_app, map_app. f_equal.
  rewrite (map_filter_numbered (fun r => example_of_row (conv_row r)) _ _
             (fun r => Z.eqb (c_int (conv_cell (R.cell_at 1 r))) k0
                       && z_in (c_int (conv_cell (R.cell_at 0 r))) (wn_lexicon_ids w))
             (fun r => c_otext (conv_cell (R.cell_at 2 r)))).
  2:{ intros k1 r. unfold example_of_row. cbn [ex_owner_rowid ex_lexicon_rowid]. rewrite !col_conv_row. reflexivity. }
  2:{ intros k1 r. unfold example_of_row. cbn [ex_example]. rewrite col_conv_row. reflexivity. }
  rewrite filter_flat_map_comm.
  rewrite (AC.flat_map_ext_in_eq _ (fun s' => if str_eqb (sid s') sid0 then AC.sense_example_rows d' lexid m s' else [])).
  - rewrite (flat_map_pick (AC.sense_example_rows d' lexid m) (all_senses L) s_ext sid0 Hnds Hsall Esid).
    unfold AC.sense_example_rows. rewrite map_map. apply map_ext. intro ex.
    rewrite example_row_cells by (left; reflexivity). unfold R.cell_at. cbn [nth]. apply otext_preq.
  - intros s' Hs'. rewrite <- (Href s' Hs'). unfold AC.sense_example_rows.
    destruct (Z.eqb (c_int (conv_cell (AC.sense_ref d' lexid m s'))) k0) eqn:Ek.
    + apply filter_all_in. intros r Hr. apply in_map_iff in Hr. destruct Hr as [ex [<- _]].
      rewrite example_row_cells by (left; reflexivity). unfold R.cell_at. cbn [nth]. rewrite coerce_integer, Ek.
      cbn [conv_cell c_int andb]. apply z_in_In. rewrite Elex. exact Hsel.
    + apply filter_none_in. intros r Hr. apply in_map_iff in Hr. destruct Hr as [ex [<- _]].
      rewrite example_row_cells by (left; reflexivity). unfold R.cell_at. cbn [nth]. rewrite coerce_integer, Ek.
      reflexivity.
Qed.

(* (P4) the same for an ExternalSynset *)
Definition wf_all_synsets (L : val) : bool :=
  forallb is_sid (A._synsets L) && nodup_strb (map sid (A._synsets L)).

Theorem P4_synset_examples : forall nt L d d' bid bver bx s_ext sid0 k0 w y0,
    A.add_one_lexicon nt L d = R.Ok d' ->
    vtruthy (A.vgetk L "extends") = true ->
    A.vgetk (A.vgetk L "extends") "id" = VStr bid -> A.vgetk (A.vgetk L "extends") "version" = VStr bver ->
    A.LEXICON_QUERY d (R.CText bid) (R.CText bver) = R.CInt bx ->
    rowids_ok "synsets" d -> wf_all_synsets L = true ->
    In s_ext (A._synsets L) -> A._is_external s_ext = true -> A.vgetk s_ext "id" = VStr sid0 ->
    A.SYNSET_QUERY d (R.CText sid0) (R.CInt bx) = R.CInt k0 -> 1 <= k0 ->
    wn_default_mode w = false -> In (R.next_rowid (R.get_table d "lexicons")) (wn_lexicon_ids w) ->
    ss__id y0 = k0 -> ss_wordnet y0 = w ->
    Synset_examples (conv d') y0
    = Ok (map ex_example
              (filter (fun r => Z.eqb (ex_owner_rowid r) k0 && z_in (ex_lexicon_rowid r) (wn_lexicon_ids w))
                      (t_synset_examples (conv d)))
          ++ map (fun ex => doc_otext (A.vgetk ex "text")) (A.vlistk s_ext "examples"))%list.
Proof.
  intros nt L d d' bid bver bx s_ext sid0 k0 w y0
         H Hext Ebid Ebver HB Hrid Hwas Hse Hxs Eid0 HSQ Hk0 Hmode Hsel Esn Ew.
  (* the senses table keeps distinct rowids, and the base row is still there *)
  destruct (AC.one_lexicon_synsets nt L d d' H) as [AppS _]. cbv zeta in AppS. unfold AC.App in AppS.
  assert (NoDup (map R.rowid_of (R.get_table d' "synsets"))) as Hnd'.
  { rewrite AppS. apply NoDup_number_from; [intros r Hr; apply AP.next_rowid_fresh; exact Hr|exact Hrid]. }
  rewrite AC.SYNSET_QUERY_pred in HSQ. unfold R.select_rowid in HSQ.
  destruct (find (AC.syn_pred (R.CText sid0) bx) (R.get_table d "synsets")) as [r0|] eqn:Ef0; [|discriminate].
  injection HSQ as Er0. pose proof (find_some _ _ Ef0) as [Hr0 Hp0].
  assert (In r0 (R.get_table d' "synsets")) as Hr0' by (rewrite AppS; apply in_or_app; left; exact Hr0).
  assert (R.cell_at 1 r0 = R.CText sid0) as Ec0.
  { unfold AC.syn_pred in Hp0. apply andb_true_iff in Hp0. destruct Hp0 as [Hp0 _].
    destruct (R.cell_at 1 r0) as [|n0|a0|u0]; try discriminate. simpl in Hp0. apply str_eqb_eq in Hp0. subst a0. reflexivity. }
  unfold wf_all_synsets in Hwas. apply andb_true_iff in Hwas. destruct Hwas as [Hids Hnds].
  rewrite forallb_forall in Hids. apply nodup_strb_NoDup in Hnds.
  pose proof Hse as Hsall.
  assert (sid s_ext = sid0) as Esid by (unfold sid; rewrite Eid0; reflexivity).
  AC.one_inv H.
  destruct (AC.app_insert_lexicon _ _ _ _ _ H2) as [AppL Hlex].
  destruct (insert_lexicon_extid _ _ _ _ _ Hext H2) as [bidc [bverc [Eb1 [Eb2 Eq]]]].
  rewrite (preq_VStr _ _ _ Ebid) in Eb1. injection Eb1 as <-.
  rewrite (preq_VStr _ _ _ Ebver) in Eb2. injection Eb2 as <-.
  destruct (AC.ins_insert_synset_examples _ _ _ _ _ H16) as [Asex _].
  AC.oc_facts.
  assert (lexid = R.next_rowid (R.get_table d "lexicons")) as Elex.
  { rewrite Hlex. AC.tbl_eq "lexicons". reflexivity. }
  assert (A.LEXICON_QUERY d2 (R.CText bid) (R.CText bver) = R.CInt bx) as Eq'.
  { rewrite LEXICON_QUERY_pred in *. unfold AC.App in AppL.
    eapply (select_rowid_prefix d d2 "lexicons"); [|exact HB].
    rewrite AppL. AC.tbl_eq "lexicons". reflexivity. }
  rewrite Eq' in Eq. injection Eq as Eext. subst extid.
  assert (lexid <> bx) as Hne.
  { rewrite LEXICON_QUERY_pred in HB. unfold R.select_rowid in HB.
    destruct (find _ (R.get_table d "lexicons")) as [rl|] eqn:Efl; [|discriminate].
    injection HB as HB. apply find_some in Efl. destruct Efl as [Hrl _].
    pose proof (AP.next_rowid_fresh _ rl Hrl). lia. }
  (* the reference of every sense of L *)
  assert (forall s', In s' (A._synsets L) ->
            Z.eqb (c_int (conv_cell (AC.synset_ref d' lexid m s'))) k0 = str_eqb (sid s') sid0) as Href.
  { intros s' Hs'. destruct (is_sid_spec s' (Hids s' Hs')) as [Es' _].
    unfold AC.synset_ref. rewrite (preq_VStr _ _ _ Es'), pv_vreq, Es'. cbn [AC.pcell].
    destruct (str_eqb (sid s') sid0) eqn:Esd.
    - apply str_eqb_eq in Esd.
      assert (s' = s_ext) as -> by (apply (NoDup_map_inj sid (A._synsets L)); [exact Hnds|exact Hs'|exact Hsall|congruence]).
      rewrite Esid. rewrite (proj2 (build_lexid_map_external L lexid bx m Hm Hne) s_ext sid0 Hse Hxs Eid0).
      rewrite AC.SYNSET_QUERY_pred. unfold R.select_rowid. rewrite AppS, (AC.find_app_some _ _ _ _ Ef0), Er0.
      cbn [conv_cell c_int]. apply Z.eqb_refl.
    - destruct (lexidmap_get_int m (VStr (sid s')) lexid) as [z Ez]. rewrite Ez.
      rewrite AC.SYNSET_QUERY_pred. unfold R.select_rowid.
      destruct (find (AC.syn_pred (R.CText (sid s')) z) (R.get_table d' "synsets")) as [r1|] eqn:Ef1.
      + cbn [conv_cell c_int]. apply Z.eqb_neq. intro Ek. apply find_some in Ef1. destruct Ef1 as [Hr1 Hp1].
        assert (r1 = r0) as -> by (apply (NoDup_map_inj R.rowid_of _ r1 r0 Hnd' Hr1 Hr0'); congruence).
        unfold AC.syn_pred in Hp1. rewrite Ec0 in Hp1. simpl in Hp1. apply andb_true_iff in Hp1. destruct Hp1 as [Hp1 _].
        rewrite str_eqb_eq in Hp1. rewrite Hp1, str_eqb_refl in Esd. discriminate.
      + cbn [conv_cell c_int]. apply Z.eqb_neq. lia. }
  (* the API *)
  unfold Synset_examples. rewrite Ew, Esn. unfold _get_lexicon_ids. rewrite Hmode.
  unfold get_examples. change (str_eqb s_synsets s_senses) with false. change (str_eqb s_synsets s_synsets) with true. cbv iota beta. cbn [bind]. f_equal.
  rewrite map_map, !conv_synset_examples.
  assert (R.get_table d' "synset_examples"
          = (R.get_table d "synset_examples"
             ++ AC.number_from (R.next_rowid (R.get_table d "synset_examples"))
                  (flat_map (AC.synset_example_rows d' lexid m) (A._synsets L)))%list) as ->.
  { unfold AC.App in Asex. AC.tbl_eq "synset_examples". rewrite Asex. AC.tbl_eq "synset_examples".
    do 2 f_equal. apply flat_map_ext. intro s'. unfold AC.synset_example_rows.
    rewrite (AC.synset_ref_ext d15 d'); [reflexivity|]. AC.tbl_eq "synsets". reflexivity. }
  rewrite map_app, filter_app, map_app. f_equal.
  rewrite (map_filter_numbered (fun r => example_of_row (conv_row r)) _ _
             (fun r => Z.eqb (c_int (conv_cell (R.cell_at 1 r))) k0
                       && z_in (c_int (conv_cell (R.cell_at 0 r))) (wn_lexicon_ids w))
             (fun r => c_otext (conv_cell (R.cell_at 2 r)))).
  2:{ intros k1 r. unfold example_of_row. cbn [ex_owner_rowid ex_lexicon_rowid]. rewrite !col_conv_row. reflexivity. }
  2:{ intros k1 r. unfold example_of_row. cbn [ex_example]. rewrite col_conv_row. reflexivity. }
  rewrite filter_flat_map_comm.
  rewrite (AC.flat_map_ext_in_eq _ (fun s' => if str_eqb (sid s') sid0 then AC.synset_example_rows d' lexid m s' else [])).
  - rewrite (flat_map_pick (AC.synset_example_rows d' lexid m) (A._synsets L) s_ext sid0 Hnds Hsall Esid).
    unfold AC.synset_example_rows. rewrite map_map. apply map_ext. intro ex.
    rewrite example_row_cells by (right; reflexivity). unfold R.cell_at. cbn [nth]. apply otext_preq.
  - intros s' Hs'. rewrite <- (Href s' Hs'). unfold AC.synset_example_rows.
    destruct (Z.eqb (c_int (conv_cell (AC.synset_ref d' lexid m s'))) k0) eqn:Ek.
    + apply filter_all_in. intros r Hr. apply in_map_iff in Hr. destruct Hr as [ex [<- _]].
      rewrite example_row_cells by (right; reflexivity). unfold R.cell_at. cbn [nth]. rewrite coerce_integer, Ek.
      cbn [conv_cell c_int andb]. apply z_in_In. rewrite Elex. exact Hsel.
    + apply filter_none_in. intros r Hr. apply in_map_iff in Hr. destruct Hr as [ex [<- _]].
      rewrite example_row_cells by (right; reflexivity). unfold R.cell_at. cbn [nth]. rewrite coerce_integer, Ek.
      reflexivity.
Qed.

(* P4 on the example of Compose2 (base bb:1 and its extension xx:1, both built by the model) *)
Definition ex6_sext : val := nth 0 (A._senses ex6_e) VNone.
Definition ex6_yext : val := nth 0 (A._synsets ex6_E) VNone.
Definition ex6_sn0 : Sense :=
  match Wordnet_senses (conv ex6_d') ex6_w None None with
  | s0 :: _ => s0
  | [] => {| sn_id := []; sn_entry_id := []; sn_synset_id := []; sn_lexid := 0; sn__id := 0; sn_wordnet := ex6_w |}
  end.
Definition ex6_y0 : Synset :=
  match Wordnet_synsets (conv ex6_d') ex6_w None None None with
  | y0 :: _ => y0
  | [] => {| ss_id := []; ss_pos := None; ss_ili := None; ss_lexid := 0; ss__id := 0; ss_wordnet := ex6_w |}
  end.
Example ex6_examples_by_theorem :
  Sense_examples (conv ex6_d') ex6_sn0 = Ok [Some (S_ "base example"); Some (S_ "extension example")]
  /\ Synset_examples (conv ex6_d') ex6_y0
     = Ok [Some (S_ "base synset example"); Some (S_ "extension synset example")]
  /\ sn_id ex6_sn0 = S_ "e1-s1" /\ ss_id ex6_y0 = S_ "y1".
Proof.
  assert (A.add_one_lexicon [] ex6_E ex6_d = R.Ok ex6_d') as H1 by (vm_compute; reflexivity).
  split; [|split; [|split; reflexivity]].
  - rewrite (P4_sense_examples [] ex6_E ex6_d ex6_d' (S_ "bb") (S_ "1") 1 ex6_e ex6_sext (S_ "e1-s1") 1 ex6_w ex6_sn0 H1);
      try (vm_compute; reflexivity).
    + apply rowids_okb_ok. vm_compute. reflexivity.
    + vm_compute. left. reflexivity.
    + vm_compute. left. reflexivity.
    + lia.
    + vm_compute. right. left. reflexivity.
  - rewrite (P4_synset_examples [] ex6_E ex6_d ex6_d' (S_ "bb") (S_ "1") 1 ex6_yext (S_ "y1") 1 ex6_w ex6_y0 H1);
      try (vm_compute; reflexivity).
    + apply rowids_okb_ok. vm_compute. reflexivity.
    + vm_compute. left. reflexivity.
    + lia.
    + vm_compute. right. left. reflexivity.
Qed.

(* ====================================================================== *)
(* P3 (continued) — sense relations whose target is a sense                *)
(* ====================================================================== *)
Lemma conv_sense_relations : forall d,
    t_sense_relations (conv d) = map (fun r => relation_of_row (conv_row r)) (R.get_table d "sense_relations").
Proof. intro d. unfold conv, db_of_sx. cbn [t_sense_relations]. rewrite table_rows_conv, map_map. reflexivity. Qed.

(* the target of the relation is (the id of) one of the senses of the lexicon: _insert_sense_relations then
   files the relation under sense_relations (otherwise under sense_synset_relations) *)
Definition tos_rel (L rel : val) : bool := existsb (val_eqb (AC.pv (A.vreq rel "target"))) (AC.sense_ids_of L).
Definition srel_rows (L : val) (dd : R.db) (lx : Z) (s : val) : list (list R.cell) :=
  map (fun rel => AC.srel_row "sense_relations" A.SENSE_QUERY dd lx (AC.sr_item lx [] s rel))
      (filter (tos_rel L) (A.vlistk s "relations")).

Lemma map_filter_flat_map : forall {X0 Y0 Z0} (g : Y0 -> Z0) (p : Y0 -> bool) (f : X0 -> list Y0) l,
    map g (filter p (flat_map f l)) = flat_map (fun x => map g (filter p (f x))) l.
Proof.
  intros X0 Y0 Z0 g p f l. induction l as [|x l IH]; simpl; [reflexivity|]. rewrite filter_app, map_app, IH. reflexivity.
Qed.

Lemma sense_relations_table : forall nt L d d',
    A.add_one_lexicon nt L d = R.Ok d' -> vtruthy (A.vgetk L "extends") = false ->
    let lx := R.next_rowid (R.get_table d "lexicons") in
    AC.App "sense_relations" d d' (flat_map (srel_rows L d' lx) (flat_map A._senses (A._entries L))).
Proof.
  intros nt L d d' H Hext. AC.one_inv H.
  destruct (AC.app_insert_lexicon _ _ _ _ _ H2) as [_ Hlex].
  assert (m = []) as -> by (eapply not_extension_lexidmap; eassumption).
  destruct (AC.ins_insert_sense_relations _ _ _ _ _ H13) as (Asn1 & _ & _). cbv zeta in Asn1.
  AC.oc_facts.
  assert (lexid = R.next_rowid (R.get_table d "lexicons")) as <-.
  { rewrite Hlex. AC.tbl_eq "lexicons". reflexivity. }
  cbv zeta.
  assert (flat_map (srel_rows L d' lexid) (flat_map A._senses (A._entries L))
          = map (AC.srel_row "sense_relations" A.SENSE_QUERY d12 lexid)
                (filter (AC.to_sense (AC.sense_ids_of L)) (AC.sr_items L lexid []))) as ->.
  { unfold AC.sr_items. rewrite <- flat_map_flat_map, map_filter_flat_map. apply flat_map_ext. intro s.
    unfold srel_rows. rewrite filter_map_comm, map_map. apply map_ext_in. intros rel _.
    apply AC.srel_row_ext; [intros a b; apply AC.SENSE_QUERY_ext; AC.tbl_eq "senses"; reflexivity
                           |AC.tbl_eq "senses"; reflexivity|AC.tbl_eq "relation_types"; reflexivity]. }
  unfold AC.App in *. AC.tbl_eq "sense_relations". rewrite Asn1. AC.tbl_eq "sense_relations". reflexivity.
Qed.

Lemma srel_row_cells : forall dd lx s rel,
    AC.srel_row "sense_relations" A.SENSE_QUERY dd lx (AC.sr_item lx [] s rel)
    = [R.CInt lx; R.coerce "INTEGER" (A.SENSE_QUERY dd (AC.pcell (A.param (AC.pv (A.vreq s "id")))) (R.CInt lx));
       R.coerce "INTEGER" (A.SENSE_QUERY dd (AC.pcell (A.preq rel "target")) (R.CInt lx));
       R.coerce "INTEGER" (A.RELTYPE_QUERY dd (AC.pcell (A.preq rel "relType")));
       R.coerce "META" (AC.pcell (A.preq rel "meta"))].
Proof. reflexivity. Qed.

(* hypotheses: only the local senses of local entries carry relations; their relations have string types and
   string targets, and a target that is a sense id is the id of a local sense *)
Definition srel_ok (L : val) (rel : val) : bool :=
  match A.vgetk rel "relType", A.vgetk rel "target" with
  | VStr _, VStr t => negb (tos_rel L rel) || str_mem t (map sid (local_senses_of L))
  | _, _ => false
  end.
Definition wf_srel (L : val) : bool :=
  forallb (fun s => forallb (srel_ok L) (A.vlistk s "relations")) (local_senses_of L)
  && forallb (fun e => forallb (fun s => negb (A._is_external e || A._is_external s)
                                         || match A.vlistk s "relations" with [] => true | _ => false end)
                               (A._senses e)) (A._entries L).
Record wf_srel_facts (L : val) : Prop := {
  wsr_rel : forall s rel, In s (local_senses_of L) -> In rel (A.vlistk s "relations") ->
                          exists ty t, A.vgetk rel "relType" = VStr ty /\ A.vgetk rel "target" = VStr t
                                       /\ (tos_rel L rel = true -> exists st, In st (local_senses_of L) /\ t = sid st);
  wsr_ext : forall e s, In e (A._entries L) -> In s (A._senses e) ->
                        A._is_external e = true \/ A._is_external s = true -> A.vlistk s "relations" = []
}.
Lemma wf_srel_spec : forall L, wf_srel L = true -> wf_srel_facts L.
Proof.
  intros L H. unfold wf_srel in H. apply andb_true_iff in H. destruct H as [G1 G2].
  rewrite forallb_forall in G1, G2. constructor.
  - intros s rel Hs Hrel. specialize (G1 s Hs). rewrite forallb_forall in G1. specialize (G1 rel Hrel).
    unfold srel_ok in G1. destruct (A.vgetk rel "relType") as [| | |ty| |]; try discriminate.
    destruct (A.vgetk rel "target") as [| | |t| |]; try discriminate.
    exists ty, t. split; [reflexivity|]. split; [reflexivity|]. intro Ht. rewrite Ht in G1. cbn [negb orb] in G1.
    apply str_mem_In in G1. apply in_map_iff in G1. destruct G1 as [st [<- Hst]]. exists st. split; [exact Hst|reflexivity].
  - intros e s He Hs Hx. specialize (G2 e He). rewrite forallb_forall in G2. specialize (G2 s Hs).
    assert (A._is_external e || A._is_external s = true) as Hb by (apply orb_true_iff; exact Hx).
    rewrite Hb in G2. cbn [negb orb] in G2. destruct (A.vlistk s "relations"); [reflexivity|discriminate].
Qed.
Definition wf_db7 (d : R.db) : bool :=
  forallb (fun r => Z.ltb (rl_lexicon_rowid r) (R.next_rowid (R.get_table d "lexicons"))) (t_sense_relations (conv d)).

Theorem reltype_present_sense : forall nt L d d' e s rel ty,
    A.add_one_lexicon nt L d = R.Ok d' -> reltypes_strings L = true ->
    In e (A._entries L) -> In s (A._senses e) -> In rel (A.vlistk s "relations") -> A.vgetk rel "relType" = VStr ty ->
    found (name_pred ty) d' "relation_types".
Proof.
  intros nt L d d' e s rel ty H Hrs He Hs Hrel Ety. AC.one_inv H.
  assert (found (name_pred ty) d1 "relation_types") as Hf.
  { unfold A._update_lookup_tables in H1.
    apply AP.bind_ok in H1. destruct H1 as [rt1 [Hrt1 H1]]. apply AP.bind_ok in H1. destruct H1 as [rt2 [Hrt2 H1]].
    apply AP.bind_ok in H1. destruct H1 as [reltypes [Hst H1]]. apply AP.bind_ok in H1. destruct H1 as [d0 [F1 H1]].
    apply AP.bind_ok in H1. destruct H1 as [lexfiles [_ H1]].
    assert (found (name_pred ty) d0 "relation_types") as Hf0.
    { apply (reltypes_fold_found ty reltypes d d0 F1). right.
      unfold reltypes_strings, reltypes_of in Hrs. rewrite Hrt1, Hrt2 in Hrs. cbn [R.bind] in Hrs.
      destruct (A.all_strs (rt1 ++ rt2)) as [strs|] eqn:Eall; [|discriminate].
      pose proof (all_strs_map _ _ Eall) as El. rewrite El, AP.sorted_set_VStr in Hst. injection Hst as <-.
      apply in_map. apply AP.sorted_strs_In.
      assert (In (VStr ty) (rt1 ++ rt2)) as Hin.
      { apply in_or_app. right. apply (R_concatM_in _ _ _ e (VStr ty) Hrt2 He).
        intros zs Hzs. apply (R_concatM_in _ _ _ s (VStr ty) Hzs Hs).
        intros zs' Hzs'. apply (R_mapM_in _ _ _ rel (VStr ty) Hzs' Hrel). apply vreq_VStr. exact Ety. }
      rewrite El in Hin. apply in_map_iff in Hin. destruct Hin as [s0 [Es Hs0]]. injection Es as ->. exact Hs0. }
    revert H1. apply AP.foldM_inv with (P := fun dx => found (name_pred ty) dx "relation_types"); [|exact Hf0].
    clear. intros s x s' Hs Hstep. cbv beta in Hstep. apply AP.bind_ok in Hstep. destruct Hstep as [c [_ Hstep]].
    injection Hstep as <-. destruct (AP.insert_or_ignore_inv s "lexfiles" [c]) as [->| ->]; [exact Hs|].
    unfold found. rewrite AP.get_set_other by discriminate. exact Hs. }
  AC.oc_facts. unfold found in *. AC.tbl_eq "relation_types". exact Hf.
Qed.

Section SenseRelations.
Variables (nt : A.normtable) (L : val) (d d' : R.db).
Hypothesis Hadd : A.add_one_lexicon nt L d = R.Ok d'.
Hypothesis Hext : vtruthy (A.vgetk L "extends") = false.
Hypothesis Hdb : wf_db d = true.
Hypothesis HL : wf_lex_facts L.
Hypothesis HL5 : wf_lex5_facts L.
Hypothesis Hdb7 : wf_db7 d = true.
Hypothesis HSR : wf_srel_facts L.
Hypothesis Hrs : reltypes_strings L = true.
Hypothesis Hrt : rowids_ok "relation_types" d.
Variable w : Wordnet.
Hypothesis Hw : wn_lexicon_ids w = [R.next_rowid (R.get_table d "lexicons")].
Hypothesis Hm : wn_default_mode w = false.

Local Notation lexid := (R.next_rowid (R.get_table d "lexicons")).
Local Notation les := (A._local_entries (A._entries L)).
Local Notation nE := (R.next_rowid (R.get_table d "entries")).
Local Notation nN := (R.next_rowid (R.get_table d "senses")).
Local Notation T := (conv d').
Local Notation sitems := (sense_items_from nE les).
Local Notation X := (A.enumerate_from nN sitems).
Local Notation sitem := (Z * ((Z * val) * (Z * val)))%type.
Local Notation s_of := (fun x : (Z * val) * (Z * val) => snd (snd x)).
Local Notation Sn := (fun kx : sitem => mk_Sense w (qOf d kx)).
Local Notation typedR := (fun r : R.row => relation_of_row (conv_row r)).

Lemma X_local : forall kx, In kx X -> In (s_of (snd kx)) (local_senses_of L).
Proof.
  intros kx Hkx. rewrite <- (s_of_local L d). apply (in_map s_of). apply (enum_sense_items L d kx Hkx).
Qed.
Lemma local_in_X : forall st, In st (local_senses_of L) -> exists kx, In kx X /\ s_of (snd kx) = st.
Proof.
  intros st Hst. rewrite <- (s_of_local L d) in Hst. apply in_map_iff in Hst. destruct Hst as [x [E Hx]].
  destruct (enumerate_In_snd sitems nN x Hx) as [k0 Hk0]. exists (k0, x). split; [exact Hk0|exact E].
Qed.

(* SENSE_QUERY on the id of a local sense *)
Lemma sense_query_sid : forall kx, In kx X ->
    A.SENSE_QUERY d' (R.CText (sid (s_of (snd kx)))) (R.CInt lexid) = R.CInt (fst kx).
Proof.
  intros kx Hkx. pose proof (sense_ref_resolve nt L d d' Hadd Hext Hdb HL HL5 kx Hkx) as E.
  unfold AC.sense_ref in E. rewrite lexidmap_get_nil, (preq_VStr _ _ _ (X_sid L d HL5 kx Hkx)) in E. exact E.
Qed.

(* the target of a relation element, as one of the new sense rows *)
Definition tkx (rel : val) : option sitem :=
  find (fun kx : sitem => str_eqb (sid (s_of (snd kx))) (doc_text (A.vgetk rel "target"))) X.
Lemma tkx_spec : forall s rel, In s (local_senses_of L) -> In rel (filter (tos_rel L) (A.vlistk s "relations")) ->
    exists kx' ty, tkx rel = Some kx' /\ In kx' X /\ A.vgetk rel "target" = VStr (sid (s_of (snd kx')))
                   /\ A.vgetk rel "relType" = VStr ty.
Proof.
  intros s rel Hs Hrel. apply filter_In in Hrel. destruct Hrel as [Hrel Htos].
  destruct (wsr_rel L HSR s rel Hs Hrel) as [ty [t (Ety & Et & Hst)]]. destruct (Hst Htos) as [st [Hst' ->]].
  destruct (local_in_X st Hst') as [kx0 [Hkx0 E0]]. unfold tkx. rewrite Et. cbn [doc_text doc_otext].
  destruct (find (fun kx : sitem => str_eqb (sid (s_of (snd kx))) (sid st)) X) as [kx'|] eqn:Ef.
  - apply find_some in Ef. destruct Ef as [Hin Hp]. apply str_eqb_eq in Hp. exists kx', ty.
    rewrite Hp. repeat split; try assumption; reflexivity.
  - exfalso. pose proof (find_none _ _ Ef kx0 Hkx0) as Hn. cbv beta in Hn. rewrite E0, str_eqb_refl in Hn. discriminate.
Qed.

Definition qsrel (lx : lexicon_row) (rel : val) : q_sense_relation :=
  {| qsr_name := doc_text (A.vgetk rel "relType"); qsr_lexicon := lexicon_specifier lx;
     qsr_metadata := c_otext (conv_cell (R.coerce "META" (AC.pcell (A.preq rel "meta"))));
     qsr_sense := match tkx rel with
                  | Some kx' => qOf d kx'
                  | None => {| qs_id := []; qs_entry_id := []; qs_synset_id := []; qs_lexid := 0; qs_rowid := 0 |}
                  end |}.

Definition join_srel (rel : str) (srel : relation_row) : list q_sense_relation :=
  flat_map (fun tup : str * str * option str * Z * Z =>
              match tup with
              | (type, lexicon, metadata, _, target_rowid) =>
                  match find_by se_rowid target_rowid (t_senses T) with
                  | Some s =>
                      if z_in (se_lexicon_rowid s) [lexid]
                      then match sense_columns T s with
                           | Some (q, _, _) => [{| qsr_name := type; qsr_lexicon := lexicon;
                                                   qsr_metadata := metadata; qsr_sense := q |}]
                           | None => []
                           end
                      else []
                  | None => []
                  end
              end)
           (match find_by rt_rowid (rl_type_rowid srel) (rt T [rel]),
                  find_by lex_rowid (rl_lexicon_rowid srel) (t_lexicons T) with
            | Some t, Some lex =>
                [(rt_type t, lexicon_specifier lex, rl_metadata srel, rl_source_rowid srel, rl_target_rowid srel)]
            | _, _ => []
            end).

Lemma entry_of_local_sense : forall kx, In kx X ->
    exists e, In e (A._entries L) /\ In (s_of (snd kx)) (A._senses e).
Proof.
  intros kx Hkx. destruct (sense_items_In _ _ _ (enum_sense_items L d kx Hkx)) as [Hke Hs].
  exists (snd (fst (snd kx))). split.
  - apply local_entry_in. apply (enum_local L d _ Hke).
  - unfold A._local_senses in Hs. apply filter_In in Hs. tauto.
Qed.

Lemma join_srel_new : forall lx rel kx relv k0,
    find_by lex_rowid lexid (t_lexicons T) = Some lx -> rel <> c_star_s ->
    In kx X -> In relv (filter (tos_rel L) (A.vlistk (s_of (snd kx)) "relations")) ->
    join_srel rel (typedR (R.CInt k0 :: AC.srel_row "sense_relations" A.SENSE_QUERY d' lexid
                                                    (AC.sr_item lexid [] (s_of (snd kx)) relv)))
    = if str_eqb (doc_text (A.vgetk relv "relType")) rel then [qsrel lx relv] else [].
Proof.
  intros lx rel kx relv k0 Hlx Hstar Hkx Hrelv.
  destruct (tkx_spec _ relv (X_local kx Hkx) Hrelv) as [kx' [ty (Etk & Hkx' & Etgt & Ety)]].
  unfold join_srel. rewrite srel_row_cells. unfold relation_of_row.
  cbn [rl_type_rowid rl_lexicon_rowid rl_metadata rl_source_rowid rl_target_rowid].
  rewrite !col_conv_row. unfold R.cell_at. cbn [nth]. rewrite !coerce_integer.
  rewrite (preq_VStr _ _ _ Ety), (preq_VStr _ _ _ Etgt). cbn [AC.pcell conv_cell c_int]. rewrite Hlx.
  pose proof (reltype_join d' ty rel (add_one_lexicon_rowids_ok_rt nt L d d' Hadd Hrt)) as Hj.
  destruct (entry_of_local_sense kx Hkx) as [e [He Hse]].
  assert (In relv (A.vlistk (s_of (snd kx)) "relations")) as Hrelv0 by (apply filter_In in Hrelv; tauto).
  specialize (Hj (reltype_present_sense nt L d d' e _ relv ty Hadd Hrs He Hse Hrelv0 Ety) Hstar).
  rewrite Ety. cbn [doc_text doc_otext].
  destruct (find_by rt_rowid (c_int (conv_cell (A.RELTYPE_QUERY d' (R.CText ty)))) (rt T [rel])) as [t|];
    destruct (str_eqb ty rel); try discriminate; [|reflexivity].
  injection Hj as Et. cbn [flat_map app].
  rewrite (sense_query_sid kx' Hkx'). cbn [conv_cell c_int].
  rewrite (find_new_sense nt L d d' Hadd Hext HL kx' Hkx').
  destruct kx' as [k1 x1]. destruct (mkS_ranks L d d' k1 x1) as (_ & _ & _ & _ & El). rewrite El, z_in_single, Z.eqb_refl.
  destruct (sense_columns_new nt L d d' Hadd Hdb HL (k1, x1) (enum_sense_items L d _ Hkx')) as [ky [_ [_ Esc]]].
  rewrite Esc, app_nil_r. unfold qsrel. rewrite Etk, Ety, Et. reflexivity.
Qed.
Lemma sense_children_flat : forall {C Y0} (typed : R.row -> C) (p : C -> bool) (g : C -> list Y0)
                                   (q : list R.cell -> bool) (g' : list R.cell -> list Y0)
                                   (oldrows : R.table) n (rowsC : val -> list (list R.cell)) kx,
    (forall r, In r oldrows -> p (typed r) = false) ->
    (forall k0 r, p (typed (R.CInt k0 :: r)) = q r) -> (forall k0 r, g (typed (R.CInt k0 :: r)) = g' r) ->
    In kx X ->
    (forall kx' r, In kx' X -> In r (rowsC (s_of (snd kx'))) -> q r = Z.eqb (fst kx') (fst kx)) ->
    flat_map g (filter p (map typed (oldrows ++ AC.number_from n (flat_map rowsC (map s_of sitems)))%list))
    = flat_map g' (rowsC (s_of (snd kx))).
Proof.
  intros C Y0 typed p g q g' oldrows n rowsC kx Hold Hp Hg Hkx Hq.
  rewrite map_app, filter_app, flat_map_app. rewrite filter_none_in.
  2:{ intros c Hc. apply in_map_iff in Hc. destruct Hc as [r [<- Hr]]. apply Hold. exact Hr. }
  cbn [flat_map app]. rewrite (flat_map_filter_numbered typed p g q g' _ n Hp Hg). f_equal.
  rewrite <- (enumerate_snd sitems nN) at 1. rewrite map_map, flat_map_map.
  apply (filter_flat_map_own fst (fun kx0 : sitem => rowsC (s_of (snd kx0))) q X kx
                             (enumerate_fst_NoDup sitems nN) Hkx Hq).
Qed.

Lemma old_srelation_lex : forall r, In r (R.get_table d "sense_relations") -> rl_lexicon_rowid (typedR r) < lexid.
Proof.
  intros r Hr. unfold wf_db7 in Hdb7. rewrite forallb_forall in Hdb7. apply Z.ltb_lt. apply Hdb7.
  rewrite conv_sense_relations. apply (in_map typedR). exact Hr.
Qed.

Lemma sense_relations_new : forall lx kx rel,
    find_by lex_rowid lexid (t_lexicons T) = Some lx -> In kx X -> rel <> c_star_s ->
    get_sense_relations T (fst kx) [rel] [lexid]
    = Ok (dedup q_sense_relation_eqb
            (map (qsrel lx)
                 (filter (fun relv => str_eqb (doc_text (A.vgetk relv "relType")) rel)
                         (filter (tos_rel L) (A.vlistk (s_of (snd kx)) "relations"))))).
Proof.
  intros lx kx rel Hlx Hkx Hstar. unfold get_sense_relations. cbn [nonempty negb].
  f_equal. f_equal. unfold rel_subquery.
  rewrite (sort_by_z_const rl_source_rowid (fst kx)).
  2:{ intros x Hxin. apply filter_In in Hxin. destruct Hxin as [_ Hp]. apply andb_true_iff in Hp. destruct Hp as [Hp _].
      rewrite z_in_single in Hp. apply Z.eqb_eq in Hp. exact Hp. }
  rewrite flat_map_flat_map. rewrite (flat_map_ext _ (join_srel rel)) by (intro srel; reflexivity).
  rewrite conv_sense_relations.
  pose proof (sense_relations_table nt L d d' Hadd Hext) as HA. cbv zeta in HA. unfold AC.App in HA. rewrite HA.
  rewrite (all_senses_local L d (srel_rows L d' lexid)).
  2:{ intros e s He Hs Hxs. unfold srel_rows. rewrite (wsr_ext L HSR e s He Hs Hxs). reflexivity. }
  rewrite (sense_children_flat typedR _ (join_srel rel)
             (fun r => Z.eqb (c_int (conv_cell (R.cell_at 1 r))) (fst kx)
                       && Z.eqb (c_int (conv_cell (R.cell_at 0 r))) lexid)
             (fun r => join_srel rel (typedR (R.CInt 0 :: r))) _ _ _ kx); [| | | |exact Hkx|].
  - unfold srel_rows. rewrite flat_map_map.
    rewrite (AC.flat_map_ext_in_eq _ (fun relv => if str_eqb (doc_text (A.vgetk relv "relType")) rel
                                                  then [qsrel lx relv] else [])).
    + apply flat_map_if_single.
    + intros relv Hrelv. apply (join_srel_new lx rel kx relv 0 Hlx Hstar Hkx Hrelv).
  - intros r Hr. apply andb_false_iff. right. rewrite z_in_single. apply Z.eqb_neq.
    pose proof (old_srelation_lex r Hr) as Hlt. cbv beta in Hlt. lia.
  - intros k0 r. unfold relation_of_row. cbn [rl_source_rowid rl_lexicon_rowid].
    rewrite !col_conv_row, !z_in_single. reflexivity.
  - intros k0 r. unfold join_srel, relation_of_row.
    cbn [rl_type_rowid rl_lexicon_rowid rl_metadata rl_source_rowid rl_target_rowid]. rewrite !col_conv_row. reflexivity.
  - intros kx' r Hkx' Hr. unfold srel_rows in Hr. apply in_map_iff in Hr. destruct Hr as [relv [<- _]].
    rewrite srel_row_cells. unfold R.cell_at. cbn [nth].
    rewrite (vreq_VStr _ _ _ (X_sid L d HL5 kx' Hkx')). cbn [AC.pv A.param AC.pcell].
    rewrite (sense_query_sid kx' Hkx'), coerce_integer. cbn [conv_cell c_int].
    rewrite Z.eqb_refl. apply andb_true_r.
Qed.

Lemma sense_key_new : forall kx1 kx2, In kx1 X -> In kx2 X ->
    Sense_key_eqb (Sn kx1) (Sn kx2) = str_eqb (sid (s_of (snd kx1))) (sid (s_of (snd kx2))).
Proof.
  intros kx1 kx2 H1 H2. unfold Sense_key_eqb. cbn [mk_Sense sn__id qOf qs_rowid].
  destruct (Z.eqb (fst kx1) (fst kx2)) eqn:Ek.
  - apply Z.eqb_eq in Ek. rewrite (NoDup_map_inj fst X kx1 kx2 (enumerate_fst_NoDup sitems nN) H1 H2 Ek).
    symmetry. apply str_eqb_refl.
  - destruct (str_eqb (sid (s_of (snd kx1))) (sid (s_of (snd kx2)))) eqn:Es; [|reflexivity]. apply str_eqb_eq in Es.
    rewrite (X_sid_inj L d HL5 kx1 kx2 H1 H2 Es), Z.eqb_refl in Ek. discriminate.
Qed.

(* the sense targets that the document gives a sense for a relation type *)
Definition doc_sense_targets (s : val) (rel : str) : list str :=
  map (fun r => doc_text (A.vgetk r "target"))
      (filter (fun r => str_eqb (doc_text (A.vgetk r "relType")) rel) (filter (tos_rel L) (A.vlistk s "relations"))).

(* (P3, senses) Sense.get_related(rel): the targets of the document's SenseRelation elements of that type whose
   target is a sense, in document order, each target once *)
Theorem Sense_get_related_new : forall kx rel, In kx X -> rel <> c_star_s ->
    exists ts, Sense_get_related T (Sn kx) [rel] = Ok ts
               /\ map sn_id ts = dedup str_eqb (doc_sense_targets (s_of (snd kx)) rel)
               /\ forall t, In t ts -> In t (Wordnet_senses T w None None).
Proof.
  intros kx rel Hkx Hstar. destruct (new_lexicon_row nt L d d' Hadd) as [lx Hlx].
  set (Rsel := filter (fun relv => str_eqb (doc_text (A.vgetk relv "relType")) rel)
                      (filter (tos_rel L) (A.vlistk (s_of (snd kx)) "relations"))).
  set (F := fun relv => mk_Sense w (qsr_sense (qsrel lx relv))).
  assert (Sense_get_related T (Sn kx) [rel] = Ok (dedup Sense_key_eqb (map F Rsel))) as Eres.
  { unfold Sense_get_related, Sense_iter_sense_relations. cbn [mk_Sense sn__id sn_wordnet sn_lexid qOf qs_rowid qs_lexid].
    unfold _get_lexicon_ids. rewrite Hm, Hw, (sense_relations_new lx kx rel Hlx Hkx Hstar). cbn [bind].
    rewrite map_map. cbn [snd]. unfold unique_list.
    rewrite (dedup_dedup q_sense_relation_eqb Sense_key_eqb (fun q => mk_Sense w (qsr_sense q))).
    - rewrite map_map. reflexivity.
    - intros a b E. apply q_sense_relation_eqb_eq. exact E.
    - intro y. unfold Sense_key_eqb. apply Z.eqb_refl. }
  assert (forall relv, In relv Rsel ->
            exists kx', In kx' X /\ F relv = Sn kx' /\ doc_text (A.vgetk relv "target") = sid (s_of (snd kx'))) as HF.
  { intros relv Hrelv. unfold Rsel in Hrelv. apply filter_In in Hrelv. destruct Hrelv as [Hrelv _].
    destruct (tkx_spec _ relv (X_local kx Hkx) Hrelv) as [kx' [ty (Etk & Hkx' & Etgt & _)]]. exists kx'.
    split; [exact Hkx'|]. split; [unfold F, qsrel; cbn [qsr_sense]; rewrite Etk; reflexivity|].
    rewrite Etgt. reflexivity. }
  exists (dedup Sense_key_eqb (map F Rsel)). split; [exact Eres|]. split.
  - rewrite (dedup_map_key Sense_key_eqb str_eqb sn_id).
    + f_equal. rewrite map_map. unfold doc_sense_targets. fold Rsel. apply map_ext_in. intros relv Hrelv.
      destruct (HF relv Hrelv) as [kx' (Hkx' & E1 & E2)]. rewrite E1, E2. cbn [mk_Sense sn_id qOf qs_id]. reflexivity.
    + intros a b Ha Hb. apply in_map_iff in Ha. destruct Ha as [ra [<- Hra]]. apply in_map_iff in Hb. destruct Hb as [rb [<- Hrb]].
      destruct (HF ra Hra) as [ka (Hka & Ea & _)]. destruct (HF rb Hrb) as [kb (Hkb & Eb & _)].
      rewrite Ea, Eb, (sense_key_new ka kb Hka Hkb). cbn [mk_Sense sn_id qOf qs_id]. reflexivity.
  - intros t Ht. apply dedup_In in Ht. apply in_map_iff in Ht. destruct Ht as [relv [<- Hrelv]].
    destruct (HF relv Hrelv) as [kx' (Hkx' & E1 & _)]. rewrite E1, (K4_rows nt L d d' Hadd Hext Hdb HL w Hw).
    apply (in_map (fun k1 : sitem => mk_Sense w (qOf d k1))). exact Hkx'.
Qed.
End SenseRelations.

(* (P3, sense relations) for one relation type rel (not "*"): Sense.get_related(rel) lists the targets of the
   document's SenseRelation elements of type rel whose target is a sense, in document order, each target once;
   exactly the document's list when it does not repeat a (type, target) pair *)
Theorem P3_sense_relations : forall d r nt d' L w rel,
    A.add_lexical_resource d r nt = R.Ok d' -> A.vreq r "lexicons" = R.Ok (VList [L]) ->
    new_lexicon d L = true -> wf_db d = true -> wf_lex L = true -> wf_lex5 L = true ->
    wn_lexicon_ids w = [R.next_rowid (R.get_table d "lexicons")] -> wn_default_mode w = false ->
    wf_db7 d = true -> wf_srel L = true -> reltypes_strings L = true -> rowids_okb "relation_types" d = true ->
    rel <> c_star_s ->
    Forall2 (fun (sn : Sense) (es : val * val) =>
               exists ts, Sense_get_related (conv d') sn [rel] = Ok ts
                          /\ map sn_id ts = dedup str_eqb (doc_sense_targets L (snd es) rel)
                          /\ (NoDup (doc_sense_targets L (snd es) rel) -> map sn_id ts = doc_sense_targets L (snd es) rel)
                          /\ forall t, In t ts -> In t (Wordnet_senses (conv d') w None None))
            (Wordnet_senses (conv d') w None None) (doc_senses L).
Proof.
  intros d r nt d' L w rel H Hr Hn Hdb Hl Hl5 Hw Hm Hdb7 Hws Hrs Hrt Hstar.
  pose proof (single_new_lexicon d r nt d' L H Hr Hn) as Hadd.
  pose proof (new_lexicon_not_extension d L Hn) as Hext.
  pose proof (wf_lex_spec L Hl) as HL.
  pose proof (K4_rows nt L d d' Hadd Hext Hdb HL w Hw) as EK.
  match goal with |- Forall2 ?P ?l ?l' => cut (forall l0, l0 = l -> Forall2 P l0 l'); [intro Hc; apply Hc; reflexivity|] end.
  intros l0 El0. rewrite EK in El0. subst l0.
  unfold doc_senses. rewrite <- (sense_items_doc _ (R.next_rowid (R.get_table d "entries"))).
  apply (Forall2_enum_map (fun (sn : Sense) (es : val * val) =>
            exists ts, Sense_get_related (conv d') sn [rel] = Ok ts
                       /\ map sn_id ts = dedup str_eqb (doc_sense_targets L (snd es) rel)
                       /\ (NoDup (doc_sense_targets L (snd es) rel) -> map sn_id ts = doc_sense_targets L (snd es) rel)
                       /\ forall t, In t ts -> In t (Wordnet_senses (conv d') w None None))).
  intros kx Hkx. cbn [snd].
  destruct (Sense_get_related_new nt L d d' Hadd Hext Hdb HL (wf_lex5_spec L Hl5) Hdb7 (wf_srel_spec L Hws) Hrs
                                  (rowids_okb_ok _ _ Hrt) w Hw Hm kx rel Hkx Hstar) as [ts (E1 & E2 & E3)].
  exists ts. split; [exact E1|]. split; [exact E2|]. split; [|exact E3].
  intro Hnd. rewrite E2. apply dedup_NoDup_id. exact Hnd.
Qed.

(* ====================================================================== *)
(* P3 (continued) — sense relations whose target is a synset               *)
(* ====================================================================== *)
Lemma conv_sense_synset_relations : forall d,
    t_sense_synset_relations (conv d)
    = map (fun r => relation_of_row (conv_row r)) (R.get_table d "sense_synset_relations").
Proof. intro d. unfold conv, db_of_sx. cbn [t_sense_synset_relations]. rewrite table_rows_conv, map_map. reflexivity. Qed.

Definition ssrel_rows (L : val) (dd : R.db) (lx : Z) (s : val) : list (list R.cell) :=
  map (fun rel => AC.srel_row "sense_synset_relations" A.SYNSET_QUERY dd lx (AC.sr_item lx [] s rel))
      (filter (fun rel => negb (tos_rel L rel)) (A.vlistk s "relations")).

Lemma sense_synset_relations_table : forall nt L d d',
    A.add_one_lexicon nt L d = R.Ok d' -> vtruthy (A.vgetk L "extends") = false ->
    let lx := R.next_rowid (R.get_table d "lexicons") in
    AC.App "sense_synset_relations" d d' (flat_map (ssrel_rows L d' lx) (flat_map A._senses (A._entries L))).
Proof.
  intros nt L d d' H Hext. AC.one_inv H.
  destruct (AC.app_insert_lexicon _ _ _ _ _ H2) as [_ Hlex].
  assert (m = []) as -> by (eapply not_extension_lexidmap; eassumption).
  destruct (AC.ins_insert_sense_relations _ _ _ _ _ H13) as (_ & Asn2 & _). cbv zeta in Asn2.
  AC.oc_facts.
  assert (lexid = R.next_rowid (R.get_table d "lexicons")) as <-.
  { rewrite Hlex. AC.tbl_eq "lexicons". reflexivity. }
  cbv zeta.
  assert (flat_map (ssrel_rows L d' lexid) (flat_map A._senses (A._entries L))
          = map (AC.srel_row "sense_synset_relations" A.SYNSET_QUERY d12 lexid)
                (filter (fun it => negb (AC.to_sense (AC.sense_ids_of L) it)) (AC.sr_items L lexid []))) as ->.
  { unfold AC.sr_items. rewrite <- flat_map_flat_map, map_filter_flat_map. apply flat_map_ext. intro s.
    unfold ssrel_rows. rewrite filter_map_comm, map_map. apply map_ext_in. intros rel _.
    apply AC.srel_row_ext; [intros a b; apply AC.SYNSET_QUERY_ext; AC.tbl_eq "synsets"; reflexivity
                           |AC.tbl_eq "senses"; reflexivity|AC.tbl_eq "relation_types"; reflexivity]. }
  unfold AC.App in *. AC.tbl_eq "sense_synset_relations". rewrite Asn2. AC.tbl_eq "sense_synset_relations". reflexivity.
Qed.
Lemma ssrel_row_cells : forall dd lx s rel,
    AC.srel_row "sense_synset_relations" A.SYNSET_QUERY dd lx (AC.sr_item lx [] s rel)
    = [R.CInt lx; R.coerce "INTEGER" (A.SENSE_QUERY dd (AC.pcell (A.param (AC.pv (A.vreq s "id")))) (R.CInt lx));
       R.coerce "INTEGER" (A.SYNSET_QUERY dd (AC.pcell (A.preq rel "target")) (R.CInt lx));
       R.coerce "INTEGER" (A.RELTYPE_QUERY dd (AC.pcell (A.preq rel "relType")));
       R.coerce "META" (AC.pcell (A.preq rel "meta"))].
Proof. reflexivity. Qed.

(* a relation of a local sense whose target is not a sense id points to a local synset *)
Definition ssrel_ok (L : val) (rel : val) : bool :=
  match A.vgetk rel "relType", A.vgetk rel "target" with
  | VStr _, VStr t => tos_rel L rel || str_mem t (map sid (A._local_synsets (A._synsets L)))
  | _, _ => false
  end.
Definition wf_ssrel (L : val) : bool :=
  forallb (fun s => forallb (ssrel_ok L) (A.vlistk s "relations")) (local_senses_of L).
Definition wf_db8 (d : R.db) : bool :=
  forallb (fun r => Z.ltb (rl_lexicon_rowid r) (R.next_rowid (R.get_table d "lexicons")))
          (t_sense_synset_relations (conv d)).

Section SenseSynsetRelations.
Variables (nt : A.normtable) (L : val) (d d' : R.db).
Hypothesis Hadd : A.add_one_lexicon nt L d = R.Ok d'.
Hypothesis Hext : vtruthy (A.vgetk L "extends") = false.
Hypothesis Hdb : wf_db d = true.
Hypothesis HL : wf_lex_facts L.
Hypothesis HL5 : wf_lex5_facts L.
Hypothesis Hdb8 : wf_db8 d = true.
Hypothesis HSR : wf_srel_facts L.
Hypothesis HSS : wf_ssrel L = true.
Hypothesis Hrs : reltypes_strings L = true.
Hypothesis Hrt : rowids_ok "relation_types" d.
Variable w : Wordnet.
Hypothesis Hw : wn_lexicon_ids w = [R.next_rowid (R.get_table d "lexicons")].
Hypothesis Hm : wn_default_mode w = false.

Local Notation lexid := (R.next_rowid (R.get_table d "lexicons")).
Local Notation les := (A._local_entries (A._entries L)).
Local Notation lss := (A._local_synsets (A._synsets L)).
Local Notation nE := (R.next_rowid (R.get_table d "entries")).
Local Notation nS := (R.next_rowid (R.get_table d "synsets")).
Local Notation nN := (R.next_rowid (R.get_table d "senses")).
Local Notation T := (conv d').
Local Notation sitems := (sense_items_from nE les).
Local Notation X := (A.enumerate_from nN sitems).
Local Notation Y := (A.enumerate_from nS lss).
Local Notation sitem := (Z * ((Z * val) * (Z * val)))%type.
Local Notation s_of := (fun x : (Z * val) * (Z * val) => snd (snd x)).
Local Notation Sn := (fun kx : sitem => mk_Sense w (qOf d kx)).
Local Notation typedR := (fun r : R.row => relation_of_row (conv_row r)).
Local Notation nts := (fun rel : val => negb (tos_rel L rel)).

Lemma tky_spec_s : forall s rel, In s (local_senses_of L) -> In rel (filter nts (A.vlistk s "relations")) ->
    exists ky' ty, tky L d rel = Some ky' /\ In ky' Y /\ A.vgetk rel "target" = VStr (sid (snd ky'))
                   /\ A.vgetk rel "relType" = VStr ty.
Proof.
  intros s rel Hs Hrel. apply filter_In in Hrel. destruct Hrel as [Hrel Hnt]. apply negb_true_iff in Hnt.
  unfold wf_ssrel in HSS. rewrite forallb_forall in HSS. specialize (HSS s Hs). rewrite forallb_forall in HSS.
  specialize (HSS rel Hrel). unfold ssrel_ok in HSS.
  destruct (A.vgetk rel "relType") as [| | |ty| |] eqn:Ety; try discriminate.
  destruct (A.vgetk rel "target") as [| | |t| |] eqn:Et; try discriminate.
  rewrite Hnt in HSS. cbn [orb] in HSS. apply str_mem_In in HSS. apply in_map_iff in HSS. destruct HSS as [tt [<- Htt]].
  destruct (enumerate_In_snd lss nS tt Htt) as [k0 Hk0]. unfold tky. rewrite Et. cbn [doc_text doc_otext].
  destruct (find (fun ky' : Z * val => str_eqb (sid (snd ky')) (sid tt)) Y) as [ky'|] eqn:Ef.
  - apply find_some in Ef. destruct Ef as [Hin Hp]. apply str_eqb_eq in Hp. exists ky', ty.
    rewrite Hp. repeat split; try assumption; reflexivity.
  - exfalso. pose proof (find_none _ _ Ef (k0, tt) Hk0) as Hn. cbn [snd] in Hn. rewrite str_eqb_refl in Hn. discriminate.
Qed.

Definition qssrel (lx : lexicon_row) (kx : sitem) (rel : val) : q_synset_relation :=
  {| qyr_name := doc_text (A.vgetk rel "relType"); qyr_lexicon := lexicon_specifier lx;
     qyr_metadata := c_otext (conv_cell (R.coerce "META" (AC.pcell (A.preq rel "meta"))));
     qyr_src_rowid := fst kx;
     qyr_synset := match tky L d rel with
                   | Some ky' => synset_columns T (mkY d d' ky')
                   | None => {| qy_id := []; qy_pos := None; qy_ili := None; qy_lexid := 0; qy_rowid := 0 |}
                   end |}.

Lemma join_ssrel_new : forall lx rel kx relv k0,
    find_by lex_rowid lexid (t_lexicons T) = Some lx -> rel <> c_star_s ->
    In kx X -> In relv (filter nts (A.vlistk (s_of (snd kx)) "relations")) ->
    join_rel d d' rel (typedR (R.CInt k0 :: AC.srel_row "sense_synset_relations" A.SYNSET_QUERY d' lexid
                                                        (AC.sr_item lexid [] (s_of (snd kx)) relv)))
    = if str_eqb (doc_text (A.vgetk relv "relType")) rel then [qssrel lx kx relv] else [].
Proof.
  intros lx rel kx relv k0 Hlx Hstar Hkx Hrelv.
  destruct (tky_spec_s _ relv (X_local L d kx Hkx) Hrelv) as [ky' [ty (Etk & Hky' & Etgt & Ety)]].
  unfold join_rel. rewrite ssrel_row_cells. unfold relation_of_row.
  cbn [rl_type_rowid rl_lexicon_rowid rl_metadata rl_source_rowid rl_target_rowid].
  rewrite !col_conv_row. unfold R.cell_at. cbn [nth]. rewrite !coerce_integer.
  rewrite (preq_VStr _ _ _ Ety), (preq_VStr _ _ _ Etgt). cbn [AC.pcell conv_cell c_int]. rewrite Hlx.
  pose proof (reltype_join d' ty rel (add_one_lexicon_rowids_ok_rt nt L d d' Hadd Hrt)) as Hj.
  destruct (entry_of_local_sense L d kx Hkx) as [e [He Hse]].
  assert (In relv (A.vlistk (s_of (snd kx)) "relations")) as Hrelv0 by (apply filter_In in Hrelv; tauto).
  specialize (Hj (reltype_present_sense nt L d d' e _ relv ty Hadd Hrs He Hse Hrelv0 Ety) Hstar).
  rewrite Ety. cbn [doc_text doc_otext].
  destruct (find_by rt_rowid (c_int (conv_cell (A.RELTYPE_QUERY d' (R.CText ty)))) (rt T [rel])) as [t|];
    destruct (str_eqb ty rel); try discriminate; [|reflexivity].
  injection Hj as Et. cbn [flat_map app].
  rewrite (synset_query_resolve nt L d d' Hadd Hdb HL (fst ky') (snd ky')) by (destruct ky'; exact Hky').
  cbn [conv_cell c_int]. rewrite (find_new_synset nt L d d' Hadd ky' Hky'), mkY_lex, z_in_single, Z.eqb_refl.
  rewrite app_nil_r. unfold qssrel. rewrite Etk, Ety, Et. cbn [doc_text doc_otext].
  rewrite (vreq_VStr _ _ _ (X_sid L d HL5 kx Hkx)). cbn [AC.pv A.param AC.pcell].
  rewrite (sense_query_sid nt L d d' Hadd Hext Hdb HL HL5 kx Hkx). cbn [conv_cell c_int]. reflexivity.
Qed.

Lemma old_ssrelation_lex : forall r, In r (R.get_table d "sense_synset_relations") -> rl_lexicon_rowid (typedR r) < lexid.
Proof.
  intros r Hr. unfold wf_db8 in Hdb8. rewrite forallb_forall in Hdb8. apply Z.ltb_lt. apply Hdb8.
  rewrite conv_sense_synset_relations. apply (in_map typedR). exact Hr.
Qed.

Lemma sense_synset_relations_new : forall lx kx rel,
    find_by lex_rowid lexid (t_lexicons T) = Some lx -> In kx X -> rel <> c_star_s ->
    get_sense_synset_relations T (fst kx) [rel] [lexid]
    = Ok (dedup q_synset_relation_eqb
            (map (qssrel lx kx)
                 (filter (fun relv => str_eqb (doc_text (A.vgetk relv "relType")) rel)
                         (filter nts (A.vlistk (s_of (snd kx)) "relations"))))).
Proof.
  intros lx kx rel Hlx Hkx Hstar. unfold get_sense_synset_relations, synset_target_query. cbn [nonempty negb].
  f_equal. f_equal. unfold rel_subquery.
  rewrite (sort_by_z_const rl_source_rowid (fst kx)).
  2:{ intros x Hxin. apply filter_In in Hxin. destruct Hxin as [_ Hp]. apply andb_true_iff in Hp. destruct Hp as [Hp _].
      rewrite z_in_single in Hp. apply Z.eqb_eq in Hp. exact Hp. }
  rewrite flat_map_flat_map. rewrite (flat_map_ext _ (join_rel d d' rel)) by (intro srel; reflexivity).
  rewrite conv_sense_synset_relations.
  pose proof (sense_synset_relations_table nt L d d' Hadd Hext) as HA. cbv zeta in HA. unfold AC.App in HA. rewrite HA.
  rewrite (all_senses_local L d (ssrel_rows L d' lexid)).
  2:{ intros e s He Hs Hxs. unfold ssrel_rows. rewrite (wsr_ext L HSR e s He Hs Hxs). reflexivity. }
  rewrite (sense_children_flat L d typedR _ (join_rel d d' rel)
             (fun r => Z.eqb (c_int (conv_cell (R.cell_at 1 r))) (fst kx)
                       && Z.eqb (c_int (conv_cell (R.cell_at 0 r))) lexid)
             (fun r => join_rel d d' rel (typedR (R.CInt 0 :: r))) _ _ _ kx); [| | | |exact Hkx|].
  - unfold ssrel_rows. rewrite flat_map_map.
    rewrite (AC.flat_map_ext_in_eq _ (fun relv => if str_eqb (doc_text (A.vgetk relv "relType")) rel
                                                  then [qssrel lx kx relv] else [])).
    + apply flat_map_if_single.
    + intros relv Hrelv. apply (join_ssrel_new lx rel kx relv 0 Hlx Hstar Hkx Hrelv).
  - intros r Hr. apply andb_false_iff. right. rewrite z_in_single. apply Z.eqb_neq.
    pose proof (old_ssrelation_lex r Hr) as Hlt. cbv beta in Hlt. lia.
  - intros k0 r. unfold relation_of_row. cbn [rl_source_rowid rl_lexicon_rowid].
    rewrite !col_conv_row, !z_in_single. reflexivity.
  - intros k0 r. unfold join_rel, relation_of_row.
    cbn [rl_type_rowid rl_lexicon_rowid rl_metadata rl_source_rowid rl_target_rowid]. rewrite !col_conv_row. reflexivity.
  - intros kx' r Hkx' Hr. unfold ssrel_rows in Hr. apply in_map_iff in Hr. destruct Hr as [relv [<- _]].
    rewrite ssrel_row_cells. unfold R.cell_at. cbn [nth].
    rewrite (vreq_VStr _ _ _ (X_sid L d HL5 kx' Hkx')). cbn [AC.pv A.param AC.pcell].
    rewrite (sense_query_sid nt L d d' Hadd Hext Hdb HL HL5 kx' Hkx'), coerce_integer. cbn [conv_cell c_int].
    rewrite Z.eqb_refl. apply andb_true_r.
Qed.

Definition doc_synset_targets (s : val) (rel : str) : list str :=
  map (fun r => doc_text (A.vgetk r "target"))
      (filter (fun r => str_eqb (doc_text (A.vgetk r "relType")) rel) (filter nts (A.vlistk s "relations"))).

(* (P3, senses -> synsets) Sense.get_related_synsets(rel) *)
Theorem Sense_get_related_synsets_new : forall kx rel, In kx X -> rel <> c_star_s ->
    exists ts, Sense_get_related_synsets T (Sn kx) [rel] = Ok ts
               /\ map ss_id ts = dedup str_eqb (doc_synset_targets (s_of (snd kx)) rel)
               /\ forall t, In t ts -> In t (Wordnet_synsets T w None None None).
Proof.
  intros kx rel Hkx Hstar. destruct (new_lexicon_row nt L d d' Hadd) as [lx Hlx].
  set (Rsel := filter (fun relv => str_eqb (doc_text (A.vgetk relv "relType")) rel)
                      (filter nts (A.vlistk (s_of (snd kx)) "relations"))).
  set (F := fun relv => mk_Synset w (qyr_synset (qssrel lx kx relv))).
  assert (Sense_get_related_synsets T (Sn kx) [rel] = Ok (dedup Synset_key_eqb (map F Rsel))) as Eres.
  { unfold Sense_get_related_synsets, Sense_iter_sense_synset_relations.
    cbn [mk_Sense sn__id sn_wordnet sn_lexid qOf qs_rowid qs_lexid].
    unfold _get_lexicon_ids. rewrite Hm, Hw, (sense_synset_relations_new lx kx rel Hlx Hkx Hstar). cbn [bind].
    rewrite map_map. cbn [snd]. unfold unique_list.
    rewrite (dedup_dedup q_synset_relation_eqb Synset_key_eqb (fun q => mk_Synset w (qyr_synset q))).
    - rewrite map_map. reflexivity.
    - intros a b E. apply q_synset_relation_eqb_eq. exact E.
    - apply Synset_key_eqb_refl. }
  assert (forall relv, In relv Rsel ->
            exists ky', In ky' Y /\ F relv = mk_Synset w (synset_columns T (mkY d d' ky'))
                        /\ doc_text (A.vgetk relv "target") = sid (snd ky')) as HF.
  { intros relv Hrelv. unfold Rsel in Hrelv. apply filter_In in Hrelv. destruct Hrelv as [Hrelv _].
    destruct (tky_spec_s _ relv (X_local L d kx Hkx) Hrelv) as [ky' [ty (Etk & Hky' & Etgt & _)]]. exists ky'.
    split; [exact Hky'|]. split; [unfold F, qssrel; cbn [qyr_synset]; rewrite Etk; reflexivity|].
    rewrite Etgt. reflexivity. }
  exists (dedup Synset_key_eqb (map F Rsel)). split; [exact Eres|]. split.
  - rewrite (dedup_map_key Synset_key_eqb str_eqb ss_id).
    + f_equal. rewrite map_map. unfold doc_synset_targets. fold Rsel. apply map_ext_in. intros relv Hrelv.
      destruct (HF relv Hrelv) as [ky' (_ & E1 & E2)]. rewrite E1, E2. cbn [mk_Synset ss_id synset_columns qy_id].
      apply mkY_id.
    + intros a b Ha Hb. apply in_map_iff in Ha. destruct Ha as [ra [<- Hra]]. apply in_map_iff in Hb. destruct Hb as [rb [<- Hrb]].
      destruct (HF ra Hra) as [ka (Hka & Ea & _)]. destruct (HF rb Hrb) as [kb (Hkb & Eb & _)].
      rewrite Ea, Eb, (key_new L d d' HL w ka kb Hka Hkb). cbn [mk_Synset ss_id synset_columns qy_id]. rewrite !mkY_id. reflexivity.
  - intros t Ht. apply dedup_In in Ht. apply in_map_iff in Ht. destruct Ht as [relv [<- Hrelv]].
    destruct (HF relv Hrelv) as [ky' (Hky' & E1 & _)]. rewrite E1, (K2_rows nt L d d' w Hadd Hdb Hw).
    apply (in_map (doc_Synset T w d' lexid)). exact Hky'.
Qed.
End SenseSynsetRelations.

(* (P3, sense -> synset relations) Sense.get_related_synsets(rel): the targets of the SenseRelation elements of
   type rel whose target is not a sense id (hence a synset), in document order, each target once *)
Theorem P3_sense_synset_relations : forall d r nt d' L w rel,
    A.add_lexical_resource d r nt = R.Ok d' -> A.vreq r "lexicons" = R.Ok (VList [L]) ->
    new_lexicon d L = true -> wf_db d = true -> wf_lex L = true -> wf_lex5 L = true ->
    wn_lexicon_ids w = [R.next_rowid (R.get_table d "lexicons")] -> wn_default_mode w = false ->
    wf_db8 d = true -> wf_srel L = true -> wf_ssrel L = true -> reltypes_strings L = true ->
    rowids_okb "relation_types" d = true -> rel <> c_star_s ->
    Forall2 (fun (sn : Sense) (es : val * val) =>
               exists ts, Sense_get_related_synsets (conv d') sn [rel] = Ok ts
                          /\ map ss_id ts = dedup str_eqb (doc_synset_targets L (snd es) rel)
                          /\ (NoDup (doc_synset_targets L (snd es) rel) -> map ss_id ts = doc_synset_targets L (snd es) rel)
                          /\ forall t, In t ts -> In t (Wordnet_synsets (conv d') w None None None))
            (Wordnet_senses (conv d') w None None) (doc_senses L).
Proof.
  intros d r nt d' L w rel H Hr Hn Hdb Hl Hl5 Hw Hm Hdb8 Hws Hwss Hrs Hrt Hstar.
  pose proof (single_new_lexicon d r nt d' L H Hr Hn) as Hadd.
  pose proof (new_lexicon_not_extension d L Hn) as Hext.
  pose proof (wf_lex_spec L Hl) as HL.
  rewrite (K4_rows nt L d d' Hadd Hext Hdb HL w Hw).
  unfold doc_senses. rewrite <- (sense_items_doc _ (R.next_rowid (R.get_table d "entries"))).
  apply (Forall2_enum_map (fun (sn : Sense) (es : val * val) =>
            exists ts, Sense_get_related_synsets (conv d') sn [rel] = Ok ts
                       /\ map ss_id ts = dedup str_eqb (doc_synset_targets L (snd es) rel)
                       /\ (NoDup (doc_synset_targets L (snd es) rel) -> map ss_id ts = doc_synset_targets L (snd es) rel)
                       /\ forall t, In t ts -> In t (Wordnet_synsets (conv d') w None None None))).
  intros kx Hkx. cbn [snd].
  destruct (Sense_get_related_synsets_new nt L d d' Hadd Hext Hdb HL (wf_lex5_spec L Hl5) Hdb8 (wf_srel_spec L Hws) Hwss Hrs
                                          (rowids_okb_ok _ _ Hrt) w Hw Hm kx rel Hkx Hstar) as [ts (E1 & E2 & E3)].
  exists ts. split; [exact E1|]. split; [exact E2|]. split; [|exact E3].
  intro Hnd. rewrite E2. apply dedup_NoDup_id. exact Hnd.
Qed.

(* ---------- worked example for the sense relations ---------- *)
(* the lexicon ss:1 added to Compose.ex_d: the sense w1-s1 has antonym -> w2-s1 twice (the second differs in
   metadata only), antonym -> w1-s2, similar -> w1-s2 and domain_topic -> the synset y2 *)
Definition ex8_L : val :=
  AP.vd [("id", A.vs "ss"); ("label", A.vs "SRel"); ("language", A.vs "en"); ("email", A.vs "s@s.s");
      ("license", A.vs "CC"); ("version", A.vs "1"); ("meta", VNone);
      ("entries", VList [
         AP.vd [("id", A.vs "w1"); ("lemma", AP.vd [("writtenForm", A.vs "hot"); ("partOfSpeech", A.vs "a")]);
                ("meta", VNone);
                ("senses", VList [
                   AP.vd [("id", A.vs "w1-s1"); ("synset", A.vs "y1"); ("meta", VNone);
                          ("relations", VList [AP.vd [("relType", A.vs "antonym"); ("target", A.vs "w2-s1"); ("meta", VNone)];
                                               AP.vd [("relType", A.vs "domain_topic"); ("target", A.vs "y2"); ("meta", VNone)];
                                               AP.vd [("relType", A.vs "similar"); ("target", A.vs "w1-s2"); ("meta", VNone)];
                                               AP.vd [("relType", A.vs "antonym"); ("target", A.vs "w1-s2"); ("meta", VNone)];
                                               AP.vd [("relType", A.vs "antonym"); ("target", A.vs "w2-s1");
                                                      ("meta", AP.vd [("dc:type", A.vs "x")])]])];
                   AP.vd [("id", A.vs "w1-s2"); ("synset", A.vs "y2"); ("meta", VNone)]])];
         AP.vd [("id", A.vs "w2"); ("lemma", AP.vd [("writtenForm", A.vs "cold"); ("partOfSpeech", A.vs "a")]);
                ("meta", VNone);
                ("senses", VList [
                   AP.vd [("id", A.vs "w2-s1"); ("synset", A.vs "y2"); ("meta", VNone);
                          ("relations", VList [AP.vd [("relType", A.vs "antonym"); ("target", A.vs "w1-s1");
                                                      ("meta", VNone)]])]])]]);
      ("synsets", VList [
         AP.vd [("id", A.vs "y1"); ("ili", A.vs ""); ("partOfSpeech", A.vs "a"); ("meta", VNone)];
         AP.vd [("id", A.vs "y2"); ("ili", A.vs ""); ("partOfSpeech", A.vs "a"); ("meta", VNone)]])].
Definition ex8_r : val := AP.ex_resource [ex8_L].
Definition ex8_d' : R.db := match A.add_lexical_resource ex_d ex8_r [] with R.Ok d0 => d0 | _ => [] end.
Definition ex8_w : Wordnet :=
  match Wordnet_init (conv ex8_d') (Some (S_ "ss:1")) None None false [] None true with
  | Ok w0 => w0
  | _ => {| wn_lexicon_ids := []; wn_expanded_ids := []; wn_default_mode := true; wn_warned := false;
            wn_normalizer := false; wn_norm_table := []; wn_lemmatizer := None; wn_search_all_forms := false |}
  end.
Example ex8_hypotheses :
  A.add_lexical_resource ex_d ex8_r [] = R.Ok ex8_d' /\ A.vreq ex8_r "lexicons" = R.Ok (VList [ex8_L])
  /\ new_lexicon ex_d ex8_L = true /\ wf_db ex_d = true /\ wf_lex ex8_L = true /\ wf_lex5 ex8_L = true
  /\ wf_db7 ex_d = true /\ wf_db8 ex_d = true /\ wf_srel ex8_L = true /\ wf_ssrel ex8_L = true
  /\ reltypes_strings ex8_L = true /\ rowids_okb "relation_types" ex_d = true
  /\ wn_lexicon_ids ex8_w = [R.next_rowid (R.get_table ex_d "lexicons")] /\ wn_default_mode ex8_w = false.
Proof. vm_compute. repeat split. Qed.
Example ex8_by_evaluation :
  let T := conv ex8_d' in
  map (fun s => (sn_id s,
                 RES (Sense_get_related T s [S_ "antonym"]) (fun ts => L (map (fun t => sx_of_str (sn_id t)) ts)),
                 RES (Sense_get_related_synsets T s [S_ "domain_topic"]) (fun ts => L (map (fun t => sx_of_str (ss_id t)) ts))))
      (Wordnet_senses T ex8_w None None)
  = [(S_ "w1-s1", L [sx_of_str (S_ "w2-s1"); sx_of_str (S_ "w1-s2")], L [sx_of_str (S_ "y2")]);
     (S_ "w1-s2", L [], L []);
     (S_ "w2-s1", L [sx_of_str (S_ "w1-s1")], L [])].
Proof. vm_compute. reflexivity. Qed.
Example ex8_by_theorems :
  let T := conv ex8_d' in
  Forall2 (fun sn (es : val * val) =>
             exists ts, Sense_get_related T sn [S_ "antonym"] = Ok ts
                        /\ map sn_id ts = dedup str_eqb (doc_sense_targets ex8_L (snd es) (S_ "antonym")))
          (Wordnet_senses T ex8_w None None) (doc_senses ex8_L)
  /\ Forall2 (fun sn (es : val * val) =>
                exists ts, Sense_get_related_synsets T sn [S_ "domain_topic"] = Ok ts
                           /\ map ss_id ts = dedup str_eqb (doc_synset_targets ex8_L (snd es) (S_ "domain_topic")))
             (Wordnet_senses T ex8_w None None) (doc_senses ex8_L)
  /\ map (fun es : val * val => (doc_sense_targets ex8_L (snd es) (S_ "antonym"),
                                 doc_synset_targets ex8_L (snd es) (S_ "domain_topic"))) (doc_senses ex8_L)
     = [([S_ "w2-s1"; S_ "w1-s2"; S_ "w2-s1"], [S_ "y2"]); ([], []); ([S_ "w1-s1"], [])].
Proof.
  destruct ex8_hypotheses as (H & Hr & Hn & Hdb & Hl & Hl5 & Hdb7 & Hdb8 & Hws & Hwss & Hrs & Hrt & Hw & Hm).
  cbv zeta. split; [|split].
  - eapply Forall2_impl;
      [|exact (P3_sense_relations ex_d ex8_r [] ex8_d' ex8_L ex8_w (S_ "antonym") H Hr Hn Hdb Hl Hl5 Hw Hm
                                  Hdb7 Hws Hrs Hrt ltac:(discriminate))].
    intros y ss HE. destruct HE as [ts (E1 & E2 & _)]. exists ts. split; assumption.
  - eapply Forall2_impl;
      [|exact (P3_sense_synset_relations ex_d ex8_r [] ex8_d' ex8_L ex8_w (S_ "domain_topic") H Hr Hn Hdb Hl Hl5 Hw Hm
                                         Hdb8 Hws Hwss Hrs Hrt ltac:(discriminate))].
    intros y ss HE. destruct HE as [ts (E1 & E2 & _)]. exists ts. split; assumption.
  - vm_compute. reflexivity.
Qed.

(* ====================================================================== *)
Print Assumptions ili_present.
Print Assumptions lexfile_present.
Print Assumptions K5c_synsets_exact.
Print Assumptions Sense_word_exact.
Print Assumptions P2_synset_words_lemmas.
Print Assumptions P3_synset_relations.
Print Assumptions P3_sense_relations.
Print Assumptions P3_sense_synset_relations.
Print Assumptions P4_sense_examples.
Print Assumptions P4_synset_examples.
Print Assumptions ex7_by_theorems.
Print Assumptions ex8_by_theorems.
Print Assumptions ex6_examples_by_theorem.
Print Assumptions presupposed_status_needed.
