(* Proofs/TaxSpec.v — the graph-theoretic vocabulary in which C13..C15 are
   stated: hypernym chains, maximal simple chains, reachability, distance. *)
From Coq Require Import ZArith List Bool Lia.
Import ListNotations.
Require Import WnV.Base.Sx WnV.Model.Taxonomy.

Section Spec.
  Variable hyp : node -> list node.

  (* [chain x p]: p = [y1; ...; yk] with x -> y1 -> ... -> yk hypernym steps *)
  Inductive chain : node -> list node -> Prop :=
  | chain_nil : forall x, chain x []
  | chain_cons : forall x t p, In t (hyp x) -> chain t p -> chain x (t :: p).

  (* [MaxSimple vis x p]: p continues from x through unvisited nodes only and
     stops exactly where every hypernym of the last node has been visited *)
  Inductive MaxSimple : list node -> node -> list node -> Prop :=
  | ms_end : forall vis x, (forall t, In t (hyp x) -> In t vis) -> MaxSimple vis x []
  | ms_step : forall vis x t p,
      In t (hyp x) -> ~ In t vis -> MaxSimple (t :: vis) t p -> MaxSimple vis x (t :: p).

  (* a maximal simple hypernym chain starting at x (x itself not listed in p) *)
  Definition maximal_simple (x : node) (p : list node) : Prop :=
    chain x p /\ NoDup (x :: p) /\ (forall t, In t (hyp (last p x)) -> In t (x :: p)).

  (* reflexive-transitive reachability along hypernym edges *)
  Definition reach (x y : node) : Prop := exists p, chain x p /\ last p x = y.

  (* n is the length of a shortest hypernym chain from x to y *)
  Definition is_dist (x y : node) (n : nat) : Prop :=
    (exists p, chain x p /\ last p x = y /\ length p = n)
    /\ (forall p, chain x p -> last p x = y -> n <= length p).

  (* n is the smallest position of c on a maximal simple chain x :: p *)
  Definition min_index (x c : node) (n : nat) : Prop :=
    (exists p, maximal_simple x p /\ nth_error (x :: p) n = Some c)
    /\ (forall p m, maximal_simple x p -> nth_error (x :: p) m = Some c -> n <= m).

  (* every hypernym listed anywhere is a node of V *)
  Definition closed (V : list node) : Prop := forall x t, In t (hyp x) -> In t V.

  Definition acyclic : Prop := forall x p, chain x p -> p <> [] -> last p x <> x.
End Spec.
